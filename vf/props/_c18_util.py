"""Helpers of C18 (simulated trees): job descriptors -> fresh arguments -> one real simulator call,
flat tree encodings, the RNG tripwire, the restart-path counter, and the child-interpreter driver

    python -B -m vf.props._c18_util < jobs.json > encodings.json

which re-runs the same (simulator, parameters, seed) jobs in another interpreter (other PYTHONHASHSEED,
other heap addresses) and prints the flat encoding of every returned tree.

A *job* is a small JSON-able dict; every argument object (namespaces, species tree, gene-to-species map,
pop sizes, the generator) is rebuilt from it for every run, so two runs never share a library object."""
import json
import os
import random
import sys

from .. import ref, gen, bridge

SIMS = ("birth_death_tree", "fast_birth_death_tree", "uniform_pure_birth_tree", "pure_kingman_tree",
        "mean_kingman_tree", "constrained_kingman_tree", "contained_coalescent_tree", "coalesce_nodes")
BD_SIMS = ("birth_death_tree", "fast_birth_death_tree", "uniform_pure_birth_tree")
KINGMAN_SIMS = ("pure_kingman_tree", "mean_kingman_tree")
GENE_SIMS = ("constrained_kingman_tree", "contained_coalescent_tree")
NS_CFGS = ("none", "empty", "fewer", "exact", "more", "tlabels")
STRATEGIES = ("random_uniform", "fixed_per_population", "node_attribute")


# ------------------------------------------------------------------------------------------
# job generation (pure Python, no library objects)
def _pick_n(rng, tier, lo=2):
    if tier == "quick":
        return rng.choice([lo, lo, 2, 3, 4, 5, 6, 8, 10, 13, 17, 24, 32, 40])
    r = rng.random()
    if r < 0.55:
        return rng.randint(lo, 20)
    if r < 0.9:
        return rng.randint(20, 80)
    return rng.randint(80, 300)


def _pick_rates(rng):
    birth = rng.choice([0.1, 0.5, 1.0, 1.0, 2.0, 7.5, rng.uniform(0.05, 5.0)])
    frac = rng.choice([0.0, 0.0, 0.1, 0.5, 0.5, 0.8, 0.9, 0.9, rng.uniform(0.0, 0.9)])
    return birth, birth * frac


def species_spec(job):
    """the (ultrametric, dyadic) species / population tree of a gene-tree job, with per-edge pop sizes;
    returns (spec, {id(spec node): pop size or None})."""
    r = random.Random("species/%s" % job["tseed"])
    s = job["nsp"]
    names = ["S%d" % i for i in range(s)]
    spec = gen.random_spec(r, s, p_poly=job.get("ppoly", 0.0), p_unary=job.get("punary", 0.0), names=names)
    gen.ultrametric_lengths(spec, r, dyadic=True)
    scale = job.get("scale", 1)
    pops = {}
    for n in ref.preorder(spec):
        if n is not spec and n[2] is not None:
            n[2] = n[2] * scale
        mode = job.get("pop", "default")
        if mode == "default":
            pops[id(n)] = None
        elif mode == "const":
            pops[id(n)] = job["popsize"]
        else:
            pops[id(n)] = r.choice([1, 2, 10, 100, 2500.5, 10000, r.randint(1, 10000), None])
    return spec, pops


def genes_per_species(job):
    r = random.Random("genes/%s" % job["tseed"])
    if job.get("genes_fixed"):
        return dict(("S%d" % i, job["genes_fixed"]) for i in range(job["nsp"]))
    return dict(("S%d" % i, r.randint(1, job.get("gmax", 5))) for i in range(job["nsp"]))


def make_job(rng, tier, sim=None):
    sim = sim or rng.choice(SIMS[:7] * 3 + SIMS[7:])
    job = {"sim": sim, "seed": rng.randrange(20000 if tier != "quick" else 200)}
    if sim in ("birth_death_tree", "fast_birth_death_tree"):
        job["n"] = _pick_n(rng, tier, lo=1)
        job["birth"], job["death"] = _pick_rates(rng)
        if sim == "birth_death_tree" and job["n"] > 120 and job["death"] > 0.6 * job["birth"]:
            job["n"] = rng.randint(60, 120)      # quadratic simulator: keep the heavy corner bounded
        job["ns"] = rng.choice(NS_CFGS)
        job["attr"] = rng.random() < 0.8
        if sim == "birth_death_tree" and rng.random() < 0.2:
            job["bsd"] = 0.02 * job["birth"]
            if job["death"] >= 0.3 * job["birth"]:
                job["dsd"] = 0.02 * job["birth"]
    elif sim == "uniform_pure_birth_tree":
        job["n"] = _pick_n(rng, tier, lo=1)
        job["birth"] = rng.choice([1.0, 0.1, 3.0, rng.uniform(0.05, 5.0)])
    elif sim in KINGMAN_SIMS:
        job["n"] = _pick_n(rng, tier, lo=1)
        job["pop"] = rng.choice([1, 1, 2, 1.0, 0.5, 37.5, 100, 10000, rng.randint(1, 10000)])
    elif sim in GENE_SIMS:
        smax = 8 if tier == "quick" else 30
        job["nsp"] = rng.choice([1, 2, 2, 3, 4, 5, 6, smax, rng.randint(2, smax)])
        job["tseed"] = rng.randrange(10 ** 6)
        job["ppoly"] = rng.choice([0.0, 0.0, 0.3])
        job["punary"] = rng.choice([0.0, 0.0, 0.15])
        job["scale"] = rng.choice([1, 1, 64, 1024])
        job["pop"] = rng.choice(["default", "const", "random", "random"])
        if job["pop"] == "const":
            job["popsize"] = rng.choice([1, 2.0, 50, 1000, 10000])
        if sim == "contained_coalescent_tree":
            job["gmax"] = rng.choice([1, 2, 3, 5])
            job["mapping"] = rng.choice(["create", "dict", "dict-own-ns"])
            job["defpop"] = rng.choice([1, 1, 5, 400])
            job["attrname"] = rng.choice(["pop_size", "pop_size", "ne", None])
        else:
            job["strategy"] = rng.choice(STRATEGIES)
            job["ngenes"] = rng.choice([None, 1, 2, 3, 5, rng.randint(1, 3 * job["nsp"])])
            if job["strategy"] == "fixed_per_population" and job["ngenes"] is None:
                job["ngenes"] = 2
            if job["strategy"] == "fixed_per_population":
                job["ngenes"] = min(job["ngenes"], 5)
            job["gmax"] = 5
            job["decorate"] = rng.random() < 0.3
            job["treelist"] = rng.random() < 0.3
    elif sim == "coalesce_nodes":
        job["n"] = _pick_n(rng, tier, lo=1)
        job["pop"] = rng.choice([None, 1, 2.5, 100, 10000])
        job["period"] = rng.choice([None, None, 0.0, 0.125, 1.0, 40.0, 1e6])
        job["expected"] = rng.random() < 0.25
    return job


# ------------------------------------------------------------------------------------------
# fresh arguments + the real call
def _bd_namespace(job):
    import dendropy
    cfg, n = job["ns"], job["n"]
    if cfg == "none":
        return None
    if cfg == "empty":
        return dendropy.TaxonNamespace()
    if cfg == "fewer":
        return dendropy.TaxonNamespace(["a%d" % i for i in range(n // 2)])
    if cfg == "exact":
        return dendropy.TaxonNamespace(["a%d" % i for i in range(n)])
    if cfg == "more":
        return dendropy.TaxonNamespace(["a%d" % i for i in range(n + 3)])
    if cfg == "tlabels":       # labels that collide with the generated "T<k>" labels
        return dendropy.TaxonNamespace(["T2", "x y", "T1", "T%d" % (n + 1), "T5"][:max(1, min(5, n - 1))])
    raise ValueError(cfg)


class Call(object):
    """one prepared simulator call: .fn_owner/.fn_name (looked up at call time so that hooks are hit),
    .args/.kwargs (without rng), and what the oracle needs (.aux)."""

    def __init__(self, owner, name, args, kwargs, aux):
        self.owner, self.name, self.args, self.kwargs, self.aux = owner, name, args, kwargs, aux

    def invoke(self, rng):
        kw = dict(self.kwargs)
        if rng is not None:
            kw["rng"] = rng
        return getattr(self.owner, self.name)(*self.args, **kw)


def prepare(job):
    import dendropy
    from dendropy.simulate import treesim
    from dendropy.model import birthdeath, coalescent
    sim = job["sim"]
    if sim in ("birth_death_tree", "fast_birth_death_tree"):
        kw = {"num_extant_tips": job["n"]}
        ns = _bd_namespace(job)
        if ns is not None:
            kw["taxon_namespace"] = ns
        if not job.get("attr", True):
            kw["is_add_extinct_attr"] = False
        if sim == "birth_death_tree":
            if "bsd" in job:
                kw["birth_rate_sd"] = job["bsd"]
            if "dsd" in job:
                kw["death_rate_sd"] = job["dsd"]
            return Call(treesim, sim, (job["birth"], job["death"]), kw, {"ns": ns})
        return Call(birthdeath, sim, (job["birth"], job["death"]), kw, {"ns": ns})
    if sim == "uniform_pure_birth_tree":
        ns = dendropy.TaxonNamespace(["a%d" % i for i in range(job["n"])])
        return Call(treesim, sim, (ns,), {"birth_rate": job["birth"]}, {"ns": ns})
    if sim in KINGMAN_SIMS:
        ns = dendropy.TaxonNamespace(["a%d" % i for i in range(job["n"])])
        return Call(treesim, sim, (ns,), {"pop_size": job["pop"]}, {"ns": ns})
    if sim == "coalesce_nodes":
        nodes = [dendropy.Node(label="n%d" % i) for i in range(job["n"])]
        kw = {"pop_size": job["pop"], "period": job["period"], "use_expected_tmrca": job["expected"]}
        return Call(coalescent, sim, (), dict(kw, nodes=nodes), {"nodes": nodes})
    # gene tree inside a species tree
    spec, pops = species_spec(job)
    sns = dendropy.TaxonNamespace(["S%d" % i for i in range(job["nsp"])])
    ptree = bridge.build_tree(spec, sns, True)
    attr = "pop_size" if sim == "constrained_kingman_tree" else job.get("attrname", "pop_size")
    nodes = []           # (own spec node, live node), walked in parallel (build_tree keeps the child order)
    stack = [(spec, ptree.seed_node)]
    while stack:
        s, nd = stack.pop()
        nodes.append((s, nd))
        stack.extend(zip(s[3], nd._child_nodes))
    for s, nd in nodes:
        if pops[id(s)] is not None and attr:
            setattr(nd._edge, attr, pops[id(s)])
    aux = {"species": spec, "ptree": ptree}
    if sim == "contained_coalescent_tree":
        gps = genes_per_species(job)
        g2s = {}
        if job["mapping"] == "create":
            m = dendropy.TaxonNamespaceMapping.create_contained_taxon_mapping(
                sns, [gps[t.label] for t in sns], contained_taxon_label_separator="_")
            for t in sns:
                for k in range(gps[t.label]):
                    g2s["%s_%d" % (t.label, k + 1)] = t.label
        else:
            md = {}
            order = [(t, k) for t in sns for k in range(gps[t.label])]
            random.Random("gorder/%s" % job["tseed"]).shuffle(order)
            gl = []
            for t, k in order:
                gt = dendropy.Taxon(label="g%s.%d" % (t.label, k))
                md[gt] = t
                gl.append(gt)
                g2s[gt.label] = t.label
            if job["mapping"] == "dict-own-ns":
                m = dendropy.TaxonNamespaceMapping(mapping_dict=md, domain_taxon_namespace=dendropy.TaxonNamespace(gl),
                                                   range_taxon_namespace=sns)
            else:
                m = dendropy.TaxonNamespaceMapping(mapping_dict=md)
        aux["g2s"] = g2s
        kw = {"default_pop_size": job.get("defpop", 1)}
        if job.get("attrname", "pop_size") != "pop_size":
            kw["edge_pop_size_attr"] = job.get("attrname")
        return Call(treesim, sim, (ptree, m), kw, aux)
    # constrained_kingman_tree
    g2s = {}

    def label_fn(sp_label, idx):
        lbl = "%s_%02d" % (sp_label, idx)
        g2s[lbl] = sp_label
        return lbl
    kw = {"gene_sampling_strategy": job["strategy"], "gene_node_label_fn": label_fn,
          "decorate_original_tree": job["decorate"]}
    if job["ngenes"] is not None:
        kw["num_genes"] = job["ngenes"]
    if job["strategy"] == "node_attribute":
        gps = genes_per_species(job)
        for s, nd in nodes:
            if not s[3]:
                nd.num_genes = gps[s[0]]
    if job["treelist"]:
        kw["gene_tree_list"] = dendropy.TreeList()
    aux["g2s"] = g2s
    return Call(treesim, sim, (ptree,), kw, aux)


# ------------------------------------------------------------------------------------------
# flat, order-preserving encoding of what a simulator returned
def flat(spec):
    return [[n[0], n[1], n[2], len(n[3])] for n in ref.preorder(spec)]


def unflat(rows):
    """inverse of flat() (iterative, pre-order)."""
    pos = [0]

    def take():
        r = rows[pos[0]]
        pos[0] += 1
        return [r[0], r[1], r[2], []], r[3]
    root, k = take()
    stack = [(root, k)]
    while stack:
        node, need = stack[-1]
        if len(node[3]) == need:
            stack.pop()
            continue
        child, ck = take()
        node[3].append(child)
        stack.append((child, ck))
    return root


def encode_result(job, result):
    """flat encoding of the tree(s) a job returned: a list of flat trees (a forest for coalesce_nodes)."""
    sim = job["sim"]
    if sim == "coalesce_nodes":
        return [flat(bridge.extract(nd)) for nd in result]
    if sim == "constrained_kingman_tree":
        result = result[0]
    return [flat(bridge.extract(result))]


def run_plain(job, mode="explicit"):
    """one run without monitors (child interpreters): returns (encoding, None) or (None, "ExcClass: msg")"""
    import dendropy.utility
    call = prepare(job)
    try:
        if mode == "explicit":
            res = call.invoke(random.Random(job["seed"]))
        else:
            dendropy.utility.GLOBAL_RNG.seed(job["seed"])
            res = call.invoke(None)
        return encode_result(job, res), None
    except Exception as e:      # reported by the parent as a difference
        return None, "%s: %s" % (type(e).__name__, str(e)[:200])


# ------------------------------------------------------------------------------------------
# RNG tripwire
def _repo_prefix():
    from ..core import REPO_SRC
    return os.path.abspath(REPO_SRC) + os.sep


class Tripwire(object):
    """While armed, every public method of dendropy.utility.GLOBAL_RNG (instance attributes shadowing
    the class's methods, so every module that imported the object is covered) and every module-level
    function of ``random`` is a recorder that notes (which, innermost library function, stack) and then
    delegates to the original.  Generator states are compared as a second line (a reference bound
    before arming would bypass the recorders but not leave the state untouched)."""

    def __init__(self):
        self.hits = []
        self._undo = []
        self._depth = 0
        self._states = None
        self.armed = False

    def _recorder(self, which, orig):
        tw = self

        def recorder(*a, **kw):
            if tw._depth == 0 and tw.armed:
                tw._note(which)
            tw._depth += 1
            try:
                return orig(*a, **kw)
            finally:
                tw._depth -= 1
        recorder.__name__ = getattr(orig, "__name__", "recorder")
        return recorder

    def _note(self, which):
        prefix = _repo_prefix()
        f = sys._getframe(2)
        inner = None
        stack = []
        while f is not None and len(stack) < 12:
            code = f.f_code
            if code.co_filename.startswith(prefix):
                q = getattr(code, "co_qualname", code.co_name)
                if inner is None:
                    inner = q
                stack.append("%s:%s:%d" % (os.path.basename(code.co_filename), q, f.f_lineno))
            f = f.f_back
        if len(self.hits) < 50:
            self.hits.append((which, inner or "<outside-library>", stack))

    def arm(self, watch_global_rng=True):
        import dendropy.utility
        g = dendropy.utility.GLOBAL_RNG
        inst = random._inst
        self._states = (g.getstate(), inst.getstate())
        self._getstates = (g.getstate, inst.getstate)
        self.watch_global_rng = watch_global_rng
        if watch_global_rng:
            for name in dir(g):
                if name.startswith("_"):
                    continue
                orig = getattr(g, name)
                if not callable(orig):
                    continue
                had = name in g.__dict__
                old = g.__dict__.get(name)
                setattr(g, name, self._recorder("GLOBAL_RNG.%s" % name, orig))
                self._undo.append(("inst", g, name, had, old))
        for name in random.__all__:
            orig = getattr(random, name)
            if isinstance(orig, type) or not callable(orig):
                continue
            setattr(random, name, self._recorder("random.%s" % name, orig))
            self._undo.append(("mod", random, name, True, orig))
        self.armed = True

    def disarm(self):
        """restores everything; returns the list of state-level findings (strings)."""
        self.armed = False
        while self._undo:
            kind, owner, name, had, old = self._undo.pop()
            if kind == "inst" and not had:
                try:
                    delattr(owner, name)
                except AttributeError:
                    pass
            else:
                setattr(owner, name, old)
        changed = []
        if self._states is not None:
            g_get, i_get = self._getstates
            if self.watch_global_rng and g_get() != self._states[0]:
                changed.append("GLOBAL_RNG")
            if i_get() != self._states[1]:
                changed.append("random")
        self._states = None
        return changed


class RestartCounter(object):
    """counts executions of the restart-after-total-extinction branch: Node.clear_child_nodes called
    directly from a birth-death simulator's frame (its only call sites there are that branch and the
    general-sampling branch, which this check never enables)."""

    def __init__(self):
        self.count = 0
        self._orig = None

    def install(self):
        import dendropy
        counter = self
        orig = dendropy.Node.clear_child_nodes
        self._orig = orig

        def clear_child_nodes(self_node, *a, **kw):
            if sys._getframe(1).f_code.co_name in ("birth_death_tree", "fast_birth_death_tree"):
                counter.count += 1
            return orig(self_node, *a, **kw)
        dendropy.Node.clear_child_nodes = clear_child_nodes

    def uninstall(self):
        import dendropy
        if self._orig is not None:
            dendropy.Node.clear_child_nodes = self._orig
            self._orig = None


# ------------------------------------------------------------------------------------------
def main():
    from .. import core
    core.ensure_repo_on_path()
    sys.setrecursionlimit(20000)
    doc = json.load(sys.stdin)
    out = []
    for job in doc["jobs"]:
        enc, err = run_plain(job, "explicit")
        out.append({"enc": enc, "err": err})
    json.dump({"results": out, "hashseed": os.environ.get("PYTHONHASHSEED")}, sys.stdout)


if __name__ == "__main__":
    main()
