"""Write routes, read routes and object histories of the C02 check.

An *api* string is  "<kind>[:<variant>]":
  kind     tree   one-tree docs, Tree.* methods            list   TreeList.* methods
  variant  (empty)          as_string(...)  +  get(data=...)                       the plain route
           src-ns           get(data=, taxon_namespace=<the SOURCE namespace>)     populated namespace re-used
           read-append      <source TreeList>.read(data=)                          appended to a non-empty list
           read-twice       TreeList().read(data=) twice into one list             second read meets its own taxa
           path             write(path=) / write_to_path  +  get(path=) / get_from_path / get(file=<text file>)
           stream           write(file=StringIO) / write_to_stream  +  get(file=StringIO) / get_from_stream /
                            get_from_string
           yield            as_string + Tree.yield_from_files([StringIO], taxon_namespace=<fresh>)
           yield-files      write(path=) + Tree.yield_from_files([path, <text file>])   every tree twice
           dataset          DataSet(tree list).as_string + DataSet.get(data=)
           rewrite          plain round trip, then the READ-BACK objects are written and read again
           prewrite=<pair>  the source object is first written under another option pair (discarded)
           relabelled       the source is built and written with other labels, then every Taxon / node / tree
                            is renamed in place to the doc's labels before the judged write

Files are opened in TEXT mode only (a binary-mode file object makes the tokenizer spin for ever: it
compares read(1) with "" only).  Every file / stream / yielder route runs under the JUMP step budget, so
that a reader that never terminates becomes a verdict (clause *-step-budget-exceeded) instead of a stuck
shard.  Scratch files live in a mkdtemp directory removed in `finally`.
"""
import io
import locale
import os
import shutil
import tempfile

from .. import core
from ..mon.budget import budget, StepBudgetExceeded

BASIC = ("tree", "list")
FILE_VARIANTS = ("path", "stream", "yield", "yield-files")
LIST_ONLY = ("read-append", "read-twice", "dataset", "yield-files")
HISTORY_VARIANTS = ("rewrite", "relabelled")        # + prewrite=<pair>
ALL_VARIANTS = ("src-ns", "read-append", "read-twice", "path", "stream", "yield", "yield-files", "dataset",
                "rewrite", "relabelled")


def split(api):
    kind, _, variant = api.partition(":")
    return kind, variant


def basic_of(api):
    return split(api)[0]


def route_tag(api):
    """the part of a mechanism key that names the route (pair names are dropped: keys are mechanisms)."""
    v = split(api)[1]
    return "prewrite" if v.startswith("prewrite=") else v


def step_limit(n_nodes, n_chars):
    """JUMP budget of one file-route call: thousands of times what a healthy writer / reader needs
    (measured on 600 random documents: < 10 jumps per node written, < 4 per character read; the worst
    healthy call used 0.04 % of its limit)."""
    return 2000000 + 20000 * n_nodes + 3000 * n_chars


def locale_encodes(labels):
    """write(path=) opens the file with the locale's encoding: only labels that encoding can represent are
    sent down the path routes (so that a non-UTF-8 locale is not blamed on the library)."""
    enc = locale.getpreferredencoding(False)
    try:
        for s in labels:
            s.encode(enc)
    except (UnicodeError, LookupError):
        return False
    return True


def translate_dict(ns, labels):
    """{Taxon: token} for translate_tree_taxa=<dict>.  Three token styles, chosen by the size of the
    namespace: 'T<i>', the taxon numbers REVERSED (a token is then the number of another taxon), the
    numbers shifted by two.  Tokens never coincide (up to case) with a label of the doc."""
    taxa = list(ns)
    n = len(taxa)
    lowered = set(s.lower() for s in labels) | set(s.upper() for s in labels)
    styles = [lambda i: "T%d" % i, lambda i: str(n - i), lambda i: str(i + 3)]
    order = [styles[(n + k) % 3] for k in range(3)] + [lambda i: "Zq%dtk" % i]
    for f in order:
        toks = [f(i) for i in range(n)]
        if not any(t.lower() in lowered or t.upper() in lowered for t in toks):
            return dict(zip(taxa, toks))
    raise core.HarnessBug("no collision-free translate tokens")


class Scratch(object):
    def __init__(self):
        self.dir = None
        self.files = []

    def path(self, name):
        if self.dir is None:
            self.dir = tempfile.mkdtemp(prefix="vf-c02-")
        return os.path.join(self.dir, name)

    def open_text(self, path):
        f = open(path, "r")          # TEXT mode, locale encoding: the mode write(path=) used
        self.files.append(f)
        return f

    def close(self):
        for f in self.files:
            try:
                f.close()
            except Exception:
                pass
        if self.dir is not None:
            shutil.rmtree(self.dir, ignore_errors=True)


def write(src, schema, w, variant, scratch, flavour, dendropy):
    """-> (text, path or None).  `flavour` (0/1) picks between an entry point and its alias."""
    if variant in ("path", "yield-files"):
        path = scratch.path("doc." + schema)
        if flavour:
            src.write_to_path(path, schema, **w)
        else:
            src.write(path=path, schema=schema, **w)
        with open(path, "r") as f:
            return f.read(), path
    if variant == "stream":
        s = io.StringIO()
        if flavour:
            src.write_to_stream(s, schema, **w)
        else:
            src.write(file=s, schema=schema, **w)
        return s.getvalue(), None
    if variant == "dataset":
        ds = dendropy.DataSet()
        ds.add_tree_list(src)
        return ds.as_string(schema, **w), None
    return src.as_string(schema, **w), None


def read(cls, text, path, schema, r, variant, scratch, flavour, dendropy, src_ns=None, src_list=None):
    """-> (list of trees, namespace, extra, the object the reader delivered) ; extra = list of (clause, discriminator, detail) observed on the
    way (structure of the returned objects), never raises for them."""
    extra = []
    if variant == "src-ns":
        got = cls.get(data=text, schema=schema, taxon_namespace=src_ns, **r)
        if got.taxon_namespace is not src_ns:
            extra.append(("namespace-not-the-given-one", "", {}))
        return ([got] if cls is dendropy.Tree else list(got)), got.taxon_namespace, extra, got
    if variant == "read-append":
        n0 = len(src_list)
        src_list.read(data=text, schema=schema, **r)
        return list(src_list)[n0:], src_list.taxon_namespace, extra, src_list
    if variant == "read-twice":
        tl = dendropy.TreeList()
        tl.read(data=text, schema=schema, **r)
        tl.read(data=text, schema=schema, **r)
        return list(tl), tl.taxon_namespace, extra, tl
    if variant == "path":
        if flavour == 0:
            got = cls.get(path=path, schema=schema, **r)
        elif flavour == 1:
            got = cls.get_from_path(path, schema, **r)
        else:
            got = cls.get(file=scratch.open_text(path), schema=schema, **r)
        return ([got] if cls is dendropy.Tree else list(got)), got.taxon_namespace, extra, got
    if variant == "stream":
        if flavour == 0:
            got = cls.get(file=io.StringIO(text), schema=schema, **r)
        elif flavour == 1:
            got = cls.get_from_stream(io.StringIO(text), schema, **r)
        else:
            got = cls.get_from_string(text, schema, **r)
        return ([got] if cls is dendropy.Tree else list(got)), got.taxon_namespace, extra, got
    if variant == "yield":
        ns2 = dendropy.TaxonNamespace()
        gl = list(dendropy.Tree.yield_from_files([io.StringIO(text)], schema, taxon_namespace=ns2, **r))
        return gl, ns2, extra, None
    if variant == "yield-files":
        ns2 = dendropy.TaxonNamespace()
        gl = list(dendropy.Tree.yield_from_files([path, scratch.open_text(path)], schema, taxon_namespace=ns2, **r))
        return gl, ns2, extra, None
    if variant == "dataset":
        ds = dendropy.DataSet.get(data=text, schema=schema, **r)
        nns, ntl = len(ds.taxon_namespaces), len(ds.tree_lists)
        if nns != 1 or ntl > 1:
            extra.append(("dataset-structure-changed", "namespaces:%s|tree-lists:%s" % (
                "none" if nns == 0 else "several", "several" if ntl > 1 else ntl), {"namespaces": nns, "tree_lists": ntl}))
            if nns == 0:
                return [], dendropy.TaxonNamespace(), extra, None
        gns = ds.taxon_namespaces[0]
        gl = []
        for tl in ds.tree_lists:
            if tl.taxon_namespace is not gns:
                extra.append(("dataset-structure-changed", "tree-list-over-another-namespace", {}))
            gl.extend(tl)
        return gl, gns, extra, ds
    got = cls.get(data=text, schema=schema, **r)
    return ([got] if cls is dendropy.Tree else list(got)), got.taxon_namespace, extra, got


def guarded(fn, limit):
    """run fn() under the step budget -> (result, None) or (None, where-it-tripped)."""
    b = budget(limit)
    try:
        with b:
            return fn(), None
    except StepBudgetExceeded as e:
        return None, e.where
