"""Private helpers of C09 (character-matrix round trips).  Everything in here is DendroPy-free
harness knowledge: the symbol tables of the data types, seeded generators for matrix specs and
labels, independent emitters for NEXUS / PHYLIP / FASTA / NeXML source documents, re-flow of
library-written NEXUS / PHYLIP text into interleaved / wrapped layouts, and the comparison of two
plain matrix models  [(label, [cell, ...]), ...]  with a mechanism-level discriminator.

A *cell* of a model is
    str                      canonical symbol of a named state, upper-cased (all alphabets used
                             here are case-insensitive)
    ["amb"|"poly", "01"]      multistate without a symbol: denomination + sorted member symbols
    float                    continuous value
    None                     the library holds ``None`` in that position (padding)
"""
import json
import re
from xml.sax.saxutils import quoteattr

# ----------------------------------------------------------------------------------------------
# symbol tables (from the IUPAC codes; written down here, not read from the library)
_NUC_AMB = {"N": "ACGT", "R": "AG", "Y": "CT", "M": "AC", "W": "AT", "S": "CG", "K": "GT",
            "V": "ACG", "H": "ACT", "D": "AGT", "B": "CGT"}


def _sub(d, a, b):
    return dict((k, v.replace(a, b)) for k, v in d.items())


TYPES = {
    "dna": {"cls": "DnaCharacterMatrix", "fund": "ACGT", "gap": "-", "missing": "?", "amb": _NUC_AMB,
            "syn": {"X": "N"}},
    "rna": {"cls": "RnaCharacterMatrix", "fund": "ACGU", "gap": "-", "missing": "?",
            "amb": _sub(_NUC_AMB, "T", "U"), "syn": {"X": "N"}},
    "nucleotide": {"cls": "NucleotideCharacterMatrix", "fund": "ACGTU", "gap": "-", "missing": "?",
                   "amb": _sub(_NUC_AMB, "T", "TU"), "syn": {"X": "N"}},
    "protein": {"cls": "ProteinCharacterMatrix", "fund": "ACDEFGHIKLMNPQRSTVWY*", "gap": "-", "missing": "?",
                "amb": {"B": "DN", "Z": "EQ", "X": "ACDEFGHIKLMNPQRSTVWY*"}, "syn": {}},
    "restriction": {"cls": "RestrictionSitesCharacterMatrix", "fund": "01", "gap": "", "missing": "", "amb": {},
                    "syn": {}},
    "infinite": {"cls": "InfiniteSitesCharacterMatrix", "fund": "01", "gap": "", "missing": "", "amb": {},
                 "syn": {}},
    "standard": {"cls": "StandardCharacterMatrix", "fund": "0123456789", "gap": "-", "missing": "?", "amb": {},
                 "syn": {}},
    "continuous": {"cls": "ContinuousCharacterMatrix"},
}
DISCRETE = ("dna", "rna", "nucleotide", "protein", "standard", "restriction", "infinite")
ALL_TYPES = DISCRETE + ("continuous",)

# which (type, format) pairs are in scope.  "reject" = the writer refuses explicitly (checked);
# "as-standard" = NEXUS has no DATATYPE for it in this library: written as STANDARD, read back as standard.
SUPPORT = {
    "nexus": {"dna": 1, "rna": 1, "nucleotide": 1, "protein": 1, "standard": 1, "continuous": 1,
              "restriction": "as-standard", "infinite": "as-standard"},
    "phylip": dict((t, 1) for t in ALL_TYPES),
    "fasta": dict([(t, 1) for t in DISCRETE] + [("continuous", 0)]),
    "nexml": {"dna": 1, "rna": 1, "protein": 1, "standard": 1, "continuous": 1, "restriction": 1,
              "nucleotide": "reject", "infinite": "reject"},
}

# standard alphabets used by the workload: (fundamental symbols, named ambiguous, named polymorphic)
STD_ALPHABETS = {
    "digits": ("0123456789", (), ()),
    "binary": ("01", (), ()),
    "ternary": ("012", (), ()),
    "letters": ("abc", (), ()),
    "mixed": ("01ab", (), ()),
    "named-amb": ("012", (("R", "01"), ("S", "12")), ()),
    "named-poly": ("01", (), (("P", "01"),)),
}


def type_symbols(dtype, alphabet=None):
    """(fundamental, gap, missing, {amb symbol: members}, {synonym: canonical}) as raw symbols"""
    if dtype == "standard":
        fund, amb, poly = STD_ALPHABETS[alphabet or "digits"]
        named = dict(amb)
        named.update(dict(poly))
        return fund, "-", "?", named, {}
    t = TYPES[dtype]
    return t["fund"], t["gap"], t["missing"], t["amb"], t["syn"]


def canonical(dtype, sym, alphabet=None):
    """canonical (upper-cased) symbol a raw input symbol stands for"""
    s = sym.upper()
    if dtype != "standard":
        s = TYPES[dtype]["syn"].get(s, s)
    return s


def category(dtype, cell, alphabet=None):
    """coarse class of a model cell, used as mechanism discriminator"""
    if cell is None:
        return "None"
    if isinstance(cell, float):
        return "value"
    if isinstance(cell, (list, tuple)):
        return "unnamed-" + cell[0]
    if dtype == "continuous":
        return "symbol"
    fund, gap, missing, amb, syn = type_symbols(dtype, alphabet)
    if gap and cell == gap:
        return "gap"
    if missing and cell == missing:
        return "missing"
    if cell in fund.upper():
        return "fundamental"
    if cell in [k.upper() for k in amb]:
        return "ambiguity"
    return "other"


# ----------------------------------------------------------------------------------------------
# generators
SIMPLE_LABEL_RE = re.compile(r"^[A-Za-z][A-Za-z0-9.]*$")
SPECIAL = "()[]{}\\/,;:=*'\"`+-<>#&%_ \t!?@^|~.$"
JSON_VISIBLE = set('"\\<&\t')


def nexml_label_at_risk(label):
    return any((c in JSON_VISIBLE) or ord(c) > 126 or ord(c) < 32 for c in label)


LONG_LENGTHS = (11, 12, 30, 100)      # beyond the 10 columns of strict PHYLIP


def gen_labels(rng, n, style, exclude="", xmlsafe=False, forbid=(), taken=(), long_p=0.05):
    """n labels, pairwise distinct up to letter case (also from ``taken``), no leading/trailing whitespace.
    styles: simple | hostile | hostile-xmlsafe | oneline | nospace | singlespace | blanks-no-underscore | strict10.
    With probability ``long_p`` a label of every style but strict10 has 11 / 12 / 30 / 100 characters."""
    out, seen = [], set()
    for t in taken:
        seen.add(t.lower())
        seen.add(t.upper())
    guard = 0
    while len(out) < n:
        guard += 1
        if guard > 10000:
            raise RuntimeError("label generator starved")
        long_k = rng.choice(LONG_LENGTHS) if (style != "strict10" and rng.random() < long_p) else 0
        if style == "simple":
            s = "t%d" % (len(out) + 1) if (rng.random() < 0.5 and not long_k) else \
                rng.choice("abcdeXYZ") + "".join(rng.choice("abcXYZ019.") for _ in range(
                    (long_k - 1) if long_k else rng.randint(0, 7)))
        elif style == "strict10":
            k = rng.choice([1, 2, 5, 9, 10, 10])
            alpha = "abcXYZ019._-+*/|#" + (" " if rng.random() < 0.4 else "")
            s = "".join(rng.choice(alpha) for _ in range(k))
            s = re.sub(r"  +", " ", s)
        else:
            alpha = "abcXYZ019" + SPECIAL + "\u00e9\u00df\u03b1"
            if style in ("hostile-xmlsafe",):
                alpha = "".join(c for c in alpha if c not in JSON_VISIBLE and ord(c) < 127)
            if style in ("nospace",):
                alpha = "".join(c for c in alpha if c not in " \t")
            if style in ("singlespace", "blanks-no-underscore"):
                alpha = alpha.replace("\t", "")
            if style == "blanks-no-underscore":
                alpha = alpha.replace("_", "") + "  "
            if xmlsafe:
                alpha = "".join(c for c in alpha if c not in JSON_VISIBLE and ord(c) < 127)
            if exclude:
                alpha = "".join(c for c in alpha if c not in exclude)
            k = long_k or rng.randint(1, 9)
            s = "".join(rng.choice(alpha) for _ in range(k))
            if style in ("singlespace", "blanks-no-underscore"):
                s = re.sub(r"  +", " ", s)
        if not s or s.strip() != s or s in forbid:
            continue
        if style == "strict10" and len(s) > 10:
            continue
        if s.lower() in seen or s.upper() in seen:
            continue
        seen.add(s.lower())
        seen.add(s.upper())
        out.append(s)
    return out


CONT_SPECIALS = [0.0, 1.0, -1.0, 3.0, 1e-10, 1.5e+20, -2.25, 0.1, 123456.789, 5e-324, 1.7976931348623157e+308]


def gen_value(rng):
    """a float (dyadic, special, integral-valued, wide range), the int a user may well pass, or -0.0"""
    r = rng.random()
    if r < 0.04:
        return rng.randint(-1000, 1000)          # a Python int
    if r < 0.06:
        return -0.0
    if r < 0.3:
        return rng.randint(-64, 64) / 8.0
    if r < 0.5:
        return rng.choice(CONT_SPECIALS)
    if r < 0.6:
        return float(rng.randint(-5, 5))
    return rng.uniform(-10, 10) * 10 ** rng.randint(-12, 12)


def make_ragged(rng, rows, allow_empty=False):
    """rows cut to unequal lengths >= 1 (at least one keeps the full length)"""
    if not rows:
        return rows
    keep = rng.randrange(len(rows))
    out = []
    for i, r in enumerate(rows):
        if i == keep or not r:
            out.append(list(r))
        elif allow_empty and rng.random() < 0.12:
            out.append([])
        else:
            out.append(list(r[:rng.randint(1, len(r))]))
    return out


def gen_rows(rng, dtype, nrows, ncols, style, alphabet=None):
    """rows of *raw* input symbols (may be lower case / synonyms) or floats"""
    if dtype == "continuous":
        return [[gen_value(rng) for _ in range(ncols)] for _ in range(nrows)]
    fund, gap, missing, amb, syn = type_symbols(dtype, alphabet)
    extra = gap + missing
    ambs = "".join(sorted(amb)) + "".join(sorted(syn))
    if style == "fund":
        pool = fund
    elif style == "gappy":
        pool = fund + extra * 3
    elif style == "amb" and (ambs or extra):
        pool = ambs + extra
    else:
        pool = fund + extra + ambs
    rows = []
    for _ in range(nrows):
        row = []
        for _ in range(ncols):
            c = rng.choice(pool)
            if style in ("full", "amb") and rng.random() < 0.25 and c not in syn:
                c = c.lower()     # (the library registers no lower-case spelling for synonyms such as X)
            row.append(c)
        rows.append(row)
    if style == "full" and nrows * ncols >= len(pool):
        # every symbol of the type at least once
        cells = [(i, j) for i in range(nrows) for j in range(ncols)]
        rng.shuffle(cells)
        for (i, j), c in zip(cells, pool):
            rows[i][j] = c
    return rows


def expected_model(dtype, labels, rows, alphabet=None):
    """model the matrix must have when built from (labels, rows)"""
    out = []
    for lab, row in zip(labels, rows):
        if dtype == "continuous":
            out.append([lab, [float(v) for v in row]])
        else:
            out.append([lab, [c if isinstance(c, list) else canonical(dtype, c, alphabet) for c in row]])
    return out


DIMS_SMALL = [(1, 1), (1, 2), (2, 1), (1, 7), (5, 1), (2, 2), (3, 4), (4, 9)]


def gen_dims(rng, tier, heavy=False):
    r = rng.random()
    if r < 0.25:
        return rng.choice(DIMS_SMALL)
    if tier == "quick":
        if r < 0.9:
            return rng.randint(2, 8), rng.randint(2, 40)
        return rng.randint(6, 12), rng.randint(60, 160)      # crosses the FASTA wrap column
    if r < 0.7:
        return rng.randint(2, 12), rng.randint(2, 80)
    if r < 0.97 or heavy:
        return rng.randint(8, 30), rng.randint(60, 300)
    return rng.randint(30, 60), rng.randint(500, 2000)


# ----------------------------------------------------------------------------------------------
# independent emitters of source documents
def nexus_quote(label):
    if SIMPLE_LABEL_RE.match(label):
        return label
    return "'" + label.replace("'", "''") + "'"


def cell_text(cell, dtype):
    if isinstance(cell, list):
        return ("{%s}" if cell[0] == "amb" else "(%s)") % cell[1]
    if dtype == "continuous":
        return repr(float(cell))
    return cell


def _kw(rng, word):
    return rng.choice([word, word.lower(), word.capitalize()]) if rng else word


NEXUS_DATATYPE = {"dna": "DNA", "rna": "RNA", "nucleotide": "NUCLEOTIDE", "protein": "PROTEIN",
                  "standard": "STANDARD", "continuous": "CONTINUOUS"}


def emit_nexus_char_block(rng, dtype, labels, rows, alphabet=None, simple=False, interleave=0, wrap=0,
                          matchchar=False, title=None, link=None, comments=False, declare=True):
    """one CHARACTERS (or DATA) block.  interleave=k: pages of k columns; wrap=k (non-interleaved):
    sequences broken over lines of k cells; matchchar: later rows use '.' where they equal row 0
    (only for cells that are plain symbols); declare=False: no MISSING= / GAP= terms (the rows may then use '?' only:
    '?' is the format's default missing symbol, a gap symbol has no default)."""
    sep = " " if dtype == "continuous" else ""
    ncols = len(rows[0])
    toks = [[cell_text(c, dtype) for c in row] for row in rows]
    if matchchar and dtype != "continuous":
        for i in range(1, len(toks)):
            for j in range(ncols):
                if not isinstance(rows[i][j], list) and not isinstance(rows[0][j], list) \
                        and rows[i][j].upper() == rows[0][j].upper() and rng.random() < 0.7:
                    toks[i][j] = "."
    out = ["%s %s;" % (_kw(rng, "BEGIN"), _kw(rng, "DATA" if simple else "CHARACTERS"))]
    if title:
        out.append("  TITLE %s;" % nexus_quote(title))
    if link:
        out.append("  LINK TAXA = %s;" % nexus_quote(link))
    dims = "  %s %sNCHAR=%d;" % (_kw(rng, "DIMENSIONS"), ("NTAX=%d " % len(labels)) if simple else "", ncols)
    out.append(dims)
    fmt = ["DATATYPE=%s" % NEXUS_DATATYPE[dtype]]
    if dtype == "standard":
        fund = STD_ALPHABETS[alphabet or "digits"][0]
        fmt.append('SYMBOLS="%s"' % (" ".join(fund) if rng.random() < 0.5 else fund))
    if dtype != "continuous":
        if declare:
            fmt.append("MISSING=? GAP=-")
        if matchchar:
            fmt.append("MATCHCHAR=.")
    if interleave:
        fmt.append(rng.choice(["INTERLEAVE", "INTERLEAVE=YES", "interleave"]))
    elif rng.random() < 0.15:
        fmt.append("INTERLEAVE=NO")
    out.append("  %s %s;" % (_kw(rng, "FORMAT"), " ".join(fmt)))
    out.append("  %s" % _kw(rng, "MATRIX"))
    w = max(len(nexus_quote(l)) for l in labels)
    if comments:
        out.append("  [ a comment before the first row ]")
    if interleave:
        for start in range(0, ncols, interleave):
            for lab, tk in zip(labels, toks):
                out.append("    %s  %s" % (nexus_quote(lab).ljust(w), sep.join(tk[start:start + interleave])))
            out.append("")
    else:
        for lab, tk in zip(labels, toks):
            if wrap and ncols > wrap:
                out.append("    %s  %s" % (nexus_quote(lab).ljust(w), sep.join(tk[:wrap])))
                for start in range(wrap, ncols, wrap):
                    out.append("    %s  %s" % (" " * w, sep.join(tk[start:start + wrap])))
            else:
                out.append("    %s  %s" % (nexus_quote(lab).ljust(w), sep.join(tk)))
    out.append("  ;")
    out.append("%s;" % _kw(rng, "END"))
    return "\n".join(out) + "\n"


def emit_nexus_taxa_block(rng, labels, title=None):
    out = ["BEGIN TAXA;"]
    if title:
        out.append("  TITLE %s;" % nexus_quote(title))
    out.append("  DIMENSIONS NTAX=%d;" % len(labels))
    out.append("  TAXLABELS")
    for l in labels:
        out.append("    " + nexus_quote(l))
    out.append("  ;")
    out.append("END;")
    return "\n".join(out) + "\n"


def emit_phylip(rng, dtype, labels, rows, strict=False, interleaved=0, wrap=0, multispace=False):
    sep = " " if dtype == "continuous" else ""
    ncols = len(rows[0])
    toks = [[cell_text(c, dtype) for c in row] for row in rows]
    out = ["%d %d" % (len(labels), ncols)]
    if strict:
        heads = [l.ljust(10) for l in labels]
        cont = ""
    else:
        w = max(len(l) for l in labels)
        heads = [l.ljust(w) + ("  " if multispace else rng.choice([" ", "  "])) for l in labels]
        cont = ""
    if interleaved:
        first = True
        for start in range(0, ncols, interleaved):
            for h, tk in zip(heads, toks):
                out.append((h if first else cont) + sep.join(tk[start:start + interleaved]))
            out.append("")
            first = False
    else:
        for h, tk in zip(heads, toks):
            if wrap and ncols > wrap:
                out.append(h + sep.join(tk[:wrap]))
                for start in range(wrap, ncols, wrap):
                    out.append(sep.join(tk[start:start + wrap]))
            else:
                out.append(h + sep.join(tk))
    return "\n".join(out) + "\n"


def emit_fasta(rng, dtype, labels, rows, width=0):
    out = []
    for l, row in zip(labels, rows):
        out.append(">" + l)
        s = "".join(row)
        if width:
            for i in range(0, len(s), width):
                out.append(s[i:i + width])
        else:
            out.append(s)
        if rng.random() < 0.5:
            out.append("")
    return "\n".join(out) + "\n"


NEXML_TYPE = {"dna": "Dna", "rna": "Rna", "protein": "Protein", "restriction": "Restriction",
              "standard": "Standard", "continuous": "Continuous"}


def emit_nexml(rng, dtype, namespaces, matrices, seqs=False, layout=None):
    """namespaces: [(id, label|None, [taxon labels])]; matrices: [(otus id, label, alphabet, labels, rows)].
    Explicit <char> columns (one per column; as many as the longest row) and, for discrete types, <states>.
    layout (all optional; the document means the same matrix whatever the layout):
      "shuffle_cells": <cell> elements of a row listed in random order (cell markup)
      "scramble_ids":  <char> ids are not in column order (declaration order = column order, ids are arbitrary)
      "two_states":    two <states> sets with the same content, the <char> columns refer to either
      "shuffle_rows":  <row> elements in another order than the <otu> elements"""
    layout = layout or {}
    out = ['<?xml version="1.0" encoding="UTF-8"?>',
           '<nex:nexml version="0.9" xmlns="http://www.nexml.org/2009" xmlns:nex="http://www.nexml.org/2009" '
           'xmlns:xsi="http://www.w3.org/2001/XMLSchema-instance" xmlns:xsd="http://www.w3.org/2001/XMLSchema#">']
    tid = {}
    for nid, nlabel, labs in namespaces:
        out.append('  <otus id=%s%s>' % (quoteattr(nid), (" label=%s" % quoteattr(nlabel)) if nlabel else ""))
        for k, l in enumerate(labs):
            tid[(nid, l)] = "%s_t%d" % (nid, k)
            out.append('    <otu id="%s" label=%s/>' % (tid[(nid, l)], quoteattr(l)))
        out.append('  </otus>')
    for mi, (nid, mlabel, alphabet, labels, rows) in enumerate(matrices):
        mid = "m%d" % mi
        out.append('  <characters id="%s"%s otus=%s xsi:type="nex:%s%s">' % (
            mid, (" label=%s" % quoteattr(mlabel)) if mlabel else "", quoteattr(nid), NEXML_TYPE[dtype],
            "Seqs" if seqs else "Cells"))
        ncols = max(len(r) for r in rows) if rows else 0
        out.append('    <format>')
        nsets = 2 if (layout.get("two_states") and dtype != "continuous") else 1
        sids = []
        if dtype != "continuous":
            fund, gap, missing, amb, syn = type_symbols(dtype, alphabet)
            for si in range(nsets):
                sid = {}
                sname = "%s_s%s" % (mid, "" if si == 0 else "b")
                out.append('      <states id="%s">' % sname)
                k = 0
                for s in fund + gap:
                    sid[s.upper()] = "%s_%d" % (sname, k)
                    out.append('        <state id="%s" symbol=%s/>' % (sid[s.upper()], quoteattr(s)))
                    k += 1
                poly = dict(STD_ALPHABETS[alphabet or "digits"][2]) if dtype == "standard" else {}
                sets = [(a, amb[a]) for a in sorted(amb)]
                if missing:
                    sets.append((missing, fund + gap))
                for a, members in sets:
                    sid[a.upper()] = "%s_%d" % (sname, k)
                    k += 1
                    tag = "polymorphic_state_set" if a in poly else "uncertain_state_set"
                    out.append('        <%s id="%s" symbol=%s>' % (tag, sid[a.upper()], quoteattr(a)))
                    for m in members:
                        out.append('          <member state="%s"/>' % sid[m.upper()])
                    out.append('        </%s>' % tag)
                out.append('      </states>')
                sids.append((sname, sid))
        names = list(range(ncols))
        if layout.get("scramble_ids"):
            rng.shuffle(names)
        cid = ["%s_c%d" % (mid, names[j]) for j in range(ncols)]       # id of column j
        cset = [rng.randrange(nsets) for _ in range(ncols)]            # <states> set of column j
        for j in range(ncols):
            if dtype == "continuous":
                out.append('      <char id="%s"/>' % cid[j])
            else:
                out.append('      <char id="%s" states="%s"/>' % (cid[j], sids[cset[j]][0]))
        out.append('    </format>')
        out.append('    <matrix>')
        rorder = list(range(len(labels)))
        if layout.get("shuffle_rows"):
            rng.shuffle(rorder)
        for ri in rorder:
            l, row = labels[ri], rows[ri]
            out.append('      <row id="%s_r%d" otu="%s">' % (mid, ri, tid[(nid, l)]))
            if seqs:
                sep = " " if dtype in ("continuous", "standard") else ""
                out.append('        <seq>%s</seq>' % sep.join(cell_text(c, dtype) for c in row))
            else:
                order = list(range(len(row)))
                if layout.get("shuffle_cells"):
                    rng.shuffle(order)
                    layout.setdefault("_cell_orders", {})["%d/%s" % (mi, l)] = order
                for j in order:
                    c = row[j]
                    st = repr(float(c)) if dtype == "continuous" else sids[cset[j]][1][canonical(dtype, c, alphabet)]
                    out.append('        <cell char="%s" state="%s"/>' % (cid[j], st))
            out.append('      </row>')
        out.append('    </matrix>')
        out.append('  </characters>')
    out.append('</nex:nexml>')
    return "\n".join(out) + "\n"


def rows_in_document_order(model, cell_orders, mi=0):
    """the model a reader builds that appends the <cell>s of a row as they come instead of placing them by char="""
    out = []
    for lab, cells in model:
        order = (cell_orders or {}).get("%d/%s" % (mi, lab))
        out.append([lab, [cells[j] for j in order] if order and len(order) == len(cells) else list(cells)])
    return out


def gen_nexml_layout(rng, seqs):
    lay = {}
    if rng.random() < 0.5:
        lay["scramble_ids"] = True
    if rng.random() < 0.3:
        lay["two_states"] = True
    if rng.random() < 0.3:
        lay["shuffle_rows"] = True
    if not seqs and rng.random() < 0.6:
        lay["shuffle_cells"] = True
    return lay


# ----------------------------------------------------------------------------------------------
# re-flow of library-written text (labels must be simple tokens: no blanks, no quotes)
def reflow_nexus_interleaved(text, dtype, page, rng):
    """rewrite the (single) MATRIX of a library-written NEXUS document into interleaved pages of
    ``page`` cells and declare INTERLEAVE in its FORMAT statement.  Returns None when the text
    does not have the expected layout."""
    lines = text.split("\n")
    try:
        i0 = next(i for i, l in enumerate(lines) if l.strip() == "MATRIX")
        i1 = next(i for i in range(i0 + 1, len(lines)) if lines[i].strip() == ";")
        f = next(i for i in range(i0) if lines[i].strip().startswith("FORMAT "))
    except StopIteration:
        return None
    rows = []
    for l in lines[i0 + 1:i1]:
        parts = l.split(None, 1)
        if len(parts) != 2:
            return None
        lab, seq = parts
        cells = seq.split() if dtype == "continuous" else list(seq.strip())
        rows.append((lab, cells))
    if not rows or any("{" in "".join(c) or "(" in "".join(c) for _, c in rows):
        return None
    ncols = max(len(c) for _, c in rows)
    fl = lines[f].rstrip()
    if not fl.endswith(";"):
        return None
    lines[f] = fl[:-1] + " " + rng.choice(["INTERLEAVE", "INTERLEAVE=YES"]) + ";"
    sep = " " if dtype == "continuous" else ""
    body = []
    for start in range(0, ncols, page):
        for lab, cells in rows:
            body.append("        %s    %s" % (lab, sep.join(cells[start:start + page])))
        body.append("")
    return "\n".join(lines[:i0 + 1] + body + lines[i1:])


def reflow_phylip(text, dtype, labels, strict, page=0, wrap=0):
    """library-written sequential PHYLIP -> interleaved pages of ``page`` cells, or sequential with
    sequences wrapped every ``wrap`` cells.  Uses the known labels to split head and sequence."""
    lines = [l for l in text.split("\n") if l.strip() != ""]
    head, body = lines[0], lines[1:]
    if len(body) != len(labels):
        return None
    rows = []
    for lab, l in zip(labels, body):
        if strict:
            h, seq = l[:10], l[10:]
            if h.strip() != lab:
                return None
        else:
            if not l.startswith(lab):
                return None
            k = len(lab)
            while k < len(l) and l[k] == " ":
                k += 1
            h, seq = l[:k], l[k:]
            if len(h) - len(lab) < 2:
                return None
        cells = seq.split() if dtype == "continuous" else list(seq.strip())
        rows.append((h, cells))
    ncols = max(len(c) for _, c in rows)
    sep = " " if dtype == "continuous" else ""
    out = [head]
    if page:
        first = True
        for start in range(0, ncols, page):
            for h, cells in rows:
                out.append((h if first else "") + sep.join(cells[start:start + page]))
            out.append("")
            first = False
    else:
        for h, cells in rows:
            out.append(h + sep.join(cells[:wrap]))
            for start in range(wrap, ncols, wrap):
                out.append(sep.join(cells[start:start + wrap]))
    return "\n".join(out) + "\n"


# ----------------------------------------------------------------------------------------------
# comparison
def cells_equal(a, b):
    if isinstance(a, float) or isinstance(b, float):
        return isinstance(a, float) and isinstance(b, float) and a == b
    if isinstance(a, (list, tuple)) and isinstance(b, (list, tuple)):
        return list(a) == list(b)
    return a == b


def compare_models(src, got, dtype, alphabet=None):
    """None when equal, else (clause, discriminator, detail) naming the first difference in the
    order: number of rows, taxon labels/order, sequence lengths, cells."""
    if len(src) != len(got):
        return ("row-count", "%s" % ("fewer" if len(got) < len(src) else "more"),
                {"expected_rows": len(src), "got_rows": len(got), "got_labels": [r[0] for r in got][:20]})
    sl, gl = [r[0] for r in src], [r[0] for r in got]
    if sl != gl:
        if sorted(sl) == sorted(gl):
            return ("taxon-order", "permuted", {"expected": sl[:20], "got": gl[:20]})
        k = next(i for i in range(len(sl)) if sl[i] != gl[i])
        return ("taxon-label", "changed", {"row": k, "expected": sl[k], "got": gl[k]})
    for k, (a, b) in enumerate(zip(src, got)):
        if len(a[1]) != len(b[1]):
            return ("sequence-length", "shorter" if len(b[1]) < len(a[1]) else "longer",
                    {"row": k, "label": a[0], "expected_len": len(a[1]), "got_len": len(b[1]),
                     "got_head": b[1][:12]})
    for k, (a, b) in enumerate(zip(src, got)):
        for j, (x, y) in enumerate(zip(a[1], b[1])):
            if not cells_equal(x, y):
                return ("cell", "%s->%s" % (category(dtype, x, alphabet), category(dtype, y, alphabet)),
                        {"row": k, "label": a[0], "col": j, "expected": x, "got": y})
    return None


def accept_equivalent_multistates(exp, got, dtype, alphabet=None):
    """A document token '{AG}' denotes the state "A or G"; whether the parser hands back the alphabet's named code
    (R) or an equivalent state without a symbol is not something the property speaks about.  Where ``exp`` has a
    named ambiguity code and ``got`` an unnamed ambiguous state with exactly its members, ``got`` is rewritten to the
    code.  -> (got', number of cells rewritten)"""
    if dtype == "continuous" or len(exp) != len(got):
        return got, 0
    amb = type_symbols(dtype, alphabet)[3]
    members = dict((k.upper(), "".join(sorted(v.upper()))) for k, v in amb.items())
    n, out = 0, []
    for (el, er), (gl, gr) in zip(exp, got):
        row = list(gr)
        if len(er) == len(gr):
            for j, (x, y) in enumerate(zip(er, gr)):
                if isinstance(x, str) and isinstance(y, (list, tuple)) and y[0] == "amb" \
                        and members.get(x) == "".join(sorted(y[1])):
                    row[j] = x
                    n += 1
        out.append([gl, row])
    return out, n


def strip_leading_none(got, src):
    """rows of ``got`` with their leading None cells removed where that makes the row as long as the source row
    + the list of (row index, number of leading None cells) of the rows that were padded"""
    out, padded = [], []
    for i, (lab, cells) in enumerate(got):
        k = 0
        while k < len(cells) and cells[k] is None:
            k += 1
        if k and i < len(src) and len(cells) - k == len(src[i][1]):
            out.append([lab, cells[k:]])
            padded.append((i, k))
        else:
            out.append([lab, cells])
    return out, padded


def strip_none_padding(got):
    """the rows of ``got`` with leading None cells removed + whether row i carried exactly
    i * width leading Nones (signature of one fresh NeXML column id per cell)."""
    out, sig = [], True
    width = len(got[0][1]) if got else 0
    for i, (lab, cells) in enumerate(got):
        k = 0
        while k < len(cells) and cells[k] is None:
            k += 1
        if k != i * width:
            sig = False
        out.append([lab, cells[k:]])
    return out, sig


def json_escaped(label):
    return json.dumps(label)[1:-1]
