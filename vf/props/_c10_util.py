"""DendroPy-free pieces of the C10 monitor: the lock-step namespace model, three-valued
case-insensitive matching, parsers that read the textual renderings of a bitmask back
into label groups / bit positions, and the operation alphabets of the exhaustive
history generator.  Nothing in this file imports or calls the library under test."""


# ---------------------------------------------------------------------------------------
# label matching
# ---------------------------------------------------------------------------------------
def ci_match(q, lab):
    """Case-insensitive match, three-valued.  The property statement does not say which
    Unicode folding is meant, so a pair is judged only when lower(), upper() and
    casefold() agree: True (all say equal), False (all say different), None (ambiguous,
    e.g. 'ß' vs 'SS' -- recorded, never judged)."""
    if q == lab:
        return True
    f = (q.lower() == lab.lower(), q.upper() == lab.upper(), q.casefold() == lab.casefold())
    if f[0] and f[1] and f[2]:
        return True
    if not (f[0] or f[1] or f[2]):
        return False
    return None


def match(q, lab, case_sensitive):
    if case_sensitive:
        return q == lab
    return ci_match(q, lab)


# ---------------------------------------------------------------------------------------
# the namespace model
# ---------------------------------------------------------------------------------------
class World(object):
    """Taxon identities (small ints, 'tid') and their current labels.  Labels belong to
    the taxon, not to a namespace: a relabel is seen by every namespace holding it."""

    def __init__(self):
        self.labels = {}
        self._next = 0

    def new_tid(self, label):
        t = self._next
        self._next += 1
        self.labels[t] = label
        return t


class NSModel(object):
    """Ordered member list; tid -> single-bit mask, fixed when the bit of a member is
    first observed (or inherited from the original by a copy) and dropped when the taxon
    leaves; case-sensitivity and mutability flags.  The model never predicts *which* bit
    a new member gets (the statement does not say) -- it demands that the bit is a single
    bit, unshared, and unchanged for as long as the taxon stays a member."""

    def __init__(self, world, cs=False, mutable=True):
        self.w = world
        self.members = []
        self.bits = {}
        self.cs = bool(cs)
        self.mutable = bool(mutable)
        self.ever_removed = False

    def snapshot(self):
        return (list(self.members), dict(self.bits), self.cs, self.mutable, self.ever_removed)

    def restore(self, snap):
        self.members, self.bits, self.cs, self.mutable, self.ever_removed = (
            list(snap[0]), dict(snap[1]), snap[2], snap[3], snap[4])

    def eff_cs(self, override):
        return self.cs if override is None else bool(override)

    def matches(self, q, override=None):
        """(tids whose label matches q, in membership order; ambiguous?)"""
        cs = self.eff_cs(override)
        out = []
        amb = False
        for t in self.members:
            r = match(q, self.w.labels[t], cs)
            if r is None:
                amb = True
            elif r:
                out.append(t)
        return out, amb

    def drop(self, tid):
        self.members.remove(tid)
        self.bits.pop(tid, None)
        self.ever_removed = True

    def state_sig(self):
        """canonical state: (label, bit position or None) in membership order + flags"""
        return (tuple((self.w.labels[t], (self.bits[t].bit_length() - 1) if t in self.bits else None)
                      for t in self.members), self.cs, self.mutable)

    def order_differs_from_bits(self):
        """membership order is not the order of the bits, or bit k is not at list position k
        (the situation after a removal, a sort or a reverse)"""
        for pos, t in enumerate(self.members):
            b = self.bits.get(t)
            if b is not None and b != (1 << pos):
                return True
        return False


# ---------------------------------------------------------------------------------------
# reading renderings back
# ---------------------------------------------------------------------------------------
_PUNCT = "(),;"
_UNQUOTED_STOP = set("(),;:'[] \t\n\r")


def newick_tokens(s):
    toks = []
    i, n = 0, len(s)
    while i < n:
        c = s[i]
        if c in " \t\n\r":
            i += 1
        elif c in _PUNCT:
            toks.append((c, None))
            i += 1
        elif c == "'":
            i += 1
            buf = []
            while True:
                if i >= n:
                    raise ValueError("unterminated quote")
                if s[i] == "'":
                    if i + 1 < n and s[i + 1] == "'":
                        buf.append("'")
                        i += 2
                        continue
                    i += 1
                    break
                buf.append(s[i])
                i += 1
            toks.append(("L", "".join(buf)))
        else:
            j = i
            while j < n and s[j] not in _UNQUOTED_STOP:
                j += 1
            if j == i:
                raise ValueError("unexpected character %r at %d" % (c, i))
            toks.append(("L", s[i:j].replace("_", " ")))   # unquoted underscore == blank (NEXUS/Newick)
            i = j
    return toks


def _parse_group(toks, pos):
    if pos >= len(toks) or toks[pos][0] != "(":
        raise ValueError("expected '('")
    pos += 1
    items = []
    if pos < len(toks) and toks[pos][0] == ")":
        return items, pos + 1
    while True:
        if pos >= len(toks):
            raise ValueError("unterminated group")
        k, v = toks[pos]
        if k == "(":
            sub, pos = _parse_group(toks, pos)
            items.append(sub)
        elif k == "L":
            items.append(v)
            pos += 1
        else:
            raise ValueError("empty item before %r" % k)
        if pos >= len(toks):
            raise ValueError("unterminated group")
        k = toks[pos][0]
        if k == ",":
            pos += 1
        elif k == ")":
            return items, pos + 1
        else:
            raise ValueError("expected ',' or ')', got %r" % k)


def parse_newick_groups(s):
    """('star', [labels])  for "(a,b,c);"      ('split', [left], [right])  for "((a), (b, c));"
    ValueError for anything else."""
    toks = newick_tokens(s)
    top, pos = _parse_group(toks, 0)
    if pos >= len(toks) or toks[pos][0] != ";" or pos + 1 != len(toks):
        raise ValueError("expected ';' at the end")
    if all(isinstance(x, str) for x in top):
        return ("star", top)
    if len(top) == 2 and all(isinstance(g, list) and all(isinstance(x, str) for x in g) for g in top):
        return ("split", top[0], top[1])
    raise ValueError("neither a star nor a two-group split")


def bitstring_positions(s):
    """set of bit positions (0 = least significant = rightmost char) that are '1'"""
    if not isinstance(s, str) or any(c not in "01" for c in s):
        raise ValueError("not a 0/1 string: %r" % (s,))
    n = len(s)
    return set(n - 1 - i for i, c in enumerate(s) if c == "1")


def mask_positions(m):
    out = set()
    i = 0
    while m:
        if m & 1:
            out.add(i)
        m >>= 1
        i += 1
    return out


def is_single_bit(b):
    return isinstance(b, int) and not isinstance(b, bool) and b > 0 and (b & (b - 1)) == 0


# ---------------------------------------------------------------------------------------
# operation alphabets for exhaustive short histories (labels a, A, b)
# ---------------------------------------------------------------------------------------
# An op descriptor is a JSON-able list; see C10.Run.apply for the meaning of each.
FULL = [
    ["new", "a"], ["new", "A"], ["new", "b"],
    ["require", "a", None], ["require", "A", None], ["require", "b", None],
    ["remove_label", "a", None, False], ["discard", "A", None, False], ["discard", "b", None, False],
    ["remove_at", 0], ["del", -1],
    ["sort", None, False], ["reverse"],
    ["relabel_cycle", 0], ["readd"], ["clear"],
    ["copy", "ctor", True], ["copy", "deepcopy", True],
]
CORE = [
    ["new", "a"], ["new", "A"], ["new", "b"],
    ["require", "A", None], ["discard", "a", None, False],
    ["remove_at", 0], ["del", -1],
    ["sort", None, False], ["reverse"], ["readd"], ["relabel_cycle", 0],
    ["copy", "copy", True],
]
MINI = [
    ["new", "a"], ["new", "B"], ["require", "A", None],
    ["remove_at", 0], ["sort", None, False], ["readd"], ["copy", "deepcopy", True],
]
MICRO = [
    ["new", "b"], ["new", "a"], ["remove_at", 1], ["sort", None, True], ["readd"],
]
ALPHABETS = {"full": FULL, "core": CORE, "mini": MINI, "micro": MICRO}

CYCLE = {"a": "A", "A": "b", "b": "a"}
