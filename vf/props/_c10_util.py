"""DendroPy-free pieces of the C10 monitor: the lock-step namespace model, three-valued
case-insensitive matching, parsers that read the textual renderings of a bitmask back
into label groups / bit positions, and the operation alphabets of the exhaustive
history generator.  Nothing in this file imports or calls the library under test."""


# ---------------------------------------------------------------------------------------
# label matching
# ---------------------------------------------------------------------------------------
def ci_match(q, lab):
    """Case-insensitive match, three-valued.  The property statement does not say which
    Unicode folding is meant, so a pair is judged only when lower(), upper() and
    casefold() agree: True (all say equal), False (all say different), None (ambiguous,
    e.g. 'ß' vs 'SS' -- recorded, never judged)."""
    if q == lab:
        return True
    f = (q.lower() == lab.lower(), q.upper() == lab.upper(), q.casefold() == lab.casefold())
    if f[0] and f[1] and f[2]:
        return True
    if not (f[0] or f[1] or f[2]):
        return False
    return None


def match(q, lab, case_sensitive):
    """q is always a string; an unlabelled taxon (label None) matches no string under either setting"""
    if lab is None:
        return False
    if case_sensitive:
        return q == lab
    return ci_match(q, lab)


def msorted(xs):
    """sorted() for label lists that may hold None (unlabelled taxa / unnamed rendering slots)"""
    return sorted(xs, key=lambda x: (x is None, x if x is not None else ""))


# ---------------------------------------------------------------------------------------
# the namespace model
# ---------------------------------------------------------------------------------------
class World(object):
    """Taxon identities (small ints, 'tid') and their current labels.  Labels belong to
    the taxon, not to a namespace: a relabel is seen by every namespace holding it."""

    def __init__(self):
        self.labels = {}
        self._next = 0
        # deferred copy clauses: [original model, tid, copy model, tid in the copy, copy kind,
        #                         drops of tid in the original so far, drops in the copy so far]
        self.links = []

    def new_tid(self, label):
        t = self._next
        self._next += 1
        self.labels[t] = label
        return t


class NSModel(object):
    """Ordered member list; tid -> single-bit mask, fixed when the bit of a member is
    first observed (or inherited from the original by a copy) and dropped when the taxon
    leaves; case-sensitivity and mutability flags.  The model never predicts *which* bit
    a new member gets (the statement does not say) -- it demands that the bit is a single
    bit, unshared, and unchanged for as long as the taxon stays a member."""

    def __init__(self, world, cs=False, mutable=True):
        self.w = world
        self.members = []
        self.bits = {}
        # the flags are kept as given (they may be truthy/falsy non-bools such as 1 / 0); what they MEAN is bool()
        self.cs_raw = cs
        self.mutable_raw = mutable
        self.cs = bool(cs)
        self.mutable = bool(mutable)
        self.ever_removed = False
        self.drops = {}             # tid -> number of times it left this namespace
        self.pre_members = []       # members before the operation being judged
        self.pre_mutable = self.mutable

    def set_cs(self, raw):
        self.cs_raw = raw
        self.cs = bool(raw)

    def set_mutable(self, raw):
        self.mutable_raw = raw
        self.mutable = bool(raw)

    def mark_pre(self):
        self.pre_members = list(self.members)
        self.pre_mutable = self.mutable

    def snapshot(self):
        return (list(self.members), dict(self.bits), self.cs_raw, self.mutable_raw, self.ever_removed)

    def restore(self, snap):
        self.members, self.bits, self.ever_removed = list(snap[0]), dict(snap[1]), snap[4]
        self.set_cs(snap[2])
        self.set_mutable(snap[3])

    def eff_cs(self, override):
        return self.cs if override is None else bool(override)

    def matches(self, q, override=None):
        """(tids whose label matches q, in membership order; ambiguous?)"""
        cs = self.eff_cs(override)
        out = []
        amb = False
        for t in self.members:
            r = match(q, self.w.labels[t], cs)
            if r is None:
                amb = True
            elif r:
                out.append(t)
        return out, amb

    def drop(self, tid):
        self.members.remove(tid)
        self.bits.pop(tid, None)
        self.ever_removed = True
        self.drops[tid] = self.drops.get(tid, 0) + 1

    def state_sig(self):
        """canonical state: (label, bit position or None) in membership order + flags"""
        return (tuple((self.w.labels[t], (self.bits[t].bit_length() - 1) if t in self.bits else None)
                      for t in self.members), self.cs, self.mutable)

    def order_differs_from_bits(self):
        """membership order is not the order of the bits, or bit k is not at list position k
        (the situation after a removal, a sort or a reverse)"""
        for pos, t in enumerate(self.members):
            b = self.bits.get(t)
            if b is not None and b != (1 << pos):
                return True
        return False


# ---------------------------------------------------------------------------------------
# reading renderings back
# ---------------------------------------------------------------------------------------
_PUNCT = "(),;"
_UNQUOTED_STOP = set("(),;:'[] \t\n\r")


def newick_tokens(s):
    toks = []
    i, n = 0, len(s)
    while i < n:
        c = s[i]
        if c in " \t\n\r":
            i += 1
        elif c in _PUNCT:
            toks.append((c, None))
            i += 1
        elif c == "'":
            i += 1
            buf = []
            while True:
                if i >= n:
                    raise ValueError("unterminated quote")
                if s[i] == "'":
                    if i + 1 < n and s[i + 1] == "'":
                        buf.append("'")
                        i += 2
                        continue
                    i += 1
                    break
                buf.append(s[i])
                i += 1
            toks.append(("L", "".join(buf)))
        else:
            j = i
            while j < n and s[j] not in _UNQUOTED_STOP:
                j += 1
            if j == i:
                raise ValueError("unexpected character %r at %d" % (c, i))
            toks.append(("L", s[i:j].replace("_", " ")))   # unquoted underscore == blank (NEXUS/Newick)
            i = j
    return toks


def _parse_group(toks, pos):
    """items of one parenthesised group; an EMPTY item (nothing between two separators, standard Newick for an
    unnamed leaf) is None, a quoted empty token '' is the string ""; "()" has no items"""
    if pos >= len(toks) or toks[pos][0] != "(":
        raise ValueError("expected '('")
    pos += 1
    items = []
    if pos < len(toks) and toks[pos][0] == ")":
        return items, pos + 1
    while True:
        if pos >= len(toks):
            raise ValueError("unterminated group")
        k, v = toks[pos]
        if k == "(":
            sub, pos = _parse_group(toks, pos)
            items.append(sub)
        elif k == "L":
            items.append(v)
            pos += 1
        elif k in ",)":
            items.append(None)
        else:
            raise ValueError("unexpected %r" % k)
        if pos >= len(toks):
            raise ValueError("unterminated group")
        k = toks[pos][0]
        if k == ",":
            pos += 1
        elif k == ")":
            return items, pos + 1
        else:
            raise ValueError("expected ',' or ')', got %r" % k)


def _flat(g):
    return isinstance(g, list) and all(x is None or isinstance(x, str) for x in g)


def parse_newick_groups(s):
    """('star', [labels])  for "(a,b,c);"      ('split', [left], [right])  for "((a), (b, c));"
    (None in a label list = an unnamed slot).  ValueError for anything else."""
    toks = newick_tokens(s)
    top, pos = _parse_group(toks, 0)
    if pos >= len(toks) or toks[pos][0] != ";" or pos + 1 != len(toks):
        raise ValueError("expected ';' at the end")
    if _flat(top):
        return ("star", top)
    if len(top) == 2 and _flat(top[0]) and _flat(top[1]):
        return ("split", top[0], top[1])
    raise ValueError("neither a star nor a two-group split")


def group_diff(got, want, norm=None):
    """Does a rendered group name exactly the wanted labels?  Unnamed slots (None) and unlabelled taxa (None)
    cannot be compared by name and are left out.  None = yes; 'empty-label-rendered-as-nothing' = the only
    difference is that members labelled "" are missing from the rendering; 'other' = anything else."""
    f = norm or (lambda x: x)
    g = sorted(f(x) for x in got if x is not None)
    w = sorted(f(x) for x in want if x is not None)
    if g == w:
        return None
    g2 = [x for x in g if x != ""]
    w2 = [x for x in w if x != ""]
    if g2 == w2 and len(g) < len(w):
        return "empty-label-rendered-as-nothing"
    return "other"


def bitstring_positions(s):
    """set of bit positions (0 = least significant = rightmost char) that are '1'"""
    if not isinstance(s, str) or any(c not in "01" for c in s):
        raise ValueError("not a 0/1 string: %r" % (s,))
    n = len(s)
    return set(n - 1 - i for i, c in enumerate(s) if c == "1")


def mask_positions(m):
    out = set()
    i = 0
    while m:
        if m & 1:
            out.add(i)
        m >>= 1
        i += 1
    return out


def is_single_bit(b):
    return isinstance(b, int) and not isinstance(b, bool) and b > 0 and (b & (b - 1)) == 0


# ---------------------------------------------------------------------------------------
# operation alphabets for exhaustive short histories (labels a, A, b)
# ---------------------------------------------------------------------------------------
# An op descriptor is a JSON-able list; see C10.Run.apply for the meaning of each.
FULL = [
    ["new", "a"], ["new", "A"], ["new", "b"],
    ["require", "a", None], ["require", "A", None], ["require", "b", None],
    ["remove_label", "a", None, False], ["discard", "A", None, False], ["discard", "b", None, False],
    ["remove_at", 0], ["del", -1],
    ["sort", None, False], ["reverse"],
    ["relabel_cycle", 0], ["readd"], ["clear"],
    ["copy", "ctor", True], ["copy", "deepcopy", True],
]
CORE = [
    ["new", "a"], ["new", "A"], ["new", "b"],
    ["require", "A", None], ["discard", "a", None, False],
    ["remove_at", 0], ["del", -1],
    ["sort", None, False], ["reverse"], ["readd"], ["relabel_cycle", 0],
    ["copy", "copy", True],
]
MINI = [
    ["new", "a"], ["new", "B"], ["require", "A", None],
    ["remove_at", 0], ["sort", None, False], ["readd"], ["copy", "deepcopy", True],
]
MICRO = [
    ["new", "b"], ["new", "a"], ["remove_at", 1], ["sort", None, True], ["readd"],
]
# option dimensions of the label operations, enumerated exhaustively on a namespace that STARTS as [a, A, b]
# (OPTS_INIT): per-call override (True / False / truthy non-bool 1) x first_match_only x immutability x flag toggle,
# plus the list-taking and legacy routes (new_taxa, add_taxa, append) and a clone
OPTS = [
    ["new_taxa", ["B", "b"]],
    ["discard", "a", True, False], ["discard", "A", False, True],
    ["remove_label", "A", False, False], ["remove_label", "a", True, True],
    ["require", "A", True], ["require", "B", 0], ["require", "B", 1],
    ["set_mutable", False], ["set_mutable", 1], ["set_cs", "toggle"],
    ["add_fresh", "a", True], ["add_taxa", 0], ["readd"],
    ["copy", "clone0", True],
]
OPTS_INIT = [["L", "a"], ["L", "A"], ["T", "b"]]
# label boundary classes: the empty string, blank-padded labels, an unlabelled taxon (label None)
EDGE = [
    ["new", ""], ["new", "a"], ["new", " a"], ["add_fresh", None, False],
    ["require", "", None], ["require", "A ", None], ["require", " a", False],
    ["discard", "", None, False], ["discard", "a", None, False], ["remove_label", " A", None, True],
    ["remove_at", 0], ["relabel_edge", 0], ["readd"], ["reverse"],
]
EDGE_QUERIES = ["", "a", " a", "A ", " "]
ALPHABETS = {"full": FULL, "core": CORE, "mini": MINI, "micro": MICRO, "opts": OPTS, "edge": EDGE}
ALPHABET_INIT = {"opts": OPTS_INIT}
ALPHABET_QUERIES = {"edge": EDGE_QUERIES}
# namespace flag values per alphabet (default: the bools); 1 / 0 are the truthy / falsy non-bool twins
ALPHABET_CS = {"opts": (False, 1), "edge": (0, True)}

CYCLE = {"a": "A", "A": "b", "b": "a"}
EDGE_CYCLE = {"a": "", "": " a", " a": None, None: "a"}
