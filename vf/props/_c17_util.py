"""Library-independent oracles and workload generators of check C17 (specs are vf.ref trees [taxon, label, length, children])."""
import math

from .. import ref, gen

EULER = 0.5772156649015328606


def close(a, b, tol=1e-9):
    if a == b:
        return True
    return abs(a - b) <= tol * max(1.0, abs(a), abs(b))


# ---- oracles -------------------------------------------------------------------------------------
def tip_range(s):
    """id(node) -> (shortest, longest) distance to a descendant tip; a missing length counts as 0."""
    memo = {}
    for n in ref.postorder(s):
        if not n[3]:
            memo[id(n)] = (0.0, 0.0)
        else:
            memo[id(n)] = (min(memo[id(c)][0] + (c[2] or 0) for c in n[3]), max(memo[id(c)][1] + (c[2] or 0) for c in n[3]))
    return memo


def forced_ages(s, fn):
    memo = {}
    for n in ref.postorder(s):
        memo[id(n)] = 0.0 if not n[3] else fn(memo[id(c)] + c[2] for c in n[3])
    return memo


def rounding_slack(s):
    """bound on the difference between two float evaluations of any root-to-tip path sum of s (any order of additions)."""
    rd = ref.root_distances(s)
    longest = max(abs(d) for n, d, k in rd)
    deepest = max(k for n, d, k in rd)
    return 2.0 * (deepest + 2) * math.ulp(max(longest, 1e-300))


def stat_oracles(s):
    """definitions of the statistics on spec s; the root's own edge is no branch of the tree (Tree.length: see C17.run_stats)."""
    rd = ref.root_distances(s)
    leaves = [(n, d, k) for n, d, k in rd if not n[3]]
    nl = len(leaves)
    S = sum(k for n, d, k in leaves)
    out = {"N_bar": S / float(nl), "sackin:None": float(S), "sackin:True": S / float(nl),
           "sackin:yule": (S - 2.0 * nl * sum(1.0 / j for j in range(2, nl + 1))) / nl,
           "sackin:pda": S / (nl ** 1.5)}
    # B1
    h = {}
    b1 = 0.0
    for n in ref.postorder(s):
        if not n[3]:
            h[id(n)] = 0
        else:
            h[id(n)] = 1 + max(h[id(c)] for c in n[3])
            if n is not s:
                b1 += 1.0 / h[id(n)]
    out["B1"] = b1
    # Colless
    binary = all(len(n[3]) in (0, 2) for n in ref.preorder(s))
    if binary and nl >= 2:
        cnt = {}
        I = 0
        for n in ref.postorder(s):
            if not n[3]:
                cnt[id(n)] = 1
            else:
                a, b = cnt[id(n[3][0])], cnt[id(n[3][1])]
                I += abs(a - b)
                cnt[id(n)] = a + b
        out["colless:None"] = float(I)
        if nl >= 3:
            out["colless:max"] = I * 2.0 / ((nl - 1) * (nl - 2))
        out["colless:yule"] = (I - nl * math.log(nl) - nl * (EULER - 1.0 - math.log(2))) / nl
        out["colless:pda"] = I / (nl ** 1.5)
    tot = sum((n[2] or 0) for n in ref.preorder(s) if n is not s)
    if tot:
        out["treeness"] = sum((n[2] or 0) for n in ref.preorder(s) if n is not s and n[3]) / tot
    out["length"] = tot
    out["maxdist"] = max(d for n, d, k in rd)
    out["minmax"] = (min(d for n, d, k in leaves), max(d for n, d, k in leaves))
    return out, binary, nl


def gamma_oracle(s):
    """Pybus & Harvey (2000) eq. 1 from the internal node ages of a binary ultrametric tree with n tips."""
    tr = tip_range(s)
    n = len(ref.leaves(s))
    t = sorted((tr[id(x)][0] for x in ref.preorder(s) if x[3]), reverse=True)   # root first
    g = {}
    for k in range(2, n + 1):          # g_k: time during which there are k lineages
        older = t[k - 2]
        younger = t[k - 1] if k - 1 < len(t) else 0.0
        g[k] = older - younger
    T = sum(j * g[j] for j in range(2, n + 1))
    inner = sum(sum(k * g[k] for k in range(2, i + 1)) for i in range(2, n))
    return (inner / (n - 2.0) - T / 2.0) / (T * math.sqrt(1.0 / (12.0 * (n - 2))))


def crossing_edges(s, rd, pm, d, factor=1):
    return sum(1 for n in ref.preorder(s) if pm[id(n)] is not None and rd[id(pm[id(n)])] * factor < d <= rd[id(n)] * factor)


# ---- generators ----------------------------------------------------------------------------------
def gen_tree(tier, rng, dyadic=True, binary=None, allow_single=False):
    quick = tier == "quick"
    n = rng.choice([2, 3, 4, 5, 6, 9, 14, 20]) if quick else rng.choice([2, 3, 4, 5, 6, 10, 25, 60, 200])
    if allow_single and rng.random() < 0.02:
        n = 1
    if binary is None:
        binary = rng.random() < 0.6
    spec = gen.random_spec(rng, n, p_poly=0.0 if binary else 0.4, shape=rng.choice([None, None, None, "caterpillar", "balanced"]))
    gen.ultrametric_lengths(spec, rng, dyadic=dyadic)
    return spec


def has_unary(s):
    return any(len(n[3]) == 1 for n in ref.preorder(s))


def subdivide(spec, rng, p=0.25):
    """copy of spec in which some non-root edges are cut in two by an outdegree-one node (halves: exact in binary floating point;
    a missing length stays missing on both halves)."""
    s = ref.copy(spec)

    def rec(n, is_root):
        n[3] = [rec(c, False) for c in n[3]]
        if not is_root and rng.random() < p:
            if n[2] is None:
                return ref.S(None, [n], None)
            a = n[2] / 2.0
            b = n[2] - a
            n[2] = a
            return ref.S(None, [n], b)
        return n
    return rec(s, True)


def maybe_unary(spec, rng, p_case=0.15):
    """with probability p_case: the same tree with some edges subdivided by outdegree-one nodes (path lengths unchanged)."""
    if rng.random() < p_case and spec[3]:
        s2 = subdivide(spec, rng)
        if has_unary(s2):
            return s2, True
    return spec, False


EPS_CHOICES = [("default", None), ("1e-5", 1e-5), ("1e-2", 1e-2), ("1e-9", 1e-9), ("zero", 0), ("zero-float", 0.0), ("int-1", 1), ("0.25", 0.25)]
OFF_CHOICES = [("None", None), ("False", False), ("-1", -1), ("-0.5", -0.5)]
FACTORS_BELOW = [0.999, 0.95, 0.5]
FACTORS_ABOVE = [1.001, 1.05, 1.5]


def draw_state(rng, base, eps):
    """a set of edge-length deviations {preorder index: delta} of the exactly ultrametric tree base, scaled to the precision eps.
    Returns (kind, deltas, exact: all lengths stay dyadic so that every path sum is exact).  kinds: none | one-deviation | several-deviations (each scaled to eps) | several-large-deviations (multiples of 1/4)"""
    nodes = list(ref.preorder(base))
    idx = list(range(1, len(nodes)))
    kind = rng.choice(["none", "one-deviation", "one-deviation", "one-deviation", "several-deviations", "several-deviations",
                       "several-deviations", "gross"])
    if kind == "none" or not idx:
        return "none", {}, True
    if kind == "gross":
        out = {}
        for i in idx:
            if rng.random() < 0.4:
                out[i] = rng.randint(1, 8) / 4.0
        if not out:
            out[rng.choice(idx)] = 0.75
        return ("several-large-deviations" if len(out) > 1 else "one-deviation"), out, True

    def signed(i, mag):
        # keep every length positive
        sign = rng.choice([1, -1]) if nodes[i][2] > 2 * mag else 1
        return sign * mag
    if kind == "one-deviation":
        i = rng.choice(idx)
        if eps == 0:
            mag = rng.choice([1e-12, 1e-6, 0.25])
        else:
            mag = eps * rng.choice(FACTORS_BELOW + FACTORS_ABOVE)
        return kind, {i: signed(i, mag)}, False
    # several deviations, most of them each within the precision: together they may or may not exceed it
    k = min(len(idx), rng.choice([2, 2, 3, 4]))
    chosen = rng.sample(idx, k)
    out = {}
    for i in chosen:
        if eps == 0:
            mag = rng.choice([1e-12, 1e-6, 0.25])
        else:
            mag = eps * rng.choice([0.1, 0.2, 0.3, 0.45, 0.6, 0.8, 0.95, 0.95, 1.3])
        out[i] = signed(i, mag)
    return kind, out, False


def apply_state(base, deltas):
    s = ref.copy(base)
    nodes = list(ref.preorder(s))
    for i, d in deltas.items():
        nodes[i][2] = nodes[i][2] + d
    return s


def shift_height(spec, rng):
    """move one internal non-root node up or down keeping all tip distances: returns the preorder indices and new lengths
    [(index, new length)] or None when the tree has no such node."""
    nodes = list(ref.preorder(spec))
    cand = [i for i, n in enumerate(nodes) if i and n[3] and n[2] and all(c[2] for c in n[3])]
    if not cand:
        return None
    i = rng.choice(cand)
    v = nodes[i]
    pos = dict((id(n), j) for j, n in enumerate(nodes))
    if rng.random() < 0.5:
        s = v[2] / 2.0                         # node gets older: its own edge shrinks, the child edges grow
        return [(i, v[2] - s)] + [(pos[id(c)], c[2] + s) for c in v[3]]
    s = min(c[2] for c in v[3]) / 2.0          # node gets younger
    return [(i, v[2] + s)] + [(pos[id(c)], c[2] - s) for c in v[3]]
