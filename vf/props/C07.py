"""C07  Re-rooting and re-orienting never change the underlying unrooted tree.

Monitors: hooks on the nine Tree operations and on the two legacy aliases in dendropy.legacy.treemanip
(outermost call only).  pre-snapshot = spec of the tree (raw child lists, taxa identified by a key stamped on the
Taxon object, never by label), its unrooted profile (see _c07_util: taxa, leaves, splits, total length, all
taxon-to-taxon path lengths; a missing length counts as 0 - the documented Tree.length() convention), rooting
flag (True / False / None), and for reroot_at_edge the side and distance of every taxon from both ends of the
edge.  post (on return) recomputes from the live tree and judges:

  leafset           taxon multiset, leaf (degree <= 1) taxon multiset, number of taxon-less tips unchanged
                    (a taxon-less unary root is such a tip; suppression may remove it)
  splits            unrooted split set unchanged
  total-length      sum of all lengths (root edge included, missing = 0) unchanged; for reroot_at_edge it changes by
                    exactly (length1 or 0) + (length2 or 0) - (edge length or 0)
  path-lengths      every taxon-to-taxon path length unchanged; for reroot_at_edge the paths across the edge change
                    by that same amount, the others not at all
  flag              soft ops keep the rooting flag; hard ops (reroot_at_node/edge/midpoint) set rooted
  requested-node    reseed_at / reroot_at_node: the requested node, if it is still in the tree, is the seed node
  midpoint          some pair of most distant leaves lies on opposite sides of the root at equal distance
  root-on-edge      reroot_at_edge: one child clade of the new root is exactly the clade below the requested edge
  edge-placement    reroot_at_edge: root at length2 from the old head side taxa, at length1 from the others
                    (each side judged when that length was given)
  outgroup-first    to_outgroup_position: outgroup node (or, when it was a suppressed unifurcation, its clade) is the
                    root's first child (judged unless the outgroup's parent is a unary root, which suppression removes)

Soundness limits: reseed_at / reroot_at_node at a LEAF (docstring: "takes an internal node") are driven and fully
judged when suppress_unifurcations is False (the drawing is re-hung, nothing is contracted); with
suppress_unifurcations=True the library contracts the pendant edge of that leaf by design, so only the clauses that
this design must still satisfy are judged (no exception, well-formed, flag, every other taxon present, paths among
the other taxa unchanged) and what happens to the target leaf is recorded as a note.  reroot_at_edge gets internal
and terminal edges.  Midpoint only on trees with >= 2 leaves, a taxon on every leaf and all non-root lengths present
(the midpoint of a path is undefined otherwise).  The flag clause is judged for the operations whose documentation
states it (reseed_at soft; reroot_* hard) and for rotate/ladderize/reorder (which are not rootings at all); for
to_outgroup_position / randomly_reorient (documented neither as soft nor as hard) it is recorded only.  The contents
of bipartition_encoding after update_bipartitions=True are not part of this property (C03 judges staleness).
An exception is a violation (the operations document no error for admissible arguments)."""
import inspect
import random
import warnings

from .. import ref, gen, bridge, core
from ..mon.hooks import Hooks
from ..mon import arbor
from . import _c07_util as U

PROP = "C07"
LEVEL_TEXT = ('The nine operations and the two legacy aliases are hooked; a pre-snapshot (taxa, leaf set, unrooted splits, total length with '
              'missing = 0 and the root edge included, all taxon-to-taxon paths, flag, side and distance of every taxon from both ends of the '
              'target edge) is compared with the post-call tree. All shapes with <= 4/5 leaves x every target (internal and leaf nodes, '
              'internal and terminal edges, every outgroup) x flag settings x three rooting states (rooted/unrooted/undefined) x nine length '
              'patterns (unit/integer/ultrametric patterns put the midpoint on a node) x root-edge length (none/0/positive) as workload, '
              'random larger trees beyond; default-argument calls, rng=None, legacy aliases, re-used (pre-encoded, repeatedly re-rooted) '
              'trees and unusual taxon labels are sampled.')
LEVEL_NOTE = 'Trusted: vf/ref.py traversal + props/_c07_util.py path/splits oracles; exact arithmetic on integer/dyadic lengths, 1e-9 relative to the summed magnitude on floats.'
LEVEL = "exploration"
TECHNIQUE = ("runtime monitoring: pre/post hooks on the 9 re-rooting operations and 2 legacy aliases + reference-model oracle "
             "(unrooted splits, path lengths, total length) on generated trees")
RULE = ("cases = tree shape (all shapes n<=5, random larger) x rooting state (True/False/None) x length pattern x root-edge length "
        "x operation x every target (internal node, leaf node, internal edge, terminal edge, outgroup) x flag settings, plus per case: "
        "default-argument calls, rng=None, legacy aliases, a history of three operations on one (possibly pre-encoded) tree, and a "
        "sampled taxon-label class (plain / None / empty / duplicate / non-ASCII / taxon-less leaf / unused taxa in the namespace); "
        "non-trivial = tree has >= 3 leaves and the operation is not applied at the current root; "
        "distinct = (canonical tree with lengths, rooting, op, target, flags, route)")
REACH = ["_tree:Tree.reseed_at", "_tree:Tree.reroot_at_node", "_tree:Tree.reroot_at_edge", "_tree:Tree.reroot_at_midpoint",
         "_tree:Tree.to_outgroup_position", "_tree:Tree.randomly_reorient", "_tree:Tree.randomly_rotate",
         "_tree:Tree.ladderize", "_tree:Tree.reorder", "_edge:Edge.invert", "_tree:Tree.collapse_basal_bifurcation",
         "_tree:Tree.suppress_unifurcations", "_tree:Tree.encode_bipartitions",
         "treemanip:randomly_reorient_tree", "treemanip:randomly_rotate"]
MIN_EVENTS = {"post:invariance-judged": (2000, 100000), "post:midpoint-judged": (200, 5000),
              "post:edge-placement-judged": (200, 5000), "post:outgroup-judged": (200, 5000),
              "midpoint-on-node-cases": (20, 500),
              # deciding monitors of the input classes / clauses added after the audit (about 40-50% of clean runs)
              "post:root-on-edge-judged": (60000, 100000), "post:terminal-edge-placement-judged": (25000, 38000),
              "post:edge-length-replaced-judged": (35000, 50000), "post:requested-node-judged": (75000, 130000),
              "post:leaf-target-fully-judged": (16000, 24000), "post:leaf-target-weakly-judged": (16000, 24000),
              "post:legacy-route-judged": (1700, 3500), "post:missing-lengths-judged": (38000, 70000),
              "post:root-edge-length-judged": (100000, 190000), "post:undefined-rooting-judged": (65000, 110000),
              "post:phase:defaults": (16000, 33000), "post:phase:history": (5000, 10000),
              "label-class:label-None": (70, 150), "label-class:label-empty": (70, 150), "label-class:label-duplicate": (70, 150),
              "label-class:label-non-ascii": (70, 150), "label-class:taxonless-leaf": (70, 150), "label-class:unused-taxa": (70, 150)}
ASSUMPTIONS = ["reference splits / path lengths come from a DendroPy-free spec extracted from raw child lists before and after each call",
               "a missing edge length counts as 0 (documented Tree.length() convention); the root's own edge length is part of the total length",
               "float comparisons: exact for integer/dyadic lengths, 1e-9 relative to the summed magnitude otherwise",
               "re-seeding at a leaf with suppress_unifurcations=True is outside the documented domain ('takes an internal node'): judged on the weaker clauses only"]

OPS = ("reseed_at", "reroot_at_node", "reroot_at_edge", "reroot_at_midpoint", "to_outgroup_position",
       "randomly_reorient", "randomly_rotate", "ladderize", "reorder")
LEGACY = {"randomly_reorient_tree": "randomly_reorient", "randomly_rotate": "randomly_rotate"}
HARD = ("reroot_at_node", "reroot_at_edge", "reroot_at_midpoint")
FLAG_JUDGED_SOFT = ("reseed_at", "randomly_rotate", "ladderize", "reorder")
PATTERNS = ("unit", "ints", "zeros", "dyadic", "float", "ultrametric", "equal", "none", "mixed_missing")
ROOTINGS = (True, False, None)
LABEL_CLASSES = ("label-None", "label-empty", "label-duplicate", "label-non-ascii", "taxonless-leaf", "unused-taxa")
# flip to judge reseed_at / reroot_at_node at a leaf with suppress_unifurcations=True like any other target
# (the library then fails: the leaf's pendant length, or the leaf itself, is dropped)
JUDGE_CONTRACTING_LEAF_TARGET = False


class Monitor(object):
    """pre/post hooks for the nine operations and the legacy aliases; reusable by other workloads."""

    def __init__(self, ctx):
        self.ctx = ctx
        self.exact = False      # set by the driver: the workload is integral / dyadic -> compare exactly
        self.phase = None       # set by the driver: which part of the workload issues the calls
        self.last_exc = None    # the last exception a hook has seen (and reported)

    def install(self, hooks):
        import dendropy
        from dendropy.legacy import treemanip
        for op in OPS:
            sig = inspect.signature(inspect.getattr_static(dendropy.Tree, op))
            hooks.install(dendropy.Tree, op, pre=self._mk_pre(op, op, sig), post=self._mk_post(op, op))
        for fn, sem in LEGACY.items():
            name = "legacy.%s" % fn
            sig = inspect.signature(getattr(treemanip, fn))
            hooks.install(treemanip, fn, pre=self._mk_pre(name, sem, sig), post=self._mk_post(name, sem))

    # ------------------------------------------------------------------
    @staticmethod
    def _split(obj, args, kw):
        """(tree, remaining positional args) for methods and for module functions f(tree, ...)."""
        if obj is not None:
            return obj, args
        if args:
            return args[0], args[1:]
        return kw.get("tree"), args

    def _mk_pre(self, name, sem, sig):
        def pre(obj, args, kw):
            tree, rest = self._split(obj, args, kw)
            try:
                spec, nodes = U.extract(tree, with_nodes=True)
            except bridge.ExtractError:
                return None
            try:
                bound = sig.bind(*((obj,) + tuple(args) if obj is not None else tuple(args)), **kw)
                bound.apply_defaults()
                arg = dict(bound.arguments)
            except TypeError:
                arg = None      # the call itself will raise
            prof = U.profile(spec)
            snap = {"name": name, "sem": sem, "spec": spec, "flag": tree._is_rooted, "prof": prof,
                    "newick": ref.to_newick(spec), "arg": arg, "tags": [],
                    "call": dict((k, v) for k, v in (arg or kw).items()
                                 if isinstance(v, (bool, int, float, type(None))) and k != "rng")}
            if arg is None:
                return snap
            live2spec = dict((id(nd), s) for s, nd in nodes)
            below = U.taxa_below(spec)
            if sem == "reroot_at_edge":
                edge = arg.get("edge")
                l1, l2 = arg.get("length1"), arg.get("length2")
                head = live2spec.get(id(edge._head_node))
                tail = live2spec.get(id(edge.tail_node)) if edge.tail_node is not None else None
                if head is not None and tail is not None:
                    hb = below[id(head)]
                    dh = U.undirected_dists(spec, head)
                    dt = U.undirected_dists(spec, tail)
                    side = {}
                    for n in ref.preorder(spec):
                        if n[0] is not None:
                            side[n[0]] = ("head", dh[id(n)]) if n[0] in hb else ("tail", dt[id(n)])
                    snap["edge"] = {"l1": l1, "l2": l2, "len": head[2], "side": side, "below": hb,
                                    "terminal": not head[3], "desc": "edge above clade %s" % sorted(hb)}
                    if not head[3]:
                        snap["tags"].append("terminal-edge")
            if sem == "to_outgroup_position":
                og = arg.get("outgroup_node")
                snap["og"] = og
                p = og._parent_node
                snap["og_parent_outdegree"] = len(p._child_nodes) if p is not None else 0
                snap["og_parent_is_root"] = p is not None and p._parent_node is None
                s = live2spec.get(id(og))
                snap["og_desc"] = sorted(below[id(s)]) if s is not None else None
            if sem in ("reseed_at", "reroot_at_node"):
                nd = arg.get("new_seed_node", arg.get("new_root_node"))
                s = live2spec.get(id(nd))
                snap["target"] = nd
                snap["target_desc"] = sorted(below[id(s)]) if s is not None else None
                is_leaf = s is not None and not s[3] and s is not spec
                snap["target_is_leaf"] = is_leaf
                if is_leaf:
                    snap["tags"].append("leaf-target")
                    snap["target_taxon"] = s[0]
                    snap["contracting"] = bool(arg.get("suppress_unifurcations"))
            if sem == "reorder":
                labels = [getattr(nd.taxon, "label", None) for s, nd in nodes if getattr(nd, "taxon", None) is not None]
                if any(x is None for x in labels):
                    snap["tags"].append("taxon-label-None")
            return snap
        return pre

    def _mk_post(self, name, sem):
        def post(snap, obj, args, kw, result, exc):
            ctx = self.ctx
            tree, rest = self._split(obj, args, kw)
            if exc is not None:
                self.last_exc = exc
            if snap is None:
                # the tree was not walkable BEFORE the call (cyclic / shared nodes): nothing can be judged
                ctx.note("pre-snapshot-impossible:%s" % name)
                ctx.mark_inconclusive("%s: tree not extractable before the call" % name)
                return
            det = {"before": snap["newick"], "rooted_flag": snap["flag"], "call": snap["call"]}
            if self.phase:
                det["phase"] = self.phase
            for k in ("target_desc", "og_desc"):
                if snap.get(k) is not None:
                    det["target"] = snap[k]
            if "edge" in snap:
                det["target"] = snap["edge"]["desc"]
            tag = ("|" + "+".join(snap["tags"])) if snap["tags"] else ""
            if exc is not None:
                if isinstance(exc, core.CaseTimeout):
                    return
                ctx.violation("%s|unexpected-exception|%s%s" % (name, core.exc_key(exc), tag),
                              "%s raised %s" % (name, core.exc_brief(exc)), det)
                return
            try:
                spec, nodes = U.extract(tree, with_nodes=True)
            except bridge.ExtractError as e:
                ctx.violation("%s|malformed-tree%s" % (name, tag), str(e), det)
                return
            probs = arbor.check(tree, iterators=False)
            if probs:
                ctx.violation("%s|malformed-tree%s" % (name, tag), "; ".join(probs), det)
                return
            det["after"] = ref.to_newick(spec)
            before = snap["prof"]
            after = U.profile(spec)
            ctx.ev("post:invariance-judged")
            if self.phase:
                ctx.ev("post:phase:%s" % self.phase)
            if name.startswith("legacy."):
                ctx.ev("post:legacy-route-judged")
            if snap["flag"] is None:
                ctx.ev("post:undefined-rooting-judged")
            weak = bool(snap.get("contracting")) and not JUDGE_CONTRACTING_LEAF_TARGET
            if snap.get("target_is_leaf"):
                ctx.ev("post:leaf-target-weakly-judged" if weak else "post:leaf-target-fully-judged")
            if weak:
                ok = self.judge_contracted_leaf_target(name, snap, before, after, det, tag)
            else:
                ok = self.judge_invariance(name, snap, before, after, det, tag)
            # ---- rooting flag
            fb, fa = snap["flag"], tree._is_rooted
            trans = "|%s->%s" % (U.flagname(fb), U.flagname(fa)) if fb is None else ""
            if sem in HARD:
                if fa is not True:
                    ctx.violation("%s|flag-not-set-rooted%s" % (name, trans), "hard re-rooting left is_rooted=%r (was %r)" % (fa, fb), det)
            elif sem in FLAG_JUDGED_SOFT:
                if fa is not fb:
                    ctx.violation("%s|flag-changed%s" % (name, trans), "soft operation changed is_rooted %r -> %r" % (fb, fa), det)
            elif fa is not fb:
                ctx.note("flag-changed-by-%s|%s->%s" % (name, U.flagname(fb), U.flagname(fa)))
            # ---- operation specific clauses (they presuppose the taxa of the snapshot: skipped after an invariance violation)
            if not ok:
                return
            if sem in ("reseed_at", "reroot_at_node") and snap.get("target") is not None:
                nd = snap["target"]
                if any(x is nd for s, x in nodes):
                    ctx.ev("post:requested-node-judged")
                    if tree._seed_node is not nd:
                        ctx.violation("%s|requested-node-is-not-the-seed%s" % (name, tag),
                                      "the requested node is still in the tree but is not its seed node", det)
                else:
                    ctx.note("requested-node-removed-by-suppression%s" % tag)
            if sem == "reroot_at_midpoint":
                if before["missing"] or before["bare_tips"] or before["taxa"] != before["leaves"] or len(before["leaves"]) < 2:
                    ctx.note("midpoint-undefined-not-judged")
                else:
                    self.judge_midpoint(spec, after, det)
            if sem == "reroot_at_edge" and "edge" in snap:
                self.judge_edge(spec, snap, det, tag)
            if sem == "to_outgroup_position":
                self.judge_outgroup(tree, spec, nodes, snap, det)
        return post

    # ------------------------------------------------------------------
    def _length_tag(self, snap, tag):
        t = list(snap["tags"])
        if snap["prof"]["missing"]:
            t.append("missing-lengths")
        if snap["prof"]["root_length"]:
            t.append("root-edge-length")
        return ("|" + "+".join(t)) if t else ""

    def judge_invariance(self, name, snap, before, after, det, tag):
        ctx = self.ctx
        # a taxon-less root with a single child is a (taxon-less) tip of the unrooted tree that suppression may remove
        tips_ok = (after["bare_tips"] == before["bare_tips"] or
                   (before["bare_unary_root"] and after["bare_tips"] == before["bare_tips"] - 1))
        if after["taxa"] != before["taxa"] or after["leaves"] != before["leaves"] or not tips_ok:
            ctx.violation("%s|leafset-changed%s" % (name, tag), "leaf set changed: taxa %s -> %s, leaves %s -> %s, taxon-less tips %d -> %d" % (
                before["taxa"], after["taxa"], before["leaves"], after["leaves"], before["bare_tips"], after["bare_tips"]), det)
            return False
        if after["splits"] != before["splits"]:
            ctx.violation("%s|splits-changed%s" % (name, tag), "set of unrooted splits changed", det)
            return False
        delta = 0
        scale = before["scale"]
        side = None
        if "edge" in snap:
            e = snap["edge"]
            delta = (e["l1"] or 0) + (e["l2"] or 0) - (e["len"] or 0)
            scale += abs(e["l1"] or 0) + abs(e["l2"] or 0)
            side = e["side"]
            det["length1"], det["length2"], det["edge_length"] = e["l1"], e["l2"], e["len"]
            if delta:
                ctx.ev("post:edge-length-replaced-judged")
        if before["missing"]:
            ctx.ev("post:missing-lengths-judged")
        if before["root_length"]:
            ctx.ev("post:root-edge-length-judged")
        ltag = self._length_tag(snap, tag)
        want = before["total"] + delta
        if not U.close(after["total"], want, scale, self.exact):
            ctx.violation("%s|total-length-changed%s" % (name, ltag), "total length %r -> %r%s" % (
                before["total"], after["total"], (" (expected %r: the edge of length %r was replaced by %r + %r)" % (
                    want, snap["edge"]["len"], snap["edge"]["l1"], snap["edge"]["l2"])) if "edge" in snap else ""), det)
            return False
        for k, v in before["dist"].items():
            w = v + (delta if (side is not None and side[k[0]][0] != side[k[1]][0]) else 0)
            if not U.close(after["dist"][k], w, scale, self.exact):
                ctx.violation("%s|path-length-changed%s" % (name, ltag),
                              "path %s-%s %r -> %r%s" % (k[0], k[1], v, after["dist"][k], (" (expected %r)" % w) if w != v else ""), det)
                return False
        return True

    def judge_contracted_leaf_target(self, name, snap, before, after, det, tag):
        """reseed_at / reroot_at_node at a leaf with suppress_unifurcations=True: the library contracts the pendant
        edge of the target by design (documented domain: internal nodes).  Judged: every other taxon is still there,
        no taxon appeared, the paths among the other taxa are unchanged."""
        ctx = self.ctx
        t = snap.get("target_taxon")
        others_b = [x for x in before["taxa"] if x != t]
        others_a = [x for x in after["taxa"] if x != t]
        if others_a != others_b or after["taxa"].count(t) > before["taxa"].count(t):
            ctx.violation("%s|leafset-changed%s" % (name, tag), "taxa other than the target leaf changed: %s -> %s" % (before["taxa"], after["taxa"]), det)
            return False
        if t is not None and t not in after["taxa"]:
            ctx.note("leaf-target-with-suppression:target-leaf-removed-from-tree")
        elif after["total"] != before["total"]:
            ctx.note("leaf-target-with-suppression:pendant-edge-length-dropped")
        scale = before["scale"]
        for k, v in before["dist"].items():
            if t in k:
                continue
            if not U.close(after["dist"][k], v, scale, self.exact):
                ctx.violation("%s|path-length-changed%s" % (name, self._length_tag(snap, tag)),
                              "path %s-%s (neither is the target leaf) %r -> %r" % (k[0], k[1], v, after["dist"][k]), det)
                return False
        return True

    def judge_midpoint(self, spec, after, det):
        ctx = self.ctx
        ctx.ev("post:midpoint-judged")
        pairs = after["dist"]
        if not pairs:
            ctx.note("midpoint-no-pair-of-taxa-after-the-call")
            return
        rd = U.root_dists(spec)
        dmax = max(pairs.values())
        tol = 0 if self.exact else 1e-9 * dmax
        for (x, y), v in pairs.items():
            if dmax - v > tol:
                continue
            if abs(rd[x] + rd[y] - v) <= tol and abs(rd[x] - rd[y]) <= tol:
                return
        ctx.violation("reroot_at_midpoint|root-not-at-midpoint",
                      "no pair of most distant leaves (distance %r) is equidistant from the root on opposite sides" % dmax, det)

    def judge_edge(self, spec, snap, det, tag):
        ctx = self.ctx
        e = snap["edge"]
        full = frozenset(snap["prof"]["taxa"])
        if e["below"] and e["below"] != full:
            ctx.ev("post:root-on-edge-judged")
            tb = U.taxa_below(spec)
            if not any(tb[id(c)] == e["below"] for c in spec[3]):
                ctx.violation("reroot_at_edge|root-not-on-requested-edge%s" % tag,
                              "no child clade of the new root is the clade below the requested edge", det)
                return
        if e["l1"] is None and e["l2"] is None:
            ctx.note("reroot_at_edge-without-lengths-distances-not-judged")
            return
        ctx.ev("post:edge-placement-judged")
        if e["terminal"]:
            ctx.ev("post:terminal-edge-placement-judged")
        rd = U.root_dists(spec)
        scale = snap["prof"]["scale"] + abs(e["l1"] or 0) + abs(e["l2"] or 0)
        for t, (side, d) in e["side"].items():
            ln = e["l2"] if side == "head" else e["l1"]
            if ln is None:
                continue
            want = d + ln
            if t not in rd or not U.close(rd[t], want, scale, self.exact):
                ctx.violation("reroot_at_edge|root-not-at-requested-distances%s" % tag,
                              "taxon %s on the %s side is at %r from the root, expected %r" % (t, side, rd.get(t), want), det)
                return

    def judge_outgroup(self, tree, spec, nodes, snap, det):
        ctx = self.ctx
        if snap["og_parent_outdegree"] < 2 and snap["og_parent_is_root"]:
            # the parent is a unary root: it becomes the new root and (with suppression) is removed again
            ctx.note("outgroup-below-unary-root-placement-not-judged")
            return
        og = snap["og"]
        kids = tree._seed_node._child_nodes
        first_live = kids[0] if kids else None
        if first_live is og:
            ctx.ev("post:outgroup-judged")
            return
        # the node itself may have been a unifurcation that suppression replaced by its child: compare clades
        if not snap["og_desc"]:
            if any(x is og for s, x in nodes):
                ctx.ev("post:outgroup-judged")
                ctx.violation("to_outgroup_position|outgroup-not-first-child", "outgroup is not the first child of the root", det)
            else:
                ctx.note("outgroup-without-taxa-suppressed-placement-not-judged")
            return
        ctx.ev("post:outgroup-judged")
        first = spec[3][0] if spec[3] else None
        first_clade = sorted(U.taxa_below(first)[id(first)]) if first is not None else None
        if first is None or first_clade != snap["og_desc"]:
            ctx.violation("to_outgroup_position|outgroup-not-first-child", "outgroup is not the first child of the root", det)


# ----------------------------------------------------------------------------------------
DIRECTED = [
    # canonical witnesses of the known mechanisms; "lengths": pattern name or the post-order list (root excluded)
    {"kind": "directed", "name": "midpoint-on-node-balanced", "shape": [[0, 1], [2, 3]], "lengths": "unit", "rooted": True},
    {"kind": "directed", "name": "midpoint-on-node-star", "shape": [0, 1, 2], "lengths": "unit", "rooted": True},
    {"kind": "directed", "name": "midpoint-on-node-uneven", "shape": [[0, 1], 2], "lengths": [1, 1, 2, 3], "rooted": True},
    {"kind": "directed", "name": "midpoint-on-node-balanced-unrooted", "shape": [[0, 1], [2, 3]], "lengths": "unit", "rooted": False},
    {"kind": "directed", "name": "midpoint-on-node-balanced-undefined", "shape": [[0, 1], [2, 3]], "lengths": "unit", "rooted": None},
    {"kind": "directed", "name": "root-edge-length", "shape": [[0, 1], [2, 3]], "lengths": "unit", "root_length": 5, "rooted": True},
    {"kind": "directed", "name": "root-edge-length-unrooted", "shape": [[0, 1], [2, 3]], "lengths": "unit", "root_length": 5, "rooted": False},
    {"kind": "directed", "name": "basal-collapse-kept-edge-unset", "shape": [[0, 1], [2, 3]], "lengths": [1, 1, None, 1, 1, 3], "rooted": False},
    {"kind": "directed", "name": "basal-collapse-collapsed-edge-unset", "shape": [[0, 1], [2, 3]], "lengths": [1, 1, 3, 1, 1, None], "rooted": None},
]


def cases(tier, seed):
    for d in DIRECTED:
        yield dict(d, seed=seed)
    nmax = 4 if tier == "quick" else 5
    for n in range(1, nmax + 1):
        shapes = gen.all_shapes(n)
        for idx in range(len(shapes)):
            for ri, rooted in enumerate(ROOTINGS):
                for pat in PATTERNS:
                    if n == 5 and (idx + PATTERNS.index(pat) + ri + seed) % 6 != 0:
                        continue
                    yield {"kind": "shape", "n": n, "idx": idx, "rooted": rooted, "pat": pat, "seed": seed}
    if tier == "quick":
        shapes = gen.all_shapes(5)
        for idx in range(len(shapes)):
            if (idx + seed) % 6 == 0:
                yield {"kind": "shape", "n": 5, "idx": idx, "rooted": ROOTINGS[idx % 3], "pat": PATTERNS[idx % len(PATTERNS)], "seed": seed}
    nrand = 3000 if tier == "quick" else 6000
    for i in range(nrand):
        yield {"kind": "random", "i": i, "seed": seed}


def tuplify(x):
    return tuple(tuplify(y) for y in x) if isinstance(x, list) else x


def apply_pattern(spec, rng, pat):
    """decorate spec with lengths; returns True when every length is integral or dyadic (exact arithmetic)."""
    v = None
    if pat == "ultrametric":
        exact = rng.random() < 0.5
        gen.ultrametric_lengths(spec, rng, dyadic=exact)
    elif pat == "equal":
        v = rng.choice([0.5, 2, 0.1, 3.7])
        exact = v in (0.5, 2)
        for n in ref.preorder(spec):
            n[2] = None if n is spec else v
    else:
        gen.decorate_lengths(spec, rng, pat)
        exact = pat != "float"
    # the root's own edge: no length / zero / positive (in the kind of the pattern)
    mode = rng.choice(("none", "none", "zero", "pos", "pos"))
    if mode == "zero":
        spec[2] = 0
    elif mode == "pos":
        if pat == "unit":
            spec[2] = 1
        elif pat in ("ints", "zeros"):
            spec[2] = rng.randint(1, 5)
        elif pat == "equal":
            spec[2] = v
        elif pat == "float" or (pat == "ultrametric" and not exact):
            spec[2] = rng.uniform(0.001, 3.0)
        else:
            spec[2] = rng.randint(1, 64) / 8.0
    return exact


def label_class(spec, rng, klass):
    """-> (spec', label_of, extra_taxa) for one of LABEL_CLASSES (taxon identity never depends on the label)."""
    keys = sorted(ref.leaf_taxa(spec))
    label_of, extra = None, 0
    if klass == "label-None" and keys:
        label_of = {rng.choice(keys): None}
    elif klass == "label-empty" and keys:
        label_of = {rng.choice(keys): ""}
    elif klass == "label-duplicate" and len(keys) >= 2:
        a, b = rng.sample(keys, 2)
        label_of = {a: b}
    elif klass == "label-non-ascii" and keys:
        label_of = dict((k, gen.random_label(rng)) for k in keys if rng.random() < 0.6)
    elif klass == "taxonless-leaf" and len(keys) >= 3:
        spec = ref.copy(spec)
        lf = rng.choice([n for n in ref.leaves(spec)])
        lf[0] = None
    elif klass == "unused-taxa":
        extra = rng.randint(1, 3)
    return spec, label_of, extra


class Driver(object):
    """applies the operations to fresh trees of one spec; every call goes through the hooks, which judge it."""

    def __init__(self, ctx, mon, spec, rooted, rng, exhaustive, label_of=None, extra_taxa=0):
        self.ctx, self.mon, self.spec, self.rooted, self.rng, self.exhaustive = ctx, mon, spec, rooted, rng, exhaustive
        self.label_of, self.extra_taxa = label_of, extra_taxa
        self.nleaves = len(ref.leaf_taxa(spec))
        self.canon = ref.canon(spec)

    def fresh(self):
        return U.build(self.spec, self.rooted, self.label_of, self.extra_taxa)

    def pick(self, seq, k):
        seq = list(seq)
        if self.exhaustive or len(seq) <= k:
            return seq
        return self.rng.sample(seq, k)

    def sig(self, op, tgt, flags):
        if self.nleaves >= 3 and tgt != 0:
            self.ctx.nontrivial((self.canon, self.rooted, op, tgt, flags))

    def call(self, fn, *a, **k):
        """the hooks report an exception of the operation; an exception they have NOT seen comes from the
        harness or from library code outside the hooked call and must not be swallowed."""
        self.mon.last_exc = None
        try:
            fn(*a, **k)
        except Exception as e:
            if self.mon.last_exc is not e:
                raise
            self.ctx.ev("driver:exception-reported-by-hook")

    @staticmethod
    def at(tree, i):
        return list(tree.preorder_node_iter())[i]

    def split_lengths(self, ln, mode):
        rng = self.rng
        if mode == "split":
            if isinstance(ln, int):
                l1 = rng.randint(0, ln)
            else:
                l1 = ln * rng.choice([0.0, 0.25, 0.5, 0.75, 1.0])
            return l1, ln - l1
        if mode == "free":
            return rng.choice([0, 1, 2.5]), rng.choice([0, 3, 0.125])
        if mode == "one":
            return rng.choice([(None, rng.choice([0, 2, 0.75])), (rng.choice([0, 1, 1.5]), None)])
        return None, None

    def run(self):
        rng, bools = self.rng, (False, True)
        t0 = self.fresh()
        nodes = list(t0.preorder_node_iter())
        internal = [i for i, nd in enumerate(nodes) if nd._child_nodes]
        leaves = [i for i, nd in enumerate(nodes) if not nd._child_nodes and nd._parent_node is not None]
        nonroot = [i for i, nd in enumerate(nodes) if nd._parent_node is not None]
        internal_edges = [i for i in nonroot if nodes[i]._child_nodes]
        terminal_edges = [i for i in nonroot if not nodes[i]._child_nodes]
        prof = U.profile(self.spec)
        midpoint_ok = (len(prof["leaves"]) >= 2 and not prof["missing"] and not prof["bare_tips"])
        flag3 = [(u, s, c) for u in bools for s in bools for c in bools]
        flag2 = [(u, s) for u in bools for s in bools]
        mon = self.mon
        # ---- re-seeding / re-rooting at internal nodes (the root included) and at leaves
        mon.phase = "single"
        for what, tgts, k, kf in (("internal", internal, 4, 3), ("leaf", leaves, 2, 2)):
            for i in self.pick(tgts, k):
                for (u, s, c) in self.pick(flag3, kf):
                    for op in ("reseed_at", "reroot_at_node"):
                        t = self.fresh()
                        self.call(getattr(t, op), self.at(t, i), update_bipartitions=u, suppress_unifurcations=s,
                                  collapse_unrooted_basal_bifurcation=c)
                        self.sig(op, i, (u, s, c))
        # ---- re-rooting at internal and terminal edges
        modes = ("split", "free", "none", "one")
        for tgts, k in ((internal_edges, 4), (terminal_edges, 2)):
            for i in self.pick(tgts, k):
                for (u, s) in self.pick(flag2, 2):
                    for mode in (modes if self.exhaustive else ("split",) + tuple(rng.sample(modes[1:], 1))):
                        t = self.fresh()
                        nd = self.at(t, i)
                        ln = nd.edge.length
                        if mode == "split" and ln is None:
                            mode = "none"
                        l1, l2 = self.split_lengths(ln, mode)
                        self.call(t.reroot_at_edge, nd.edge, length1=l1, length2=l2, update_bipartitions=u, suppress_unifurcations=s)
                        self.sig("reroot_at_edge", i, (u, s, mode))
        if midpoint_ok:
            for (u, s, c) in self.pick(flag3, 4):
                t = self.fresh()
                self.call(t.reroot_at_midpoint, update_bipartitions=u, suppress_unifurcations=s, collapse_unrooted_basal_bifurcation=c)
                self.sig("reroot_at_midpoint", -1, (u, s, c))
        for i in self.pick(nonroot, 5):
            for (u, s) in self.pick(flag2, 2):
                t = self.fresh()
                self.call(t.to_outgroup_position, self.at(t, i), update_bipartitions=u, suppress_unifurcations=s)
                self.sig("to_outgroup_position", i, (u, s))
        for k in range(3 if self.exhaustive else 2):
            r = random.Random(rng.random())
            t = self.fresh()
            self.call(t.randomly_reorient, rng=r, update_bipartitions=bool(k % 2))
            self.sig("randomly_reorient", k + 1, ())
            t = self.fresh()
            self.call(t.randomly_rotate, rng=r)
            self.sig("randomly_rotate", k + 1, ())
        for asc in bools:
            t = self.fresh()
            self.call(t.ladderize, ascending=asc)
            self.sig("ladderize", 1, (asc,))
            t = self.fresh()
            self.call(t.reorder, ascending=asc)
            self.sig("reorder", 1, (asc,))
        t = self.fresh()
        self.call(t.reorder, key=lambda nd: (len(nd._child_nodes), nd.edge.length or 0))
        self.sig("reorder", 1, ("key",))
        # ---- every operation once with nothing but its mandatory arguments; the random ones on the global RNG
        mon.phase = "defaults"
        self.defaults(internal, leaves, nonroot, midpoint_ok)
        # ---- the legacy aliases
        mon.phase = "legacy"
        self.legacy()
        # ---- one tree, several operations in a row (possibly encoded before)
        mon.phase = "history"
        self.history()
        mon.phase = None

    def defaults(self, internal, leaves, nonroot, midpoint_ok):
        import dendropy.utility
        rng = self.rng
        i = rng.choice(internal) if internal else None
        if i is not None:
            t = self.fresh()
            self.call(t.reseed_at, self.at(t, i))
            t = self.fresh()
            self.call(t.reroot_at_node, self.at(t, i))
            self.sig("reseed_at/reroot_at_node:defaults", i, ())
        if nonroot:
            j = rng.choice(nonroot)
            t = self.fresh()
            self.call(t.reroot_at_edge, self.at(t, j).edge)
            t = self.fresh()
            nd = self.at(t, j)
            ln = nd.edge.length
            l1, l2 = self.split_lengths(ln, "split" if ln is not None else "free")
            self.call(t.reroot_at_edge, nd.edge, l1, l2)
            t = self.fresh()
            self.call(t.to_outgroup_position, self.at(t, j))
            self.sig("reroot_at_edge/to_outgroup_position:defaults", j, ())
        if midpoint_ok:
            t = self.fresh()
            self.call(t.reroot_at_midpoint)
        dendropy.utility.GLOBAL_RNG.seed(rng.random())
        t = self.fresh()
        self.call(t.randomly_reorient)
        t = self.fresh()
        self.call(t.randomly_rotate)
        t = self.fresh()
        self.call(t.ladderize)
        t = self.fresh()
        self.call(t.reorder)
        self.sig("defaults", 1, ())

    def legacy(self):
        from dendropy.legacy import treemanip
        rng = self.rng
        with warnings.catch_warnings():
            warnings.simplefilter("ignore")
            r = random.Random(rng.random())
            t = self.fresh()
            self.call(treemanip.randomly_reorient_tree, t, rng=r, splits=rng.random() < 0.5)
            t = self.fresh()
            self.call(treemanip.randomly_rotate, t, rng=r)
            if self.exhaustive:
                import dendropy.utility
                dendropy.utility.GLOBAL_RNG.seed(rng.random())
                t = self.fresh()
                self.call(treemanip.randomly_reorient_tree, t)
        self.sig("legacy", 1, ())

    def history(self):
        rng = self.rng
        t = self.fresh()
        pre_encoded = rng.random() < 0.5
        if pre_encoded:
            t.encode_bipartitions(suppress_unifurcations=rng.random() < 0.5,
                                  collapse_unrooted_basal_bifurcation=rng.random() < 0.5)
        steps = []
        for step in range(3):
            nodes = list(t.preorder_node_iter())
            internal = [nd for nd in nodes if nd._child_nodes]
            nonroot = [nd for nd in nodes if nd._parent_node is not None]
            ops = ["randomly_reorient", "randomly_rotate", "ladderize", "reorder"]
            if internal:
                ops += ["reseed_at", "reroot_at_node"] * 2
            if nonroot:
                ops += ["reroot_at_edge", "to_outgroup_position"] * 2
            prof = U.profile(U.extract(t))
            if len(prof["leaves"]) >= 2 and not prof["missing"] and not prof["bare_tips"] and prof["taxa"] == prof["leaves"]:
                ops += ["reroot_at_midpoint"]
            op = rng.choice(ops)
            u, s, c = (rng.random() < 0.5 for _ in range(3))
            steps.append(op)
            if op in ("reseed_at", "reroot_at_node"):
                self.call(getattr(t, op), rng.choice(internal), update_bipartitions=u, suppress_unifurcations=s,
                          collapse_unrooted_basal_bifurcation=c)
            elif op == "reroot_at_edge":
                nd = rng.choice(nonroot)
                ln = nd.edge.length
                l1, l2 = self.split_lengths(ln, "split" if ln is not None else "none")
                self.call(t.reroot_at_edge, nd.edge, length1=l1, length2=l2, update_bipartitions=u, suppress_unifurcations=s)
            elif op == "to_outgroup_position":
                self.call(t.to_outgroup_position, rng.choice(nonroot), update_bipartitions=u, suppress_unifurcations=s)
            elif op == "reroot_at_midpoint":
                self.call(t.reroot_at_midpoint, update_bipartitions=u, suppress_unifurcations=s, collapse_unrooted_basal_bifurcation=c)
            elif op == "randomly_reorient":
                self.call(t.randomly_reorient, rng=random.Random(rng.random()), update_bipartitions=u)
            elif op == "randomly_rotate":
                self.call(t.randomly_rotate, rng=random.Random(rng.random()))
            else:
                self.call(getattr(t, op), ascending=u)
            if self.mon.last_exc is not None:
                break
        self.sig("history", 1, (pre_encoded,) + tuple(steps))


def midpoint_on_node(spec):
    """does the midpoint of some longest path coincide with a node?  (evidence only)"""
    if not ref.has_all_lengths(spec):
        return False
    paths = ref.leaf_paths(spec)
    if not paths:
        return False
    dmax = max(v[0] for v in paths.values())
    lv = dict((n[0], n) for n in ref.leaves(spec) if n[0] is not None)
    for (x, y), v in paths.items():
        if v[0] != dmax:
            continue
        d = U.undirected_dists(spec, lv[x])
        for n in ref.preorder(spec):
            if d[id(n)] * 2 == dmax and U.undirected_dists(spec, n)[id(lv[y])] * 2 == dmax:
                return True
    return False


def run_case(case, ctx):
    rng = random.Random("%s/%s" % (case["seed"], sorted((k, str(v)) for k, v in case.items())))
    with Hooks(ctx) as hooks:
        mon = Monitor(ctx)
        mon.install(hooks)
        kind = case["kind"]
        label_of, extra = None, 0
        if kind == "directed":
            spec = gen.shape_to_spec(tuplify(case["shape"]))
            if isinstance(case["lengths"], list):
                it = iter(case["lengths"])
                for n in ref.postorder(spec):
                    if n is not spec:
                        n[2] = next(it)
            else:
                gen.decorate_lengths(spec, rng, case["lengths"])
            spec[2] = case.get("root_length")
            mon.exact = True
            rooted, exhaustive = case["rooted"], True
        elif kind == "shape":
            spec = gen.shape_to_spec(gen.all_shapes(case["n"])[case["idx"]])
            if rng.random() < 0.25:
                spec = gen.insert_unary(spec, rng, 0.3)
            mon.exact = apply_pattern(spec, rng, case["pat"])
            rooted, exhaustive = case["rooted"], case["n"] <= 4
        else:
            n = rng.choice([3, 5, 8, 12, 15]) if ctx.tier == "quick" else rng.choice([3, 6, 10, 20, 40, 60])
            spec = gen.random_spec(rng, n, p_poly=rng.choice([0, 0.3, 0.6]), p_unary=rng.choice([0, 0, 0.15]),
                                   shape=rng.choice([None, None, None, "caterpillar", "star", "balanced"]))
            mon.exact = apply_pattern(spec, rng, rng.choice(PATTERNS))
            rooted, exhaustive = rng.choice(ROOTINGS), False
        if kind != "directed" and rng.random() < 0.3:
            klass = rng.choice(LABEL_CLASSES)
            spec, label_of, extra = label_class(spec, rng, klass)
            ctx.ev("label-class:%s" % klass)
        if (kind != "random" or len(ref.leaf_taxa(spec)) <= 15) and midpoint_on_node(spec):
            ctx.ev("midpoint-on-node-cases")
        Driver(ctx, mon, spec, rooted, rng, exhaustive, label_of, extra).run()
        if kind == "directed":
            ctx.sample({"kind": "directed", "name": case["name"], "tree": ref.to_newick(spec), "rooted": rooted})
        elif kind == "shape":
            if case["idx"] == 1 and case["pat"] == "ints":
                ctx.sample({"kind": "shape", "tree": ref.to_newick(spec), "rooted": rooted,
                            "ops": "all 9 ops x all targets x flags + defaults + legacy aliases + history"})
        elif case["i"] < 2:
            ctx.sample({"kind": "random", "tree": ref.to_newick(spec), "rooted": rooted})
