"""C07  Re-rooting and re-orienting never change the underlying unrooted tree.

Monitors: hooks on the nine operations (outermost call only).  pre-snapshot = spec of the
tree (raw child lists), leaf multiset, unrooted split set, total length, all leaf-to-leaf
path lengths, rooting flag, and for reroot_at_edge the distances from both ends of the
edge to every leaf.  post (on return) recomputes from the live tree and judges:

  leafset           leaf-taxon multiset unchanged
  splits            unrooted split set unchanged
  total-length      sum of non-root edge lengths unchanged        } only when every non-root edge
  path-lengths      every leaf-to-leaf path length unchanged      } had a length before the call
  flag              soft ops keep the rooting flag; hard ops (reroot_at_node/edge/midpoint) set rooted
  midpoint          some pair of most distant leaves lies on opposite sides of the root at equal distance
  edge-placement    reroot_at_edge: root at length2 from old head side leaves, length1 from the others
  outgroup-first    to_outgroup_position: outgroup node is root's first child (parent had >= 2 children)

Soundness limits: reseed_at / reroot_at_node only get internal targets (docstring: "takes an
internal node"); reroot_at_edge only internal edges, and the invariance of lengths is judged only
if length1 + length2 equals the edge's length; midpoint only on trees with >= 2 leaves and all
lengths present; the flag clause is judged for the operations whose documentation states it
(reseed_at soft; reroot_* hard) and for rotate/ladderize/reorder (which are not rootings at all);
for to_outgroup_position / randomly_reorient it is recorded only.  An exception is a violation
(the operations document no error for admissible arguments)."""
import random

from .. import ref, gen, bridge, core
from ..mon.hooks import Hooks
from ..mon import arbor

PROP = "C07"
LEVEL_TEXT = 'The nine operations are hooked; a pre-snapshot (leaf set, unrooted splits, total length, all leaf-to-leaf paths, flag, distances from both ends of the target edge) is compared with the post-call tree. All shapes with <= 4/5 leaves x every target x flag settings x nine length patterns (unit/integer/ultrametric patterns put the midpoint on a node) as workload, random larger trees beyond.'
LEVEL_NOTE = 'Trusted: vf/ref.py path/splits oracles; exact arithmetic on integer/dyadic lengths, 1e-9 relative on floats.'
LEVEL = "exploration"
TECHNIQUE = "runtime monitoring: pre/post hooks on the 9 re-rooting operations + reference-model oracle (splits, path lengths) on generated trees"
RULE = ("cases = tree shape (all shapes n<=5, random larger) x rooting flag x length pattern x operation x every target "
        "(node/edge/outgroup) x flag settings; non-trivial = tree has >= 3 leaves and the operation is not applied at the "
        "current root; distinct = (canonical tree with lengths, rooting, op, target, flags)")
REACH = ["_tree:Tree.reseed_at", "_tree:Tree.reroot_at_node", "_tree:Tree.reroot_at_edge", "_tree:Tree.reroot_at_midpoint",
         "_tree:Tree.to_outgroup_position", "_tree:Tree.randomly_reorient", "_tree:Tree.randomly_rotate",
         "_tree:Tree.ladderize", "_tree:Tree.reorder", "_edge:Edge.invert", "_tree:Tree.collapse_basal_bifurcation",
         "_tree:Tree.suppress_unifurcations"]
MIN_EVENTS = {"post:invariance-judged": (2000, 100000), "post:midpoint-judged": (200, 5000),
              "post:edge-placement-judged": (200, 5000), "post:outgroup-judged": (200, 5000),
              "midpoint-on-node-cases": (20, 500)}
ASSUMPTIONS = ["reference splits / path lengths come from a DendroPy-free spec extracted from raw child lists before and after each call",
               "float comparisons: exact for integer/dyadic lengths, 1e-9 relative otherwise"]

OPS = ("reseed_at", "reroot_at_node", "reroot_at_edge", "reroot_at_midpoint", "to_outgroup_position",
       "randomly_reorient", "randomly_rotate", "ladderize", "reorder")
HARD = ("reroot_at_node", "reroot_at_edge", "reroot_at_midpoint")
FLAG_JUDGED_SOFT = ("reseed_at", "randomly_rotate", "ladderize", "reorder")
PATTERNS = ("unit", "ints", "zeros", "dyadic", "float", "ultrametric", "equal", "none", "mixed_missing")


def close(a, b, scale=1.0):
    if a == b:
        return True
    return abs(a - b) <= 1e-9 * max(1.0, abs(a), abs(b), abs(scale))


def undirected_dists(spec, start):
    """distance from spec node ``start`` to every node (ids), edges as undirected."""
    adj = {}
    for n in ref.preorder(spec):
        for c in n[3]:
            w = c[2] or 0
            adj.setdefault(id(n), []).append((c, w))
            adj.setdefault(id(c), []).append((n, w))
    dist = {id(start): 0}
    stack = [start]
    while stack:
        n = stack.pop()
        for m, w in adj.get(id(n), []):
            if id(m) not in dist:
                dist[id(m)] = dist[id(n)] + w
                stack.append(m)
    return dist


class Monitor(object):
    """pre/post hooks for the nine operations; reusable by other workloads."""

    def __init__(self, ctx):
        self.ctx = ctx

    def install(self, hooks):
        import dendropy
        for op in OPS:
            hooks.install(dendropy.Tree, op, pre=self._mk_pre(op), post=self._mk_post(op))

    # ------------------------------------------------------------------
    def _mk_pre(self, op):
        def pre(tree, args, kw):
            try:
                spec, nodes = bridge.extract(tree, with_nodes=True)
            except bridge.ExtractError:
                return None
            snap = {"op": op, "spec": spec, "flag": tree._is_rooted,
                    "leaves": sorted(ref.leaf_taxa(spec)),
                    "splits": ref.unrooted_splits(spec),
                    "all_lengths": ref.has_all_lengths(spec),
                    "newick": ref.to_newick(spec), "kw": dict((k, v) for k, v in kw.items() if k != "rng")}
            if snap["all_lengths"]:
                snap["total"] = ref.total_length(spec, include_root_edge=True)
                snap["paths"] = dict((k, v[0]) for k, v in ref.leaf_paths(spec).items())
            live2spec = dict((id(nd), s) for s, nd in nodes)
            if op == "reroot_at_edge":
                edge = args[0] if args else kw.get("edge")
                l1 = args[1] if len(args) > 1 else kw.get("length1")
                l2 = args[2] if len(args) > 2 else kw.get("length2")
                head = live2spec.get(id(edge._head_node))
                tail = live2spec.get(id(edge.tail_node)) if edge.tail_node is not None else None
                if head is not None and tail is not None:
                    below = set(n[0] for n in ref.leaves(head) if n[0] is not None)
                    dh = undirected_dists(spec, head)
                    dt = undirected_dists(spec, tail)
                    leafd = {}
                    for lf in ref.leaves(spec):
                        if lf[0] is None:
                            continue
                        leafd[lf[0]] = ("head", dh[id(lf)]) if lf[0] in below else ("tail", dt[id(lf)])
                    snap["edge"] = {"l1": l1, "l2": l2, "len": head[2], "leafd": leafd,
                                    "desc": "edge above clade %s" % sorted(below)}
            if op == "to_outgroup_position":
                og = args[0] if args else kw.get("outgroup_node")
                snap["og"] = og
                p = og._parent_node
                snap["og_parent_outdegree"] = len(p._child_nodes) if p is not None else 0
                s = live2spec.get(id(og))
                snap["og_desc"] = sorted(n[0] for n in ref.leaves(s) if n[0] is not None) if s else None
            if op in ("reseed_at", "reroot_at_node"):
                nd = args[0] if args else kw.get("new_seed_node", kw.get("new_root_node"))
                s = live2spec.get(id(nd))
                snap["target_desc"] = sorted(n[0] for n in ref.leaves(s) if n[0] is not None) if s else None
                snap["target_is_leaf"] = not nd._child_nodes
            return snap
        return pre

    def _mk_post(self, op):
        def post(snap, tree, args, kw, result, exc):
            ctx = self.ctx
            if snap is None:
                return
            det = {"before": snap["newick"], "rooted_flag": snap["flag"], "kwargs": snap["kw"]}
            for k in ("target_desc", "og_desc"):
                if snap.get(k) is not None:
                    det["target"] = snap[k]
            if "edge" in snap:
                det["target"] = snap["edge"]["desc"]
                det["length1"], det["length2"] = snap["edge"]["l1"], snap["edge"]["l2"]
            if exc is not None:
                if isinstance(exc, core.CaseTimeout):
                    return
                ctx.unexpected(op, exc, det)
                return
            try:
                spec = bridge.extract(tree)
            except bridge.ExtractError as e:
                ctx.violation("%s|malformed-tree" % op, str(e), det)
                return
            probs = arbor.check(tree, iterators=False)
            if probs:
                ctx.violation("%s|malformed-tree" % op, "; ".join(probs), det)
                return
            det["after"] = ref.to_newick(spec)
            judged_lengths = snap["all_lengths"]
            if op == "reroot_at_edge" and "edge" in snap:
                e = snap["edge"]
                if e["l1"] is None or e["l2"] is None or e["len"] is None or not close(e["l1"] + e["l2"], e["len"]):
                    judged_lengths = False
            ctx.ev("post:invariance-judged")
            if sorted(ref.leaf_taxa(spec)) != snap["leaves"]:
                ctx.violation("%s|leafset-changed" % op, "leaf set changed", det)
                return
            if ref.unrooted_splits(spec) != snap["splits"]:
                ctx.violation("%s|splits-changed" % op, "set of unrooted splits changed", det)
                return
            if judged_lengths:
                tot = ref.total_length(spec, include_root_edge=True)
                if not close(tot, snap["total"]):
                    ctx.violation("%s|total-length-changed" % op, "total length %r -> %r" % (snap["total"], tot), det)
                    return
                paths = ref.leaf_paths(spec)
                for k, v in snap["paths"].items():
                    if not close(paths[k][0], v, snap["total"]):
                        ctx.violation("%s|path-length-changed" % op,
                                      "path %s-%s %r -> %r" % (k[0], k[1], v, paths[k][0]), det)
                        return
            # ---- rooting flag
            if op in HARD:
                if tree._is_rooted is not True:
                    ctx.violation("%s|flag-not-set-rooted" % op, "hard re-rooting left is_rooted=%r" % tree._is_rooted, det)
            elif op in FLAG_JUDGED_SOFT:
                if tree._is_rooted is not snap["flag"]:
                    ctx.violation("%s|flag-changed" % op, "soft operation changed is_rooted %r -> %r" % (snap["flag"], tree._is_rooted), det)
            elif tree._is_rooted is not snap["flag"]:
                ctx.note("flag-changed-by-%s" % op)
            # ---- operation specific clauses
            if op == "reroot_at_midpoint" and snap["all_lengths"]:
                self.judge_midpoint(spec, snap, det)
            if op == "reroot_at_edge" and "edge" in snap:
                self.judge_edge(spec, snap, det)
            if op == "to_outgroup_position":
                if snap["og_parent_outdegree"] >= 2:
                    ctx.ev("post:outgroup-judged")
                    # the outgroup *clade* must hang first under the root (the node itself may have been
                    # a unifurcation that suppression replaced by its child)
                    first = spec[3][0] if spec[3] else None
                    first_clade = sorted(n[0] for n in ref.leaves(first) if n[0] is not None) if first else None
                    if first is None or first_clade != snap["og_desc"]:
                        ctx.violation("to_outgroup_position|outgroup-not-first-child", "outgroup is not the first child of the root", det)
                else:
                    ctx.note("outgroup-with-unary-parent-placement-not-judged")
        return post

    def judge_midpoint(self, spec, snap, det):
        ctx = self.ctx
        ctx.ev("post:midpoint-judged")
        paths = ref.leaf_paths(spec)
        if not paths:
            return
        rd = dict((n[0], d) for n, d, k in ref.root_distances(spec) if not n[3] and n[0] is not None)
        dmax = max(v[0] for v in paths.values())
        tol = 1e-9 * max(1.0, dmax)
        ok = False
        for (x, y), v in paths.items():
            if dmax - v[0] > tol:
                continue
            if abs(rd[x] + rd[y] - v[0]) <= tol and abs(rd[x] - rd[y]) <= tol:
                ok = True
                break
        if not ok:
            ctx.violation("reroot_at_midpoint|root-not-at-midpoint",
                          "no pair of most distant leaves (distance %r) is equidistant from the root on opposite sides" % dmax, det)

    def judge_edge(self, spec, snap, det):
        ctx = self.ctx
        e = snap["edge"]
        if e["l1"] is None or e["l2"] is None or not snap["all_lengths"]:
            ctx.note("reroot_at_edge-without-lengths-placement-not-judged")
            return
        ctx.ev("post:edge-placement-judged")
        rd = dict((n[0], d) for n, d, k in ref.root_distances(spec) if not n[3] and n[0] is not None)
        for lf, (side, d) in e["leafd"].items():
            want = d + (e["l2"] if side == "head" else e["l1"])
            if not close(rd[lf], want, snap["total"]):
                ctx.violation("reroot_at_edge|root-not-at-requested-distances",
                              "leaf %s on the %s side is at %r from the root, expected %r" % (lf, side, rd[lf], want), det)
                return


# ----------------------------------------------------------------------------------------
DIRECTED = [
    # (newick-like spec builder, rooted, op)   -- canonical witnesses of the known mechanisms
    {"kind": "directed", "name": "midpoint-on-node-balanced", "shape": [[0, 1], [2, 3]], "lengths": "unit", "rooted": True},
    {"kind": "directed", "name": "midpoint-on-node-star", "shape": [0, 1, 2], "lengths": "unit", "rooted": True},
    {"kind": "directed", "name": "midpoint-on-node-uneven", "shape": [[0, 1], 2], "lengths": [1, 1, 2, 3], "rooted": True},
    {"kind": "directed", "name": "midpoint-on-node-balanced-unrooted", "shape": [[0, 1], [2, 3]], "lengths": "unit", "rooted": False},
]


def cases(tier, seed):
    for d in DIRECTED:
        yield dict(d, seed=seed)
    nmax = 4 if tier == "quick" else 5
    for n in range(2, nmax + 1):
        shapes = gen.all_shapes(n)
        for idx in range(len(shapes)):
            for rooted in (True, False):
                for pat in PATTERNS:
                    if n == 5 and (idx + PATTERNS.index(pat) + seed) % 4 != 0:
                        continue
                    yield {"kind": "shape", "n": n, "idx": idx, "rooted": rooted, "pat": pat, "seed": seed}
    if tier == "quick":
        shapes = gen.all_shapes(5)
        for idx in range(len(shapes)):
            if (idx + seed) % 6 == 0:
                yield {"kind": "shape", "n": 5, "idx": idx, "rooted": bool(idx % 2), "pat": PATTERNS[idx % len(PATTERNS)], "seed": seed}
    nrand = 4000 if tier == "quick" else 12000
    for i in range(nrand):
        yield {"kind": "random", "i": i, "seed": seed}


def tuplify(x):
    return tuple(tuplify(y) for y in x) if isinstance(x, list) else x


def apply_pattern(spec, rng, pat):
    if pat == "ultrametric":
        gen.ultrametric_lengths(spec, rng, dyadic=rng.random() < 0.5)
    elif pat == "equal":
        v = rng.choice([0.5, 2, 0.1, 3.7])
        for n in ref.preorder(spec):
            n[2] = None if n is spec else v
    else:
        gen.decorate_lengths(spec, rng, pat)
    return spec


def targets(tree):
    nodes = list(tree.preorder_node_iter())
    internal = [(i, nd) for i, nd in enumerate(nodes) if nd._child_nodes]
    nonroot = [(i, nd) for i, nd in enumerate(nodes) if nd._parent_node is not None]
    internal_edges = [(i, nd) for i, nd in nonroot if nd._child_nodes]
    return nodes, internal, nonroot, internal_edges


def fresh(spec, rooted):
    import dendropy
    labels = sorted(ref.leaf_taxa(spec))
    ns = dendropy.TaxonNamespace(labels)
    return bridge.build_tree(spec, ns, rooted)


def run_ops_on(ctx, spec, rooted, rng, exhaustive, label):
    """apply every operation with (all | sampled) targets and flag settings, each on a fresh tree."""
    import dendropy
    t0 = fresh(spec, rooted)
    nodes, internal, nonroot, internal_edges = targets(t0)
    nleaves = len(ref.leaf_taxa(spec))
    all_lengths = ref.has_all_lengths(spec)
    bools = (False, True)

    def pick(seq, k):
        seq = list(seq)
        if exhaustive or len(seq) <= k:
            return seq
        return rng.sample(seq, k)

    def sig(op, tgt, flags):
        if nleaves >= 3 and tgt != 0:
            ctx.nontrivial((ref.canon(spec), rooted, op, tgt, flags))

    def at(tree, i):
        return list(tree.preorder_node_iter())[i]
    flag3 = [(u, s, c) for u in bools for s in bools for c in bools]
    for i, _ in pick(internal, 4):
        for (u, s, c) in pick(flag3, 3):
            t = fresh(spec, rooted)
            try:
                t.reseed_at(at(t, i), update_bipartitions=u, suppress_unifurcations=s, collapse_unrooted_basal_bifurcation=c)
            except Exception:
                pass
            sig("reseed_at", i, (u, s, c))
            t = fresh(spec, rooted)
            try:
                t.reroot_at_node(at(t, i), update_bipartitions=u, suppress_unifurcations=s, collapse_unrooted_basal_bifurcation=c)
            except Exception:
                pass
            sig("reroot_at_node", i, (u, s, c))
    for i, _ in pick(internal_edges, 4):
        for (u, s) in pick([(u, s) for u in bools for s in bools], 2):
            for mode in ("split", "free", "none"):
                t = fresh(spec, rooted)
                nd = at(t, i)
                ln = nd.edge.length
                if mode == "split":
                    if ln is None:
                        continue
                    if isinstance(ln, int):
                        l1 = rng.randint(0, ln)
                    else:
                        l1 = ln * rng.choice([0.0, 0.25, 0.5, 0.75, 1.0])
                    l2 = ln - l1
                elif mode == "free":
                    l1, l2 = rng.choice([0, 1, 2.5]), rng.choice([0, 3, 0.125])
                else:
                    l1 = l2 = None
                try:
                    t.reroot_at_edge(nd.edge, length1=l1, length2=l2, update_bipartitions=u, suppress_unifurcations=s)
                except Exception:
                    pass
                sig("reroot_at_edge", i, (u, s, mode))
    if nleaves >= 2 and all_lengths:
        for (u, s, c) in pick(flag3, 4):
            t = fresh(spec, rooted)
            try:
                t.reroot_at_midpoint(update_bipartitions=u, suppress_unifurcations=s, collapse_unrooted_basal_bifurcation=c)
            except Exception:
                pass
            sig("reroot_at_midpoint", -1, (u, s, c))
    for i, _ in pick(nonroot, 5):
        for (u, s) in pick([(u, s) for u in bools for s in bools], 2):
            t = fresh(spec, rooted)
            try:
                t.to_outgroup_position(at(t, i), update_bipartitions=u, suppress_unifurcations=s)
            except Exception:
                pass
            sig("to_outgroup_position", i, (u, s))
    for k in range(3 if exhaustive else 2):
        t = fresh(spec, rooted)
        r = random.Random(rng.random())
        try:
            t.randomly_reorient(rng=r, update_bipartitions=bool(k % 2))
        except Exception:
            pass
        sig("randomly_reorient", k + 1, ())
        t = fresh(spec, rooted)
        try:
            t.randomly_rotate(rng=r)
        except Exception:
            pass
        sig("randomly_rotate", k + 1, ())
    for asc in bools:
        t = fresh(spec, rooted)
        try:
            t.ladderize(ascending=asc)
        except Exception:
            pass
        sig("ladderize", 1, (asc,))
        t = fresh(spec, rooted)
        try:
            t.reorder(ascending=asc)
        except Exception:
            pass
        sig("reorder", 1, (asc,))


def midpoint_on_node(spec):
    """does the midpoint of some longest path coincide with a node?  (evidence only)"""
    if not ref.has_all_lengths(spec):
        return False
    paths = ref.leaf_paths(spec)
    if not paths:
        return False
    dmax = max(v[0] for v in paths.values())
    lv = dict((n[0], n) for n in ref.leaves(spec) if n[0] is not None)
    for (x, y), v in paths.items():
        if v[0] != dmax:
            continue
        d = undirected_dists(spec, lv[x])
        for n in ref.preorder(spec):
            if d[id(n)] * 2 == dmax and undirected_dists(spec, n)[id(lv[y])] * 2 == dmax:
                return True
    return False


def run_case(case, ctx):
    rng = random.Random("%s/%s" % (case["seed"], sorted((k, str(v)) for k, v in case.items())))
    with Hooks(ctx) as hooks:
        Monitor(ctx).install(hooks)
        kind = case["kind"]
        if kind == "directed":
            spec = gen.shape_to_spec(tuplify(case["shape"]))
            if isinstance(case["lengths"], list):
                it = iter(case["lengths"])
                for n in ref.postorder(spec):
                    if n is not spec:
                        n[2] = next(it)
            else:
                gen.decorate_lengths(spec, rng, case["lengths"])
            if midpoint_on_node(spec):
                ctx.ev("midpoint-on-node-cases")
            run_ops_on(ctx, spec, case["rooted"], rng, True, case["name"])
            ctx.sample({"kind": "directed", "tree": ref.to_newick(spec), "rooted": case["rooted"]})
        elif kind == "shape":
            spec = gen.shape_to_spec(gen.all_shapes(case["n"])[case["idx"]])
            if rng.random() < 0.25:
                spec = gen.insert_unary(spec, rng, 0.3)
            apply_pattern(spec, rng, case["pat"])
            if midpoint_on_node(spec):
                ctx.ev("midpoint-on-node-cases")
            run_ops_on(ctx, spec, case["rooted"], rng, case["n"] <= 4, "shape")
            if case["idx"] == 1 and case["pat"] == "ints":
                ctx.sample({"kind": "shape", "tree": ref.to_newick(spec), "rooted": case["rooted"], "ops": "all 9 ops x all targets x flags"})
        else:
            n = rng.choice([3, 5, 8, 12, 15]) if ctx.tier == "quick" else rng.choice([3, 6, 10, 20, 40, 60])
            spec = gen.random_spec(rng, n, p_poly=rng.choice([0, 0.3, 0.6]), p_unary=rng.choice([0, 0, 0.15]),
                                   shape=rng.choice([None, None, None, "caterpillar", "star", "balanced"]))
            apply_pattern(spec, rng, rng.choice(PATTERNS))
            rooted = rng.random() < 0.5
            if n <= 15 and midpoint_on_node(spec):
                ctx.ev("midpoint-on-node-cases")
            run_ops_on(ctx, spec, rooted, rng, False, "random")
            if case["i"] < 2:
                ctx.sample({"kind": "random", "tree": ref.to_newick(spec), "rooted": rooted})
