"""Helpers of C01 (nothing here judges; specs and live-tree modification steps only).

 * taxon placement decorations of a spec: taxa on internal / seed nodes, tips that carry no taxon;
 * refinement neighbours of a spec (one internal edge collapsed);
 * modification steps applied to a LIVE tree through the raw node API between two encodings
   (object histories): each step reports whether it kept the leaf taxon set and the rooting state."""
from .. import ref

ROOTINGS = (True, False, None)


# ----------------------------------------------------------------------------- spec decorations
def decorate_taxa(spec, rng, p_internal=0.0, seed_taxon=False, n_bare=0, n_strip=0, prefix="I"):
    """copy of spec with taxa "<prefix>k" on internal nodes (each with probability p_internal; the seed node
    when seed_taxon), n_bare additional tips without a taxon hung below random internal nodes, and n_strip
    existing tips that lose their taxon.  Returns (spec, labels given to non-leaf nodes)."""
    s = ref.copy(spec)
    given = []
    for nd in list(ref.preorder(s)):
        if nd[3] and ((nd is s and seed_taxon) or (nd is not s and rng.random() < p_internal)):
            nd[0] = "%s%d" % (prefix, len(given))
            given.append(nd[0])
    internal = [nd for nd in ref.preorder(s) if nd[3]]
    for _ in range(n_bare if internal else 0):
        par = rng.choice(internal)
        par[3].insert(rng.randint(0, len(par[3])), ref.S(None))
    if n_strip:
        tips = [nd for nd in ref.leaves(s) if nd[0] is not None]
        for nd in rng.sample(tips, min(n_strip, len(tips))):
            nd[0] = None
    return s, given


def interleave(labels, extra, rng):
    """labels with the extra ones inserted at random positions (so that taxa carried by internal nodes
    or absent from the tree get low bits as well as high ones)"""
    out = list(labels)
    for x in extra:
        out.insert(rng.randint(0, len(out)), x)
    return out


def collapse_neighbours(spec):
    """all specs obtained by collapsing ONE internal edge whose head has >= 2 children and whose tail is
    not unary (a proper refinement neighbour: exactly one non-trivial clade less)"""
    out = []
    n = ref.n_nodes(spec)
    for k in range(1, n):
        s = ref.copy(spec)
        nodes = list(ref.preorder(s))
        pm = ref.parent_map(s)
        nd = nodes[k]
        par = pm[id(nd)]
        if len(nd[3]) < 2 or par is None or len(par[3]) < 2:
            continue
        i = par[3].index(nd)
        par[3][i:i + 1] = nd[3]
        out.append(s)
    return out


# ----------------------------------------------------------------------------- live-tree steps
def _live_nodes(tree):
    out = []
    stack = [tree._seed_node]
    while stack:
        nd = stack.pop()
        out.append(nd)
        stack.extend(reversed(nd._child_nodes))
    return out


def _below(nd):
    out = set()
    stack = [nd]
    while stack:
        x = stack.pop()
        out.add(id(x))
        stack.extend(x._child_nodes)
    return out


STEPS = ("move-subtree", "swap-taxa", "add-leaf", "remove-leaf", "flip-rooting", "reaccession-taxon",
         "retaxon-leaf", "wrap-unary", "reorder-namespace", "drop-unused-taxon")
# steps after which the leaf taxon SET, the taxon->bit map and the rooting state are what they were
# (the topology may differ)
STEPS_SAME_LEAFSET = ("move-subtree", "swap-taxa", "wrap-unary", "reorder-namespace")


def apply_step(tree, ns, step, rng, spare_labels=()):
    """modify the live tree through the node API.  Returns a short description, or None when the step
    is not applicable to this tree (nothing was changed)."""
    import dendropy
    nodes = _live_nodes(tree)
    seed = tree._seed_node
    if step == "move-subtree":
        cands = [nd for nd in nodes if nd is not seed]
        rng.shuffle(cands)
        for x in cands:
            px = x._parent_node
            if len(px._child_nodes) < 2:
                continue
            below = _below(x)
            targets = [nd for nd in nodes if id(nd) not in below and nd is not px and nd._child_nodes]
            if not targets:
                continue
            tgt = rng.choice(targets)
            px.remove_child(x)
            if rng.random() < 0.5:
                tgt.add_child(x)
            else:
                tgt.insert_child(rng.randint(0, len(tgt._child_nodes)), x)
            return "moved a subtree"
        return None
    if step == "swap-taxa":
        tips = [nd for nd in nodes if not nd._child_nodes and nd.taxon is not None]
        if len(tips) < 2:
            return None
        a, b = rng.sample(tips, 2)
        a.taxon, b.taxon = b.taxon, a.taxon
        return "swapped the taxa of two tips"
    if step == "add-leaf":
        internal = [nd for nd in nodes if nd._child_nodes]
        if not internal:
            return None
        used = set(nd.taxon.label for nd in nodes if nd.taxon is not None)
        free = [t for t in ns if t.label not in used]
        if free and rng.random() < 0.6:
            tx = rng.choice(free)
        else:
            lbl = next((x for x in spare_labels if x not in used and ns.get_taxon(x) is None), None)
            if lbl is None:
                return None
            tx = ns.new_taxon(label=lbl)
        rng.choice(internal).add_child(dendropy.Node(taxon=tx))
        return "added a tip"
    if step == "remove-leaf":
        tips = [nd for nd in nodes if not nd._child_nodes and nd is not seed]
        if len(tips) < 3:
            return None
        x = rng.choice(tips)
        x._parent_node.remove_child(x)
        return "removed a tip"
    if step == "flip-rooting":
        tree.is_rooted = rng.choice([r for r in ROOTINGS if r is not tree._is_rooted])
        return "rooting state changed"
    if step == "reaccession-taxon":
        tips = [nd for nd in nodes if not nd._child_nodes and nd.taxon is not None]
        if not tips:
            return None
        tx = rng.choice(tips).taxon
        ns.remove_taxon(tx)
        ns.add_taxon(tx)
        return "a tip's taxon was removed from the namespace and added again (new bit)"
    if step == "retaxon-leaf":
        tips = [nd for nd in nodes if not nd._child_nodes and nd.taxon is not None]
        used = set(nd.taxon.label for nd in nodes if nd.taxon is not None)
        free = [t for t in ns if t.label not in used]
        if not tips or not free:
            return None
        rng.choice(tips).taxon = rng.choice(free)
        return "a tip got another taxon of the namespace"
    if step == "wrap-unary":
        cands = [nd for nd in nodes if nd is not seed]
        if not cands:
            return None
        x = rng.choice(cands)
        px = x._parent_node
        pos = px._child_nodes.index(x)
        px.remove_child(x)
        mid = dendropy.Node()
        px.insert_child(pos, mid)
        mid.add_child(x)
        return "an outdegree-1 node was put above a node"
    if step == "reorder-namespace":
        if rng.random() < 0.5:
            ns.sort()
        else:
            ns.reverse()
        return "namespace sorted / reversed (bits are by accession: unchanged)"
    if step == "drop-unused-taxon":
        used = set(nd.taxon.label for nd in nodes if nd.taxon is not None)
        free = [t for t in ns if t.label not in used]
        if not free:
            return None
        ns.remove_taxon(rng.choice(free))
        return "a taxon that is not on the tree was removed from the namespace"
    raise ValueError(step)
