"""C12 helper: library-independent oracle for Tree.extract_tree / Node.extract_subtree and its aliases.

The expected result is computed from the RAW fields of the source (``_child_nodes``, ``_label``, ``taxon``, ``_edge.length``,
``_edge._label``) and the documented meaning of the parameters:

  node_filter_fn                      True = the node is included
  is_apply_filter_to_leaf_nodes       False = every leaf is included "unless excluded by an ancestral node being filtered out"
  is_apply_filter_to_internal_nodes   False = internal nodes are not asked; "internal nodes without children will still be filtered out"
  suppress_unifurcations              nodes of outdegree 1 are deleted; "only will be done if some nodes are excluded"
  extraction_source_reference_attr_name   attribute on every cloned node that refers to the corresponding original node

When a node of outdegree 1 is deleted its child survives (label, taxon and edge label of the child) and the lengths of the merged
edges are added; a merged length is judged only when every part is present, an edge label only on unmerged edges."""
import math

from . import _c12_util as U


class Exp(object):
    """expected node: ``src`` = the source node it mirrors, ``parts`` = lengths of the merged source edges, bottom-up."""
    __slots__ = ("src", "children", "parts")

    def __init__(self, src, children, parts):
        self.src = src
        self.children = children
        self.parts = parts


def raw_postorder(start):
    out = []
    stack = [(start, False)]
    while stack:
        nd, done = stack.pop()
        if done:
            out.append(nd)
            continue
        stack.append((nd, True))
        for c in reversed(U.raw_children(nd)):
            stack.append((c, False))
    return out


def raw_length(nd):
    e = nd.__dict__.get("_edge")
    return None if e is None else e.__dict__.get("length")


def expected(start, is_excluded):
    """(expected unsuppressed tree or None when nothing is left, number of source nodes that are not mirrored).
    ``is_excluded(node, is_leaf)`` = the filter says no to this very node."""
    memo = {}
    gone = 0
    for nd in raw_postorder(start):
        kids0 = U.raw_children(nd)
        if is_excluded(nd, not kids0):
            memo[id(nd)] = None
            gone += 1
            # descendants that were built are dropped with it
            stack = [memo.get(id(c)) for c in kids0]
            while stack:
                e = stack.pop()
                if e is not None:
                    gone += 1
                    stack.extend(e.children)
            continue
        if not kids0:
            memo[id(nd)] = Exp(nd, [], [raw_length(nd)])
            continue
        kids = [memo[id(c)] for c in kids0 if memo[id(c)] is not None]
        if not kids:
            memo[id(nd)] = None
            gone += 1
        else:
            memo[id(nd)] = Exp(nd, kids, [raw_length(nd)])
    return memo[id(start)], gone


def suppressed(root):
    """new expected tree in which every node of outdegree 1 is merged into its child (root included)."""
    memo = {}
    order = []
    stack = [root]
    while stack:
        e = stack.pop()
        order.append(e)
        stack.extend(e.children)
    for e in reversed(order):
        kids = [memo[id(c)] for c in e.children]
        if len(kids) == 1:
            k = kids[0]
            memo[id(e)] = Exp(k.src, k.children, k.parts + e.parts)
        else:
            memo[id(e)] = Exp(e.src, kids, e.parts)
    return memo[id(root)]


def preorder(root):
    out = []
    stack = [root]
    while stack:
        e = stack.pop()
        out.append(e)
        stack.extend(reversed(e.children))
    return out


def outdegrees(root):
    return [len(e.children) for e in preorder(root)]


def has_unary(root):
    return any(len(e.children) == 1 for e in preorder(root))


def _atom(v):
    return (type(v).__name__, repr(v))


def _numbers(parts):
    return all(isinstance(p, (int, float)) and not isinstance(p, bool) for p in parts)


def compare(seed, exp_root, attr_name, factory_node_type=None):
    """walk the copy (raw child lists from ``seed``) and the expectation in parallel.
    Returns (list of (component, where, got, want)), notes, nodes judged)."""
    diffs = []
    notes = set()
    judged = 0
    seen = set()

    def diff(comp, i, got, want):
        if not any(d[0] == comp for d in diffs):
            diffs.append((comp, "node %d (pre-order)" % i, repr(got)[:120], repr(want)[:120]))
    stack = [(seed, exp_root, None)]
    i = -1
    while stack:
        c, e, cparent = stack.pop()
        i += 1
        x = getattr(c, "__dict__", None)
        if not isinstance(x, dict) or id(c) in seen:
            diff("structure", i, "not a node / node reached twice", "a node")
            continue
        seen.add(id(c))
        judged += 1
        kids = U.raw_children(c)
        src = e.src
        sx = src.__dict__
        if x.get("_parent_node") is not cparent:
            diff("structure", i, "parent pointer", "the copy's parent node")
        ce = x.get("_edge")
        cex = getattr(ce, "__dict__", None)
        if not isinstance(cex, dict):
            diff("structure", i, "no edge", "an edge")
            cex = {}
        elif cex.get("_head_node") is not c:
            diff("structure", i, "edge.head_node", "the node itself")
        if factory_node_type is not None and type(c) is not factory_node_type:
            diff("factory-types", i, type(c).__name__, factory_node_type.__name__)
        if _atom(x.get("_label")) != _atom(sx.get("_label")):
            diff("node-labels", i, x.get("_label"), sx.get("_label"))
        if x.get("taxon") is not sx.get("taxon"):
            diff("taxa", i, getattr(x.get("taxon"), "label", None), getattr(sx.get("taxon"), "label", None))
        got = cex.get("length")
        parts = e.parts
        if len(parts) == 1:
            if _atom(got) != _atom(parts[0]):
                diff("lengths", i, got, parts[0])
            sl = src.__dict__.get("_edge")
            want_el = None if sl is None else sl.__dict__.get("_label")
            if _atom(cex.get("_label")) != _atom(want_el):
                diff("edge-labels", i, cex.get("_label"), want_el)
        elif any(p is None for p in parts) or not _numbers(parts):
            notes.add("merged-length-with-missing-part-not-judged")
        else:
            want = parts[0]
            for p in parts[1:]:
                want = want + p
            ok = isinstance(got, (int, float)) and not isinstance(got, bool) and (
                got == want if all(isinstance(p, int) for p in parts) else math.isclose(got, want, rel_tol=1e-9, abs_tol=0.0))
            if not ok:
                diff("lengths", i, got, want)
        if attr_name:
            if x.get(attr_name) is not src:
                diff("extraction-source-reference", i, type(x.get(attr_name)).__name__, "the source node")
        if len(kids) != len(e.children):
            diff("structure", i, "outdegree %d" % len(kids), "outdegree %d" % len(e.children))
            continue
        for k, ek in zip(reversed(kids), reversed(e.children)):
            stack.append((k, ek, c))
    return diffs, notes, judged
