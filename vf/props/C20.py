"""C20  Readers terminate on every input and report bad data as a parse error.

Every read of the real readers (Newick, NEXUS, PHYLIP, FASTA; routes Tree.get / TreeList.get / DataSet.get /
<Type>CharacterMatrix.get) runs under the JUMP step budget (LIMIT_A + LIMIT_B * len(text), calibrated at >= 100x the
maximum any route needs on the valid corpus) inside the per-case wall-clock watchdog.  The outcome of one read is judged by

  terminates       a budget overflow is the verdict "does not terminate"; key = format + the function whose loop
                   spins (found by re-running the read under a jump counter: the shallowest frame that still jumps
                   in the steady state; its callers are blocked in a call).  The wall-clock watchdog alone is
                   inconclusive.
  exception        only an exception of the DataParseError family, or the documented ValueError of the get() factories
                   for a source without data ("No trees in data source", "No trees available at requested location ...",
                   "No character data in data source") may escape.  Anything else is a violation keyed by
                   (format, exception class, innermost library function of the dataio layer [, deeper helper]).
                   RecursionError is keyed by the library function that occupies most of the stack.
  well-formed      every returned tree passes the arborescence walker (raw fields + every iterator).
  dimensions       hooks on NexusReader._parse_matrix_statement / _parse_dimensions_statement / PhylipReader._read
                   capture the dimensions *the reader itself parsed*; on return every delivered matrix must have
                   every row as long as that NCHAR, and as many rows as NTAX when NTAX was declared for this matrix
                   (PHYLIP header; NEXUS: an NTAX read inside the DIMENSIONS statement of the same CHARACTERS/DATA block).

Workloads: every prefix of every valid corpus document (hand-written documents of every block structure + seeded
generated ones); single and double edits (char / token delete, insert, replace, duplicate, swap, dropped span or line,
inserted keyword); random token strings per format; a quarter of the edited / random Newick and NEXUS inputs are read
with one documented reader option switched (KWVAR); directed witnesses of every mechanism found (always run first);
nesting-depth / comment-run stress as a separate directed class.

Soundness limits: inputs are small (<= 2 KB); outside the directed depth class generated inputs have <= 120 tokens, so
a RecursionError there is not provoked by depth the generator made up; a DataParseError is accepted whatever its message;
the ValueError by which <Type>CharacterMatrix.get refuses a document whose (possibly mutated) DATATYPE is not its own is
a property of the route picked by the harness and is recorded, not judged; the NEXUS row-count clause is not applied when
NTAX comes from a TAXA block only (a CHARACTERS matrix may cover a subset of the taxa); FASTA declares no dimensions;
a valid corpus document that is rejected makes the run inconclusive (harness sanity), it is not a verdict."""
import random

from .. import core
from ..mon import arbor
from ..mon.budget import budget, StepBudgetExceeded, cpu_budget, CpuBudgetExceeded
from ..mon.hooks import Hooks
from . import _c20_util as U

CPU_LIMIT_S = 20.0      # per read of an input of at most a few KB: > 1000x the CPU cost of any valid document
PROP = "C20"
LEVEL = "exploration"
TECHNIQUE = ("runtime monitoring: JUMP step budget + exception classifier + arborescence walker + hooks capturing the "
             "reader's own parsed dimensions, on every prefix / edit of valid documents and random token strings")
LEVEL_TEXT = "exploration: held on the prefixes, edits and token strings listed under 'rule'"
LEVEL_NOTE = ("'terminates' is judged as bounded progress (backward-jump budget two orders of magnitude above what any valid "
              "document needs); inputs are bounded in size; nesting depth is probed by a directed class only")
RULE = ("reads = input text x route (Tree.get, TreeList.get, DataSet.get, typed CharacterMatrix.get). inputs: every prefix of "
        "valid documents (NEXUS: TAXA/CHARACTERS/DATA/TREES/SETS/ASSUMPTIONS/CODONS/unknown blocks, TITLE/LINK, TRANSLATE, "
        "interleaved, continuous, multi-block; Newick multi-statement; PHYLIP strict/relaxed x sequential/interleaved; FASTA), "
        "single/double edits of them, random token strings, directed witnesses, directed nesting-depth stress. "
        "non-trivial = the text is not one of the complete valid corpus documents; distinct = distinct (format, text)")
REACH = ["tokenizer:Tokenizer.next_token", "tokenizer:Tokenizer.require_next_token",
         "nexusprocessing:NexusTokenizer.next_token_ucase", "nexusprocessing:NexusTokenizer.skip_to_semicolon",
         "nexusreader:NexusReader._parse_nexus_stream", "nexusreader:NexusReader._parse_taxa_block",
         "nexusreader:NexusReader._parse_taxlabels_statement", "nexusreader:NexusReader._parse_dimensions_statement",
         "nexusreader:NexusReader._parse_format_statement", "nexusreader:NexusReader._parse_trees_block",
         "nexusreader:NexusReader._consume_to_end_of_block", "nexusreader:NexusReader._process_discrete_matrix_data",
         "nexusreader:NexusReader._parse_link_statement", "nexusreader:NexusReader._parse_charset_statement",
         "newickreader:NewickReader._parse_tree_statement", "newickreader:NewickReader._parse_tree_node_description",
         "phylipreader:PhylipReader._read", "fastareader:FastaReader._read"]
MIN_EVENTS = {"read": (8000, 300000), "budget-armed": (8000, 300000), "outcome:parse-error": (2000, 80000),
              "outcome:returned": (2000, 60000), "outcome:documented-valueerror": (300, 10000),
              "tree-walked": (800, 20000), "dims-judged:nexus": (500, 10000), "dims-judged:nexus-rows": (200, 5000),
              "dims-judged:phylip": (300, 3000), "hook:NexusReader._read:call": (4000, 150000),
              "hook:PhylipReader._read:call": (800, 20000), "hook:NexusReader._parse_matrix_statement:return": (500, 10000),
              "prefix-read": (3000, 8000), "edit-read": (3000, 100000), "random-read": (1000, 30000),
              "valid-document-returned": (20, 60), "depth-stress-read": (7, 7)}
ASSUMPTIONS = ["allowed exceptions: subclasses of dendropy.utility.error.DataParseError (Tokenizer.*, NexusReader.*, NewickReader.*, "
               "PhylipReader.* error classes) and the three 'no data' ValueErrors of the get() factories",
               "step budget %d + %d * len(text) backward jumps inside library code",
               "walker reads only _seed_node/_child_nodes/_parent_node/_edge/_head_node"]
CASE_TIMEOUT = 120

LIMIT_A = 20000
LIMIT_B = 400
ASSUMPTIONS[1] = ASSUMPTIONS[1] % (LIMIT_A, LIMIT_B)

NO_DATA_MESSAGES = ("No trees in data source", "No trees available at requested location in data source",
                    "No character data in data source")
READER_FILES = ("nexusreader.py", "newickreader.py", "phylipreader.py", "fastareader.py")
DATAIO_FILES = READER_FILES + ("tokenizer.py", "nexusprocessing.py")

ROUTES = {"newick": ("dataset", "tree", "treelist"),
          "nexus": ("dataset", "tree", "treelist", "matrix"),
          "phylip": ("matrix", "dataset"),
          "fasta": ("matrix", "dataset")}

# ---------------------------------------------------------------------------------------------------
# directed witnesses: (format, text, reader kwargs, dtype).  Smallest input of every mechanism found on the
# unchanged tree; kept after a repair so that a regression is reported again.
NX = "#NEXUS\n"
TAXA2 = NX + "BEGIN TAXA; DIMENSIONS NTAX=2; TAXLABELS a b; END;\n"
DIRECTED = [
    # --- end of stream inside NEXUS statements
    ("nexus", "", None, None),
    ("nexus", NX + "BEGIN TAXA;", None, None),
    ("nexus", NX + "BEGIN TAXA; DIMENSIONS NTAX=2; TAXLABELS a", None, None),
    ("nexus", NX + "BEGIN TAXA; TAXLABELS a b; END;", None, None),
    ("nexus", TAXA2 + "BEGIN TREES; TREE t = (a,b); TREE", None, None),
    ("nexus", TAXA2 + "BEGIN TREES; TREE t =", None, None),
    ("nexus", TAXA2 + "BEGIN TREES; LINK TAXA", None, None),
    ("nexus", TAXA2 + "BEGIN TREES; TRANSLATE 1", None, None),
    ("nexus", TAXA2 + "BEGIN TREES; TRANSLATE 1 a, 2", None, None),
    # --- LINK with an unknown key on a complete document
    ("nexus", TAXA2 + "BEGIN TREES; LINK FOO = bar; TREE t = (a,b); END;\n", None, None),
    ("nexus", TAXA2 + "BEGIN CHARACTERS; LINK FOO = bar; DIMENSIONS NCHAR=1; FORMAT DATATYPE=DNA; MATRIX a A b C; END;\n", None, "dna"),
    # --- matrices against declared dimensions
    ("nexus", NX + "BEGIN DATA; DIMENSIONS NTAX=3 NCHAR=2; FORMAT DATATYPE=DNA; MATRIX a AC b GT; END;\n", None, "dna"),
    ("nexus", NX + "BEGIN DATA; DIMENSIONS NTAX=2 NCHAR=4; FORMAT DATATYPE=DNA INTERLEAVE; MATRIX\n a AC\n b GT\n;\nEND;\n", None, "dna"),
    ("nexus", NX + "BEGIN DATA; DIMENSIONS NTAX=2 NCHAR=2; FORMAT DATATYPE=DNA; MATRIX a A; END;\n", None, "dna"),
    ("nexus", TAXA2 + "BEGIN CHARACTERS; DIMENSIONS NTAX=1 NCHAR=1; FORMAT DATATYPE=DNA; MATRIX a A b C; END;\n", None, "dna"),
    ("nexus", NX + "BEGIN DATA; DIMENSIONS NTAX=1 NCHAR=2; FORMAT DATATYPE=CONTINUOUS; MATRIX a 1.0; END;\n", None, "continuous"),
    # --- MATRIX without FORMAT (default data type), duplicate SYMBOLS
    ("nexus", NX + "BEGIN DATA; DIMENSIONS NTAX=1 NCHAR=2; MATRIX a 01; END;\n", None, "standard"),
    ("nexus", NX + "BEGIN DATA; DIMENSIONS NTAX=1 NCHAR=2; MATRIX a (01)1; END;\n", None, "standard"),
    ("nexus", NX + "BEGIN DATA; DIMENSIONS NTAX=1 NCHAR=2; FORMAT DATATYPE=STANDARD SYMBOLS=\"11\"; MATRIX a 11; END;\n", None, "standard"),
    ("nexus", NX + "BEGIN DATA; DIMENSIONS NTAX=1 NCHAR=2; FORMAT DATATYPE=STANDARD SYMBOLS=\"\"; MATRIX a 11; END;\n", None, "standard"),
    ("nexus", NX + "BEGIN DATA; DIMENSIONS NTAX=1 NCHAR=2; FORMAT DATATYPE=STANDARD SYMBOLS=\"1?\"; MATRIX a 11; END;\n", None, "standard"),
    # --- SETS block: CHARSET with a non-numeric position; LINK CHARACTERS to an untitled matrix
    ("nexus", NX + "BEGIN DATA; DIMENSIONS NTAX=1 NCHAR=2; FORMAT DATATYPE=DNA; MATRIX a AC; END;\nBEGIN SETS; CHARSET x = foo; END;\n", None, "dna"),
    ("nexus", NX + "BEGIN DATA; DIMENSIONS NTAX=1 NCHAR=2; FORMAT DATATYPE=DNA; MATRIX a AC; END;\nBEGIN SETS; CHARSET x = 1-2\\0; END;\n", None, "dna"),
    ("nexus", NX + "BEGIN DATA; DIMENSIONS NTAX=1 NCHAR=2; FORMAT DATATYPE=DNA; MATRIX a AC; END;\n"
              "BEGIN SETS; LINK CHARACTERS = d; CHARSET x = 1; END;\n", None, "dna"),
    # --- PHYLIP rows against the header
    ("phylip", "2 4\na ACGT\nb AC\n", {}, "dna"),
    ("phylip", "2 2\na ACG\nb AC\n", {}, "dna"),
    ("phylip", "2 2\na ACG\nb AC\n", {"interleaved": True}, "dna"),
    ("phylip", "2 2\na         AC\nb         G\nTT\n", {"strict": True, "interleaved": True}, "dna"),
    # --- PHYLIP repeated label
    ("phylip", "2 4\na ACGT\na ACGT\nb ACGT\n", {}, "dna"),
    # --- jplace edge numbers (reader option)
    ("newick", "(a{x},b);", {"is_parse_jplace_tokens": True}, None),
    # --- tree weight comment with a zero denominator (reader option)
    ("newick", "[&W 1/0] (a,b);", {"store_tree_weights": True}, None),
    ("nexus", NX + "BEGIN TREES; TREE t = [&W 1/0] (a,b); END;\n", {"store_tree_weights": True}, None),
]

# documented reader options, one of which is applied to a quarter of the edited / random inputs
KWVAR = {"newick": [{"suppress_internal_node_taxa": False}, {"terminating_semicolon_required": False}, {"preserve_underscores": True},
                    {"suppress_leaf_node_taxa": True}, {"rooting": "force-rooted"}, {"store_tree_weights": True},
                    {"extract_comment_metadata": False}, {"suppress_edge_lengths": True}, {"is_parse_jplace_tokens": True}],
         "nexus": [{"suppress_internal_node_taxa": False}, {"terminating_semicolon_required": False}, {"store_ignored_blocks": True},
                   {"preserve_underscores": True}, {"store_tree_weights": True}, {"unconstrained_taxa_accumulation_mode": True},
                   {"extract_comment_metadata": False}, {"rooting": "default-rooted"}]}

DEPTH = [
    ("newick", "open-parens", "(" * 50),
    ("newick", "open-parens", "(" * 2000),
    ("newick", "balanced-nesting", "(" * 2000 + "a" + ")" * 2000 + ";"),
    ("newick", "comment-run", "[c] " * 50 + "(a,b);"),
    ("newick", "comment-run", "[c] " * 1500 + "(a,b);"),
    ("nexus", "comment-run", NX + "[c] " * 1500 + "BEGIN TREES; TREE t = (a,b); END;"),
    ("nexus", "tree-nesting", NX + "BEGIN TREES; TREE t = " + "(" * 2000 + "a" + ")" * 2000 + "; END;"),
]


# ---------------------------------------------------------------------------------------------------
# corpus
def corpus(tier, seed):
    docs = U.fixed_corpus()
    per = {"nexus": 3, "newick": 2, "phylip": 2, "fasta": 1} if tier == "quick" else \
          {"nexus": 30, "newick": 8, "phylip": 8, "fasta": 4}
    for fmt in ("nexus", "newick", "phylip", "fasta"):
        for i in range(per[fmt]):
            docs.append(U.generated_doc(random.Random("corpus/%s/%s/%d" % (seed, fmt, i)), fmt, i))
    return docs


def cases(tier, seed):
    yield {"kind": "directed", "seed": seed}
    yield {"kind": "depth", "seed": seed}
    docs = corpus(tier, seed)
    for k, d in enumerate(docs):
        yield {"kind": "valid", "doc": k, "tier": tier, "seed": seed}
    chunk = 48
    for k, d in enumerate(docs):
        n = len(d["text"])
        for lo in range(0, n, chunk):
            yield {"kind": "prefix", "doc": k, "lo": lo, "hi": min(n, lo + chunk), "tier": tier, "seed": seed}
    nedit = 700 if tier == "quick" else 6000
    for i in range(nedit):
        yield {"kind": "edit", "i": i, "n": 50, "tier": tier, "seed": seed}
    nrand = 300 if tier == "quick" else 2000
    for i in range(nrand):
        yield {"kind": "random", "i": i, "n": 50, "tier": tier, "seed": seed}


# ---------------------------------------------------------------------------------------------------
# monitors
class Monitor(object):
    """hooks that capture the dimensions the readers themselves parsed."""

    def __init__(self, ctx):
        self.ctx = ctx
        self.hooks = Hooks(ctx)
        self.reset()

    def reset(self):
        self.nexus_reader = None
        self.phylip_reader = None
        self.in_char_block = 0
        self.in_dims = 0
        self.block_ntax_declared = False
        self.matrices = {}      # id(matrix) -> record

    def install(self):
        from dendropy.dataio import nexusreader, phylipreader, nexusprocessing
        NR = nexusreader.NexusReader
        h = self.hooks
        h.install(NR, "_read", pre=self._nexus_read_pre, outermost_only=False)
        h.install(NR, "_parse_characters_data_block", pre=self._block_pre, post=self._block_post, outermost_only=False)
        h.install(NR, "_parse_dimensions_statement", pre=self._dims_pre, post=self._dims_post, outermost_only=False)
        h.install(nexusprocessing.NexusTokenizer, "require_next_token_ucase", post=self._ucase_post, outermost_only=False)
        h.install(NR, "_parse_matrix_statement", post=self._matrix_post, outermost_only=False)
        h.install(phylipreader.PhylipReader, "_read", pre=self._phylip_read_pre, outermost_only=False)

    def uninstall(self):
        self.hooks.uninstall()

    def _nexus_read_pre(self, obj, args, kw):
        self.nexus_reader = obj

    def _phylip_read_pre(self, obj, args, kw):
        self.phylip_reader = obj

    def _block_pre(self, obj, args, kw):
        self.in_char_block += 1
        self.block_ntax_declared = False

    def _block_post(self, snap, obj, args, kw, result, exc):
        self.in_char_block -= 1
        self.block_ntax_declared = False

    def _dims_pre(self, obj, args, kw):
        self.in_dims += 1

    def _dims_post(self, snap, obj, args, kw, result, exc):
        self.in_dims -= 1

    def _ucase_post(self, snap, obj, args, kw, result, exc):
        if self.in_dims and self.in_char_block and result == "NTAX":
            self.block_ntax_declared = True

    def _matrix_post(self, snap, obj, args, kw, result, exc):
        if exc is not None or not obj._char_matrices:
            return
        m = obj._char_matrices[-1]
        self.matrices[id(m)] = {"matrix": m, "ntax": obj._file_specified_ntax, "nchar": obj._file_specified_nchar,
                                "ntax_in_block": bool(self.block_ntax_declared and self.in_char_block),
                                "interleave": bool(obj._interleave), "dtype": obj._data_type}


_MON = [None]
_LOCATOR = U.SpinLocator(core.REPO_SRC)


def shard_setup(ctx):
    m = Monitor(ctx)
    m.install()
    _MON[0] = m


def shard_teardown(ctx):
    if _MON[0] is not None:
        _MON[0].uninstall()
        _MON[0] = None


# ---------------------------------------------------------------------------------------------------
def matrix_class(dtype):
    import dendropy
    return {"dna": dendropy.DnaCharacterMatrix, "rna": dendropy.RnaCharacterMatrix,
            "protein": dendropy.ProteinCharacterMatrix, "standard": dendropy.StandardCharacterMatrix,
            "continuous": dendropy.ContinuousCharacterMatrix}.get(dtype or "dna", dendropy.DnaCharacterMatrix)


def do_read(fmt, route, text, kw, dtype):
    import dendropy
    kw = dict(kw or {})
    if route == "tree":
        return dendropy.Tree.get(data=text, schema=fmt, **kw)
    if route == "treelist":
        return dendropy.TreeList.get(data=text, schema=fmt, **kw)
    if route == "dataset":
        if fmt in ("phylip", "fasta"):
            kw["data_type"] = dtype or "dna"
        return dendropy.DataSet.get(data=text, schema=fmt, **kw)
    if route == "matrix":
        return matrix_class(dtype).get(data=text, schema=fmt, **kw)
    raise core.HarnessBug(route)


def frames(exc):
    out = []
    tb = exc.__traceback__
    while tb is not None:
        code = tb.tb_frame.f_code
        if core._is_repo_file(code.co_filename):
            out.append((code.co_filename.rsplit("/", 1)[-1], getattr(code, "co_qualname", code.co_name)))
        tb = tb.tb_next
    return out


def site_of(exc):
    """'<innermost dataio function>[<deeper helper]' for the classifier key."""
    fr = frames(exc)
    if not fr:
        return "<outside-library>"
    io = [q for f, q in fr if f in DATAIO_FILES]
    inner = fr[-1][1]
    if not io:
        return inner
    return io[-1] if io[-1] == inner else "%s<%s" % (io[-1], inner)


def raised_at(exc):
    tb = exc.__traceback__
    at = None
    while tb is not None:
        if core._is_repo_file(tb.tb_frame.f_code.co_filename):
            at = "%s:%d" % (tb.tb_frame.f_code.co_filename.rsplit("/", 1)[-1], tb.tb_lineno)
        tb = tb.tb_next
    return at


def recursion_site(exc):
    cnt = {}
    for f, q in frames(exc):
        cnt[q] = cnt.get(q, 0) + 1
    if not cnt:
        return "<outside-library>"
    return sorted(cnt.items(), key=lambda kv: (-kv[1], kv[0]))[0][0]


def spin_site(exc):
    fr = frames(exc)
    rd = [q for f, q in fr if f in READER_FILES]
    if rd:
        return rd[-1]
    return fr[-1][1] if fr else "<outside-library>"


def trees_of(route, result):
    if route == "tree":
        return [result]
    if route == "treelist":
        return list(result)
    if route == "dataset":
        return [t for tl in result.tree_lists for t in tl]
    return []


def matrices_of(route, result):
    if route == "matrix":
        return [result]
    if route == "dataset":
        return list(result.char_matrices)
    return []


def shape_of(m):
    rows = list(m._taxon_sequence_map.values())
    return len(rows), sorted(set(len(r) for r in rows))


def brief(text, n=700):
    return text if len(text) <= n else text[:n] + "...(%d chars)" % len(text)


def read_and_judge(ctx, fmt, route, text, kw, dtype, klass="generated", expect_valid=False):
    """one monitored read; returns the outcome kind."""
    mon = _MON[0]
    if mon is None:
        raise core.HarnessBug("monitor not installed")
    mon.reset()
    det = {"format": fmt, "route": route, "kwargs": kw or {}, "dtype": dtype, "text": brief(text), "len": len(text)}
    limit = LIMIT_A + LIMIT_B * len(text)
    ctx.ev("read")
    ctx.ev("read:%s:%s" % (fmt, route))
    ctx.ev("class:%s" % klass)
    result = None
    outcome = None
    try:
        # second line for loops the JUMP budget cannot see (inside C code called by the library, e.g. a regular
        # expression that backtracks exponentially): process CPU time in user mode, i.e. virtual time, not wall clock
        with cpu_budget(CPU_LIMIT_S):
            with budget(limit) as b:
                ctx.ev("budget-armed")
                result = do_read(fmt, route, text, kw, dtype)
        outcome = "returned"
    except core.CaseTimeout:
        raise
    except CpuBudgetExceeded as e:
        ctx.ev("outcome:cpu-budget-exceeded")
        ctx.violation("%s|does-not-terminate|cpu-time|%s" % (fmt, e.where.split(":")[-1]),
                      "read of %d chars consumed more than %.0f s of CPU time (valid inputs of this size need milliseconds); "
                      "interrupted in %s" % (len(text), CPU_LIMIT_S, e.where), det)
        return "hang"
    except StepBudgetExceeded as e:
        # the verdict is the budget's; a second, shorter run of the same read only names the spinning function
        mon.reset()
        site = _LOCATOR.locate(lambda: do_read(fmt, route, text, kw, dtype), LIMIT_A // 4 + (LIMIT_B // 4) * len(text))
        if site is None:
            ctx.note("spin-locator-fell-back-to-innermost-reader-frame")
            site = spin_site(e)
        ctx.ev("outcome:budget-exceeded")
        ctx.violation("%s|does-not-terminate|%s" % (fmt, site),
                      "read exceeded the step budget (%d backward jumps for %d chars); spinning in %s (tripped at %s)" % (
                          limit, len(text), site, e.where), det)
        return "hang"
    except RecursionError as e:
        site = recursion_site(e)
        ctx.ev("outcome:internal-error")
        ctx.violation("%s|unexpected-exception|RecursionError|%s" % (fmt, site),
                      "%s read raised RecursionError (stack dominated by %s)" % (fmt, site),
                      dict(det, text=brief(text, 120)))
        return "internal-error"
    except Exception as e:
        from dendropy.utility import error
        if isinstance(e, error.DataParseError):
            ctx.ev("outcome:parse-error")
            ctx.ev("parse-error:%s" % type(e).__name__)
            outcome = "parse-error"
        elif type(e) is ValueError and str(e) in NO_DATA_MESSAGES and core.innermost_repo_frame(e) is not None \
                and core.innermost_repo_frame(e)[0].endswith("_parse_and_create_from_stream"):
            ctx.ev("outcome:documented-valueerror")
            outcome = "no-data"
        elif route == "matrix" and type(e) is ValueError and str(e).startswith("Data source (at offset") \
                and core.innermost_repo_frame(e)[0].endswith("_parse_and_create_from_stream"):
            ctx.note("typed-matrix-route-refused-other-datatype")
            outcome = "route-mismatch"
        else:
            ctx.ev("outcome:internal-error")
            ctx.violation("%s|unexpected-exception|%s|%s" % (fmt, type(e).__name__, site_of(e)),
                          "%s read raised %s" % (fmt, core.exc_brief(e)), dict(det, raised_at=raised_at(e)))
            return "internal-error"
    if expect_valid:
        if outcome == "returned":
            ctx.ev("valid-document-returned")
            if b.steps * 100 > limit:
                ctx.mark_inconclusive("budget headroom below 100x on a valid document (%d steps, limit %d, %s/%s)" % (
                    b.steps, limit, fmt, route))
        else:
            ctx.mark_inconclusive("valid corpus document rejected on route %s/%s" % (fmt, route))
    if outcome != "returned":
        return outcome
    ctx.ev("outcome:returned")
    # ---- returned: trees well formed
    for t in trees_of(route, result):
        probs = arbor.check(t)
        ctx.ev("tree-walked")
        if probs:
            ctx.violation("%s|malformed-tree|%s" % (fmt, probs[0]), "; ".join(probs), det)
    # ---- returned: matrices against the dimensions the reader parsed
    delivered = matrices_of(route, result)
    if fmt == "nexus":
        for m in delivered:
            rec = mon.matrices.get(id(m))
            if rec is None:
                ctx.note("nexus-matrix-without-matrix-statement-record")
                continue
            nrows, lens = shape_of(m)
            ctx.ev("dims-judged:nexus")
            mode = "interleaved" if rec["interleave"] else "sequential"
            d2 = dict(det, declared={"ntax": rec["ntax"], "nchar": rec["nchar"], "ntax_in_block": rec["ntax_in_block"]},
                      found={"rows": nrows, "row_lengths": lens})
            bad = [x for x in lens if x != rec["nchar"]]
            if bad:
                kind = "short" if min(bad) < rec["nchar"] else "long"
                ctx.violation("nexus|matrix-columns-contradict-nchar|%s|%s" % (mode, kind),
                              "returned matrix has rows of length %s, reader parsed NCHAR=%s" % (lens, rec["nchar"]), d2)
            if rec["ntax_in_block"]:
                ctx.ev("dims-judged:nexus-rows")
                if nrows != rec["ntax"]:
                    ctx.violation("nexus|matrix-rows-contradict-ntax|%s" % ("fewer" if nrows < rec["ntax"] else "more"),
                                  "returned matrix has %d rows, the block's DIMENSIONS declared NTAX=%s" % (nrows, rec["ntax"]), d2)
            else:
                ctx.note("nexus-rows-not-judged-ntax-from-taxa-block")
    elif fmt == "phylip":
        rd = mon.phylip_reader
        for m in delivered:
            if rd is None or rd.char_matrix is not m:
                ctx.note("phylip-matrix-without-reader-record")
                continue
            nrows, lens = shape_of(m)
            ctx.ev("dims-judged:phylip")
            mode = "%s-%s" % ("strict" if rd.strict else "relaxed", "interleaved" if rd.interleaved else "sequential")
            d2 = dict(det, declared={"ntax": rd.ntax, "nchar": rd.nchar}, found={"rows": nrows, "row_lengths": lens})
            bad = [x for x in lens if x != rd.nchar]
            if bad:
                kind = "short" if min(bad) < rd.nchar else "long"
                ctx.violation("phylip|matrix-columns-contradict-nchar|%s|%s" % (
                    "interleaved" if rd.interleaved else "sequential", kind),
                    "returned matrix (%s) has rows of length %s, header declared %s" % (mode, lens, rd.nchar), d2)
            if nrows != rd.ntax:
                ctx.violation("phylip|matrix-rows-contradict-ntax|%s" % ("fewer" if nrows < rd.ntax else "more"),
                              "returned matrix has %d rows, header declared %s" % (nrows, rd.ntax), d2)
    return outcome


def read_all_routes(ctx, d, text, routes=None, klass="generated", expect_valid=False):
    fmt = d["fmt"]
    outs = []
    for route in routes or ROUTES[fmt]:
        primary = route == ("dataset" if fmt in ("nexus", "newick") else "matrix")
        outs.append(read_and_judge(ctx, fmt, route, text, d["kw"], d["dtype"], klass, expect_valid and primary))
    return outs


def pick_routes(fmt, i, tier):
    """DataSet.get (reads trees and characters) always; the other routes in rotation (quick) or all (thorough)."""
    rs = ROUTES[fmt]
    if tier != "quick":
        return rs
    first = "dataset" if fmt in ("nexus", "newick") else "matrix"
    rest = [r for r in rs if r != first]
    return (first, rest[i % len(rest)])


# ---------------------------------------------------------------------------------------------------
def run_case(case, ctx):
    rng = random.Random("%s/%s" % (case["seed"], sorted((k, str(v)) for k, v in case.items())))
    kind = case["kind"]
    if kind == "directed":
        for fmt, text, kw, dtype in DIRECTED:
            d = {"fmt": fmt, "kw": kw or {}, "dtype": dtype}
            ctx.nontrivial((fmt, text))
            read_all_routes(ctx, d, text, klass="directed")
        return
    if kind == "depth":
        for fmt, name, text in DEPTH:
            ctx.ev("depth-stress-read")
            ctx.nontrivial((fmt, text))
            read_and_judge(ctx, fmt, "treelist", text, {}, None, klass="depth")
        return
    docs = corpus(case["tier"], case["seed"])
    if kind == "valid":
        d = docs[case["doc"]]
        read_all_routes(ctx, d, d["text"], klass="valid", expect_valid=True)
        if case["doc"] % 5 == 0:
            ctx.sample({"kind": "valid", "doc": d["id"], "text": brief(d["text"], 300)})
        return
    if kind == "prefix":
        d = docs[case["doc"]]
        for i in range(case["lo"], case["hi"]):
            text = d["text"][:i]
            ctx.nontrivial((d["fmt"], text))
            outs = read_all_routes(ctx, d, text, pick_routes(d["fmt"], i, ctx.tier), klass="prefix")
            ctx.ev("prefix-read")
        if case["lo"] == 48 and case["doc"] % 6 == 0:
            ctx.sample({"kind": "prefix", "doc": d["id"], "cut": i, "outcomes": outs})
        return
    if kind in ("edit", "random"):
        for j in range(case["n"]):
            if kind == "edit":
                d = docs[rng.randrange(len(docs))]
                text, what = U.edit(d["text"], d["fmt"], rng)
                if rng.random() < 0.4:
                    text, w2 = U.edit(text, d["fmt"], rng)
                    what += " + " + w2
                if d["fmt"] in KWVAR and rng.random() < 0.25:
                    d = dict(d, kw=rng.choice(KWVAR[d["fmt"]]))
            else:
                fmt = rng.choice(["nexus", "nexus", "nexus", "newick", "newick", "phylip", "fasta"])
                kw = {}
                if fmt == "phylip":
                    kw = {"strict": rng.random() < 0.5, "interleaved": rng.random() < 0.5}
                elif fmt in KWVAR and rng.random() < 0.25:
                    kw = rng.choice(KWVAR[fmt])
                d = {"fmt": fmt, "kw": kw, "dtype": rng.choice(["dna", "dna", "standard"]) if fmt == "nexus" else "dna"}
                text, what = U.random_tokens(fmt, rng), "random tokens"
            if len(text) > 2048:
                text = text[:2048]
            ctx.nontrivial((d["fmt"], text))
            outs = read_all_routes(ctx, d, text, pick_routes(d["fmt"], j, ctx.tier), klass=kind)
            ctx.ev("%s-read" % kind)
            if case["i"] == 0 and j < 2:
                ctx.sample({"kind": kind, "format": d["fmt"], "what": what, "text": brief(text, 200), "outcomes": outs})
        return
    raise core.HarnessBug("unknown case kind %r" % kind)
