"""C20  Readers terminate on every input and report bad data as a parse error.

Every read of the real readers (Newick, NEXUS, PHYLIP, FASTA) runs under the JUMP step budget (LIMIT_A + LIMIT_B * len(text),
calibrated at >= 100x the maximum any route needs on the valid corpus), a CPU-time budget (loops inside C code) and an
address-space limit (work / memory that follows the VALUE of a number in the text instead of the length of the text),
inside the per-case wall-clock watchdog.  Routes: the factories Tree.get / TreeList.get / DataSet.get /
<Type>CharacterMatrix.get, the iterator readers Tree.yield_from_files (schemas newick, nexus, nexus/newick: a second NEXUS
driver, dataio/nexusyielder.py), and the instance readers TreeList.read / DataSet.read into an object that already holds
data.  The outcome of one read is judged by

  terminates       a budget overflow is the verdict "does not terminate"; key = format + the function whose loop
                   spins (found by re-running the read under a jump counter: the shallowest frame that still jumps
                   in the steady state; its callers are blocked in a call) + 'work-follows-numeric-value' when the
                   same text with its long numbers replaced by small ones of the same length terminates.  The wall-clock watchdog alone is inconclusive.
  exception        only an exception of the DataParseError family, or the documented ValueError of the get() factories
                   for a source without data ("No trees in data source", "No trees available at requested location ...",
                   "No character data in data source"), or - when the harness asked for a tree / collection offset - the
                   documented, worded IndexError "Tree / Collection offset out of range" may escape.  Anything else is a
                   violation keyed by (format, exception class, innermost library function of the dataio layer [, deeper
                   helper]).  RecursionError is keyed by the library function that occupies most of the stack and, when
                   the input is not deep (<= 300 nesting / comment openers), by '|shallow-input'.
  identifies       a parse error must be printable (str(e) does not raise, is not empty), carry a non-empty message, and
                   a line / column it names must exist in the text.
  no data          a Newick source that plainly holds a closed '( ... ) ... ;' group (no comments / quotes in the text)
                   is not "a source with no data": the no-data ValueError is a violation there.
  well-formed      every returned tree passes the arborescence walker (raw fields + every iterator); every returned matrix
                   of every format passes the matrix walker: rows keyed by Taxon objects that are members of the matrix's
                   namespace, continuous cells are real numbers, discrete cells are (by identity) states of the matrix's
                   own state alphabets - never None / str.
  dimensions       hooks on NexusReader._parse_matrix_statement / _parse_dimensions_statement / PhylipReader._read
                   capture the dimensions *the reader itself parsed*; where the text plainly declares them (PHYLIP head
                   line of two ASCII integers; a NEXUS text that holds NCHAR / NTAX exactly once as '<word> = <digits>')
                   the reader's value must equal the text's.  On return every delivered matrix must have every row as
                   long as NCHAR, and as many rows as NTAX when NTAX was declared for this matrix (PHYLIP header; NEXUS:
                   an NTAX read inside the DIMENSIONS statement of the same CHARACTERS/DATA block).  The NEXUS row clause
                   is keyed by mechanism: fewer rows (no lower bound in the library: recorded defect), more rows all of
                   whose taxa existed before the MATRIX statement (recorded defect), taxa CREATED by the MATRIX statement
                   beyond NTAX (the library's own guard NexusReader._get_taxon failed: separate clause), and any
                   difference on a complete valid document (separate clause).

Workloads: every prefix of every valid corpus document (hand-written documents of every block structure, PHYLIP / FASTA of
every documented data type, CR / CRLF line-end variants, seeded generated ones), every 4th prefix additionally under one
reader option in rotation; single and double edits (char / token delete, insert, replace, duplicate, swap, dropped span or
line, inserted keyword, a number replaced by a boundary value, line ends changed, a row repeated under a new label;
alphabets hold CR, NUL, BOM, non-ASCII
letters and digits); random token strings per format (vocabularies hold magnitude tokens such as 1-99999999999); a third
of the edited / random inputs are read with one or two documented reader options switched (OPTIONS: tree-reader options,
NEXUS block options, tree / collection / matrix offsets, PHYLIP modes, every data type); valid documents under every
option; directed witnesses of every mechanism found (always run first); nesting-depth / comment-run stress as a separate
directed class.

Soundness limits: inputs are small (<= 2 KB); outside the directed depth class generated inputs have <= 120 tokens, so
a RecursionError there is not provoked by depth the generator made up; the wording of a DataParseError is not judged;
the ValueError by which <Type>CharacterMatrix.get refuses a document whose (possibly mutated) DATATYPE is not its own is
a property of the route picked by the harness and is recorded, not judged; the NEXUS row-count clause is not applied when
NTAX comes from a TAXA block only (a CHARACTERS matrix may cover a subset of the taxa); FASTA declares no dimensions;
a valid corpus document that is rejected under its own options makes the run inconclusive (harness sanity), it is not a
verdict; a valid document rejected under a switched option is recorded only (an option may legitimately refuse it);
immutable taxon namespaces and TreeArray.read are not driven (their errors are not reader errors)."""
import io
import random

from .. import core
from ..mon import arbor
from ..mon.budget import budget, StepBudgetExceeded, cpu_budget, CpuBudgetExceeded
from ..mon.hooks import Hooks
from . import _c20_util as U
from . import _c20_oracle as O

CPU_LIMIT_S = 20.0      # per read of an input of at most a few KB: > 1000x the CPU cost of any valid document
AS_LIMIT = 2 << 30      # address space of a shard: > 30x what a shard needs; a read that asks for more is unbounded in the text size
PROP = "C20"
LEVEL = "exploration"
TECHNIQUE = ("runtime monitoring: JUMP step budget + CPU-time budget + address-space limit + exception classifier + "
             "parse-error inspection + arborescence walker + matrix walker + hooks capturing the reader's own parsed "
             "dimensions, compared with the dimensions the text declares; on every prefix / edit of valid documents "
             "and random token strings, over factory, iterator and instance read routes and reader options")
LEVEL_TEXT = "exploration: held on the prefixes, edits, token strings, routes and options listed under 'rule'"
LEVEL_NOTE = ("'terminates' is judged as bounded progress (backward-jump budget two orders of magnitude above what any valid "
              "document needs, scaled with the length of the text - never with the value of a number in it); inputs are "
              "bounded in size; nesting depth is probed by a directed class only")
RULE = ("reads = input text x route (Tree.get, TreeList.get, DataSet.get, typed CharacterMatrix.get, Tree.yield_from_files "
        "with schema newick / nexus / nexus-newick, TreeList.read and DataSet.read into non-empty objects) x reader options "
        "(none, or one / two of OPTIONS incl. offsets, PHYLIP modes, data types). inputs: every prefix of "
        "valid documents (NEXUS: TAXA/CHARACTERS/DATA/TREES/SETS/ASSUMPTIONS/CODONS/unknown blocks, TITLE/LINK, TRANSLATE, "
        "interleaved, continuous, multi-block; Newick multi-statement; PHYLIP strict/relaxed x sequential/interleaved x data "
        "type; FASTA x data type; CR and CRLF variants), every 4th prefix also under one option, "
        "single/double edits of them (incl. boundary numbers, line ends, added rows, control / non-ASCII characters), random token "
        "strings (incl. magnitude tokens), valid documents under every option, directed witnesses, directed nesting-depth "
        "stress. non-trivial = the text is not one of the complete valid corpus documents; distinct = distinct (format, text)")
REACH = ["tokenizer:Tokenizer.next_token", "tokenizer:Tokenizer.require_next_token",
         "nexusprocessing:NexusTokenizer.next_token_ucase", "nexusprocessing:NexusTokenizer.skip_to_semicolon",
         "nexusreader:NexusReader._parse_nexus_stream", "nexusreader:NexusReader._parse_taxa_block",
         "nexusreader:NexusReader._parse_taxlabels_statement", "nexusreader:NexusReader._parse_dimensions_statement",
         "nexusreader:NexusReader._parse_format_statement", "nexusreader:NexusReader._parse_trees_block",
         "nexusreader:NexusReader._consume_to_end_of_block", "nexusreader:NexusReader._process_discrete_matrix_data",
         "nexusreader:NexusReader._process_continuous_matrix_data", "nexusreader:NexusReader._read_continuous_character_values",
         "nexusreader:NexusReader._parse_link_statement", "nexusreader:NexusReader._parse_charset_statement",
         "nexusreader:NexusReader._parse_positions", "nexusreader:NexusReader._get_taxon",
         "nexusreader:NexusReader._read_block_without_processing",
         "nexusyielder:NexusTreeDataYielder._yield_items_from_stream", "nexusyielder:NexusTreeDataYielder._yield_from_trees_block",
         "newickyielder:NewickTreeDataYielder._yield_items_from_stream",
         "newickreader:NewickReader._parse_tree_statement", "newickreader:NewickReader._parse_tree_node_description",
         "phylipreader:PhylipReader._read", "phylipreader:PhylipReader._parse_sequence_from_line",
         "phylipreader:PhylipReader._parse_interleaved", "phylipreader:PhylipReader._parse_sequential",
         "fastareader:FastaReader._read",
         "treecollectionmodel:TreeList._parse_and_add_from_stream", "datasetmodel:DataSet._parse_and_add_from_stream"]
MIN_EVENTS = {"read": (8000, 300000), "budget-armed": (8000, 300000), "outcome:parse-error": (2000, 80000),
              "outcome:returned": (2000, 60000), "outcome:documented-valueerror": (300, 10000),
              "tree-walked": (800, 20000), "dims-judged:nexus": (500, 10000), "dims-judged:nexus-rows": (200, 5000),
              "dims-judged:phylip": (1500, 10000), "hook:NexusReader._read:call": (4000, 150000),
              "hook:PhylipReader._read:call": (800, 20000), "hook:NexusReader._parse_matrix_statement:return": (500, 10000),
              "hook:NexusReader._get_taxon_namespace:return": (10000, 150000),
              "prefix-read": (3000, 8000), "edit-read": (3000, 100000), "random-read": (1000, 30000),
              "valid-document-returned": (25, 60), "depth-stress-read": (7, 7),
              # deciding monitors added with the audit: walkers, parse-error inspection, text-declared dimensions
              "matrix-walked": (8000, 70000), "matrix-cells-walked": (80000, 900000),
              "error-identification-judged": (30000, 300000),
              "dims-text-judged:nexus": (3500, 40000), "dims-text-judged:phylip": (2000, 10000),
              # routes: iterator readers and instance readers
              "read:nexus:yield": (1500, 35000), "read:nexus:yield-nn": (1500, 35000),
              "read:newick:yield": (800, 7000), "read:newick:yield-nn": (800, 7000),
              "read:nexus:treelist-read": (1500, 35000), "read:nexus:dataset-read": (1500, 35000),
              "read:newick:treelist-read": (800, 7000), "read:newick:dataset-read": (800, 7000),
              "read:phylip:dataset-read": (3000, 15000), "read:fasta:dataset-read": (1400, 8000),
              # option / class dimensions
              "option-read": (7000, 50000), "offset-option-read": (1200, 10000), "outcome:documented-offset-error": (200, 3000),
              "prefix-option-read": (800, 3000), "prefix-read:newline-variant": (800, 6000), "valid-option-read": (500, 1600),
              "directed-read": (80, 80), "directed-memory-read": (1, 1)}
ASSUMPTIONS = ["allowed exceptions: subclasses of dendropy.utility.error.DataParseError (Tokenizer.*, NexusReader.*, NewickReader.*, "
               "PhylipReader.* error classes), the three 'no data' ValueErrors of the get() factories, and - only when the "
               "harness passed a tree / collection offset - the documented IndexError 'Tree / Collection offset out of range'",
               "step budget %d + %d * len(text) backward jumps inside library code; %d s of CPU time; %d MB of address space",
               "walkers read only _seed_node/_child_nodes/_parent_node/_edge/_head_node (trees) and _taxon_sequence_map/"
               "_character_values/taxon_namespace._taxa/<alphabet>._fundamental_states,_ambiguous_states,_polymorphic_states (matrices)"]
CASE_TIMEOUT = 120

LIMIT_A = 50000
LIMIT_B = 400
ASSUMPTIONS[1] = ASSUMPTIONS[1] % (LIMIT_A, LIMIT_B, CPU_LIMIT_S, AS_LIMIT >> 20)

NO_DATA_MESSAGES = ("No trees in data source", "No trees available at requested location in data source",
                    "No character data in data source")
OFFSET_MESSAGES = ("Tree offset out of range", "Collection offset out of range", "Matrix offset out of range")
READER_FILES = ("nexusreader.py", "newickreader.py", "phylipreader.py", "fastareader.py", "nexusyielder.py", "newickyielder.py")
DATAIO_FILES = READER_FILES + ("tokenizer.py", "nexusprocessing.py")

# the first route of a format is its primary route (always read); "yield-nn" = Tree.yield_from_files(schema="nexus/newick")
ROUTES = {"newick": ("dataset", "tree", "treelist", "yield", "yield-nn", "treelist-read", "dataset-read"),
          "nexus": ("dataset", "tree", "treelist", "matrix", "yield", "yield-nn", "treelist-read", "dataset-read"),
          "phylip": ("matrix", "dataset", "dataset-read"),
          "fasta": ("matrix", "dataset", "dataset-read")}
TREE_ROUTES = ("tree", "treelist", "treelist-read")
DTYPES = ("dna", "rna", "protein", "standard", "continuous", "restriction", "infinite")

# ---------------------------------------------------------------------------------------------------
# directed witnesses: (format, text, reader kwargs, dtype).  Smallest input of every mechanism found on the
# unchanged tree; kept after a repair so that a regression is reported again.
NX = "#NEXUS\n"
TAXA2 = NX + "BEGIN TAXA; DIMENSIONS NTAX=2; TAXLABELS a b; END;\n"
DATA12 = NX + "BEGIN DATA; DIMENSIONS NTAX=1 NCHAR=2; FORMAT DATATYPE=DNA; MATRIX a AC; END;\n"
DIRECTED = [
    # --- end of stream inside NEXUS statements; sources without any token (every route, also the iterator readers)
    ("nexus", "", None, None),
    ("nexus", "   \n", None, None),
    ("nexus", "[comment only]", None, None),
    ("newick", "", None, None),
    ("newick", " \n", None, None),
    ("newick", "[comment only]", None, None),
    ("nexus", NX, None, None),
    ("nexus", NX + "BEGIN TAXA;", None, None),
    ("nexus", NX + "BEGIN TAXA; DIMENSIONS NTAX=2; TAXLABELS a", None, None),
    ("nexus", NX + "BEGIN TAXA; TAXLABELS a b; END;", None, None),
    ("nexus", TAXA2 + "BEGIN TREES; TREE t = (a,b); TREE", None, None),
    ("nexus", TAXA2 + "BEGIN TREES; TREE t =", None, None),
    # a TRANSLATE statement given twice, then a label that neither the table nor the TAXA block knows
    ("nexus", TAXA2 + "BEGIN TREES; TRANSLATE 1 a, 2 b; TRANSLATE 1 a, 2 b; TREE t = (1,(2,c)); END;", None, None),
    ("nexus", NX + "BEGIN TREES; TRANSLATE 1 a, 2 b; TRANSLATE 1 a, 2 b; TREE t = (1,(2,c)); END;", None, None),
    ("nexus", TAXA2 + "BEGIN TREES; LINK TAXA", None, None),
    ("nexus", TAXA2 + "BEGIN TREES; TRANSLATE 1", None, None),
    ("nexus", TAXA2 + "BEGIN TREES; TRANSLATE 1 a, 2", None, None),
    # --- LINK with an unknown key on a complete document
    ("nexus", TAXA2 + "BEGIN TREES; LINK FOO = bar; TREE t = (a,b); END;\n", None, None),
    ("nexus", TAXA2 + "BEGIN CHARACTERS; LINK FOO = bar; DIMENSIONS NCHAR=1; FORMAT DATATYPE=DNA; MATRIX a A b C; END;\n", None, "dna"),
    # --- matrices against declared dimensions
    ("nexus", NX + "BEGIN DATA; DIMENSIONS NTAX=3 NCHAR=2; FORMAT DATATYPE=DNA; MATRIX a AC b GT; END;\n", None, "dna"),
    ("nexus", NX + "BEGIN DATA; DIMENSIONS NTAX=2 NCHAR=4; FORMAT DATATYPE=DNA INTERLEAVE; MATRIX\n a AC\n b GT\n;\nEND;\n", None, "dna"),
    ("nexus", NX + "BEGIN DATA; DIMENSIONS NTAX=2 NCHAR=2; FORMAT DATATYPE=DNA; MATRIX a A; END;\n", None, "dna"),
    ("nexus", TAXA2 + "BEGIN CHARACTERS; DIMENSIONS NTAX=1 NCHAR=1; FORMAT DATATYPE=DNA; MATRIX a A b C; END;\n", None, "dna"),
    ("nexus", NX + "BEGIN DATA; DIMENSIONS NTAX=1 NCHAR=2; FORMAT DATATYPE=CONTINUOUS; MATRIX a 1.0; END;\n", None, "continuous"),
    # a DATA block that creates its own taxa: one row more than NTAX (the reader's guard must refuse the third label)
    ("nexus", NX + "BEGIN DATA; DIMENSIONS NTAX=2 NCHAR=2; FORMAT DATATYPE=DNA; MATRIX a AC b GT c TT; END;\n", None, "dna"),
    ("nexus", NX + "BEGIN DATA; DIMENSIONS NTAX=2 NCHAR=2; FORMAT DATATYPE=DNA INTERLEAVE; MATRIX\n a A\n b G\n c T\n\n a C\n b T\n c T\n;\nEND;\n", None, "dna"),
    # --- MATRIX without FORMAT (default data type), duplicate SYMBOLS
    ("nexus", NX + "BEGIN DATA; DIMENSIONS NTAX=1 NCHAR=2; MATRIX a 01; END;\n", None, "standard"),
    ("nexus", NX + "BEGIN DATA; DIMENSIONS NTAX=1 NCHAR=2; MATRIX a (01)1; END;\n", None, "standard"),
    ("nexus", NX + "BEGIN DATA; DIMENSIONS NTAX=1 NCHAR=2; FORMAT DATATYPE=STANDARD SYMBOLS=\"11\"; MATRIX a 11; END;\n", None, "standard"),
    ("nexus", NX + "BEGIN DATA; DIMENSIONS NTAX=1 NCHAR=2; FORMAT DATATYPE=STANDARD SYMBOLS=\"\"; MATRIX a 11; END;\n", None, "standard"),
    ("nexus", NX + "BEGIN DATA; DIMENSIONS NTAX=1 NCHAR=2; FORMAT DATATYPE=STANDARD SYMBOLS=\"1?\"; MATRIX a 11; END;\n", None, "standard"),
    # --- SETS block: CHARSET with a non-numeric position; LINK CHARACTERS to an untitled matrix
    ("nexus", DATA12 + "BEGIN SETS; CHARSET x = foo; END;\n", None, "dna"),
    ("nexus", DATA12 + "BEGIN SETS; CHARSET x = 1-2\\0; END;\n", None, "dna"),
    ("nexus", DATA12 + "BEGIN SETS; LINK CHARACTERS = d; CHARSET x = 1; END;\n", None, "dna"),
    # --- numbers whose VALUE is large: the work of a reader may follow the length of the text only
    ("nexus", DATA12 + "BEGIN SETS; CHARSET x = 1-99999999999; END;\n", None, "dna"),
    ("nexus", DATA12 + "BEGIN SETS; CHARSET x = 1-99999999999\\3; END;\n", None, "dna"),
    ("nexus", DATA12 + "BEGIN SETS; CHARSET x = 1-.\\99999999999; END;\n", None, "dna"),
    ("nexus", DATA12 + "BEGIN SETS; CHARSET x = 99999999999; END;\n", None, "dna"),
    ("nexus", NX + "BEGIN DATA; DIMENSIONS NTAX=99999999999 NCHAR=99999999999; FORMAT DATATYPE=DNA; MATRIX a AC; END;\n", None, "dna"),
    ("nexus", NX + "BEGIN TAXA; DIMENSIONS NTAX=99999999999; TAXLABELS a b; END;\n", None, None),
    ("phylip", "99999999999 4\na ACGT\nb ACGT\n", {}, "dna"),
    ("phylip", "2 99999999999\na ACGT\nb ACGT\n", {}, "dna"),
    ("phylip", "2 99999999999\na ACGT\nb ACGT\n", {"interleaved": True}, "dna"),
    ("newick", "(a:1e400,b:-0,c:1e-400)[&W 1/99999999999];", {"store_tree_weights": True}, None),
    ("newick", "(a:99999999999,b:1.5);", {"edge_length_type": "@int"}, None),
    # --- characters str.isdigit() accepts and int() refuses
    ("nexus", NX + "BEGIN DATA; DIMENSIONS NTAX=1 NCHAR=²; FORMAT DATATYPE=DNA; MATRIX a AC; END;\n", None, "dna"),
    ("nexus", NX + "BEGIN DATA; DIMENSIONS NTAX=² NCHAR=2; FORMAT DATATYPE=DNA; MATRIX a AC; END;\n", None, "dna"),
    ("nexus", NX + "BEGIN DATA; DIMENSIONS NTAX=1 NCHAR=٢; FORMAT DATATYPE=DNA; MATRIX a AC; END;\n", None, "dna"),
    ("nexus", DATA12 + "BEGIN SETS; CHARSET x = ²; END;\n", None, "dna"),
    ("nexus", DATA12 + "BEGIN SETS; CHARSET x = 1-²; END;\n", None, "dna"),
    ("nexus", DATA12 + "BEGIN SETS; CHARSET x = 1-2\\²; END;\n", None, "dna"),
    ("nexus", DATA12 + "BEGIN SETS; CHARSET x = 1 ²; END;\n", None, "dna"),
    ("phylip", "² 4\na ACGT\nb ACGT\n", {}, "dna"),
    ("phylip", "٢ ٤\na ACGT\nb ACGT\n", {}, "dna"),
    # --- store_ignored_blocks with an unknown block before / after the data
    ("nexus", NX + "BEGIN PAUP;\n SET x=1;\nEND;\nBEGIN DATA;\n DIMENSIONS NTAX=2 NCHAR=2;\n FORMAT DATATYPE=DNA;\n MATRIX\n a AC\n b GT\n ;\nEND;\n"
              "BEGIN TREES;\n TREE t = (a,b);\nEND;\n", {"store_ignored_blocks": True}, "dna"),
    ("nexus", NX + "BEGIN PAUP;\n SET x=1;\n", {"store_ignored_blocks": True}, None),
    # --- PHYLIP rows against the header
    ("phylip", "2 4\na ACGT\nb AC\n", {}, "dna"),
    ("phylip", "2 2\na ACG\nb AC\n", {}, "dna"),
    ("phylip", "2 2\na ACG\nb AC\n", {"interleaved": True}, "dna"),
    ("phylip", "2 2\na         AC\nb         G\nTT\n", {"strict": True, "interleaved": True}, "dna"),
    # --- PHYLIP repeated label
    ("phylip", "2 4\na ACGT\na ACGT\nb ACGT\n", {}, "dna"),
    # --- PHYLIP / FASTA of the other documented data types; cells that are no value of the type
    ("phylip", "2 2\na 0.5 1\nb 2 x\n", {}, "continuous"),
    ("phylip", "2 2\na 0.5 1\nb 2 x\n", {"ignore_invalid_chars": True}, "continuous"),
    ("phylip", "2 2\na 0.5 1\nb 2 nan\n", {}, "continuous"),
    ("phylip", "2 2\na A!\nb AC\n", {}, "dna"),
    ("phylip", "2 2\na A!C\nb AC\n", {"ignore_invalid_chars": True}, "dna"),
    ("phylip", "2 2\na 01\nb 2?\n", {}, "standard"),
    ("phylip", "2 2\na 01\nb 10\n", {}, "restriction"),
    ("phylip", "2 2\na 01\nb 10\n", {}, "infinite"),
    ("phylip", "2 2\na AR\nb N*\n", {}, "protein"),
    ("fasta", ">a\nAC!T\n", {}, "dna"),
    ("fasta", ">a\n0.5 1\n>b\n2 3\n", {}, "continuous"),
    ("fasta", ">a\n0.5 x\n", {}, "continuous"),
    ("fasta", "", {}, "continuous"),
    ("fasta", ">a\n0101\n>b\n1?0-\n", {}, "standard"),
    ("fasta", ">a\n0101\n", {}, "restriction"),
    ("fasta", ">a\n0101\n", {}, "infinite"),
    ("fasta", ">a\nACGU\n", {}, "rna"),
    # --- tree / collection / matrix offsets beyond what the (possibly cut) source holds
    ("newick", "(a,b);(c,d);", {"tree_offset": 2}, None),
    ("newick", "(a,b);(c,d);", {"tree_offset": 1}, None),
    ("newick", "(a,b);(c,d);", {"tree_offset": -3}, None),
    ("newick", "(a,b);", {"collection_offset": 1}, None),
    ("newick", "(a,b);", {"collection_offset": 0, "tree_offset": 5}, None),
    ("nexus", TAXA2 + "BEGIN TREES; TREE t = (a,b); END;\n", {"collection_offset": 1}, None),
    ("nexus", TAXA2 + "BEGIN TREES; TREE t = (a,b); END;\n", {"tree_offset": 1}, None),
    ("nexus", DATA12, {"matrix_offset": 1}, "dna"),
    ("nexus", DATA12, {"matrix_offset": -1}, "dna"),
    # --- jplace edge numbers (reader option)
    ("newick", "(a{x},b);", {"is_parse_jplace_tokens": True}, None),
    # --- tree weight comment with a zero denominator (reader option)
    ("newick", "[&W 1/0] (a,b);", {"store_tree_weights": True}, None),
    ("nexus", NX + "BEGIN TREES; TREE t = [&W 1/0] (a,b); END;\n", {"store_tree_weights": True}, None),
]
# a stale, huge NCHAR (a later DIMENSIONS statement overrides the matrix's) and CHARSET ALL: memory follows the value.
# Run only under the address-space limit.
DIRECTED_NEEDS_AS_LIMIT = [
    ("nexus", DATA12 + "BEGIN TAXA; DIMENSIONS NTAX=1 NCHAR=99999999999; TAXLABELS a; END;\nBEGIN SETS; CHARSET x = ALL; END;\n", None, "dna"),
]

# documented reader options: name -> (formats, kwargs).  Values starting with '@' are built per read (do_read).
# A third of the edited / random inputs are read under one or two of them, every 4th prefix under one (in rotation),
# every valid document under each.
_TREE_FMTS = ("newick", "nexus")
OPTIONS = [
    ("internal-taxa", _TREE_FMTS, {"suppress_internal_node_taxa": False}),
    ("no-leaf-taxa", _TREE_FMTS, {"suppress_leaf_node_taxa": True}),
    ("no-leaf-taxa-legacy", _TREE_FMTS, {"suppress_external_node_taxa": True}),
    ("no-semicolon", _TREE_FMTS, {"terminating_semicolon_required": False}),
    ("underscores", _TREE_FMTS, {"preserve_underscores": True}),
    ("force-rooted", _TREE_FMTS, {"rooting": "force-rooted"}),
    ("force-unrooted", _TREE_FMTS, {"rooting": "force-unrooted"}),
    ("default-rooted", _TREE_FMTS, {"rooting": "default-rooted"}),
    ("rooting-none", _TREE_FMTS, {"rooting": None}),
    ("tree-weights", _TREE_FMTS, {"store_tree_weights": True}),
    ("raw-comments", _TREE_FMTS, {"extract_comment_metadata": False}),
    ("no-lengths", _TREE_FMTS, {"suppress_edge_lengths": True}),
    ("jplace", _TREE_FMTS, {"is_parse_jplace_tokens": True}),
    ("int-lengths", _TREE_FMTS, {"edge_length_type": "@int"}),
    ("case-sensitive", _TREE_FMTS, {"case_sensitive_taxon_labels": True}),
    ("labels-to-edges", _TREE_FMTS, {"is_assign_internal_labels_to_edges": True}),
    ("finish-node-fn", _TREE_FMTS, {"finish_node_fn": "@finish-node-fn"}),
    ("given-namespace", _TREE_FMTS, {"taxon_namespace": "@prefilled-namespace"}),
    ("ignored-blocks", ("nexus",), {"store_ignored_blocks": True}),
    ("unconstrained-taxa", ("nexus",), {"unconstrained_taxa_accumulation_mode": True}),
    ("create-missing-taxa-blocks", ("nexus",), {"automatically_create_missing_taxa_blocks": True}),
    ("substitute-missing-taxa-blocks", ("nexus",), {"automatically_substitute_missing_taxa_blocks": True}),
    ("exclude-trees", ("nexus", "newick"), {"exclude_trees": True}),
    ("exclude-chars", ("nexus", "phylip", "fasta"), {"exclude_chars": True}),
    ("tree-offset-1", _TREE_FMTS, {"tree_offset": 1}),
    ("tree-offset-last", _TREE_FMTS, {"tree_offset": -1}),
    ("tree-offset-2", _TREE_FMTS, {"tree_offset": 2}),
    ("tree-offset-far", _TREE_FMTS, {"collection_offset": 0, "tree_offset": 7}),
    ("collection-offset-1", _TREE_FMTS, {"collection_offset": 1}),
    ("collection-offset-last", _TREE_FMTS, {"collection_offset": -1, "tree_offset": 0}),
    ("matrix-offset-1", ("nexus",), {"matrix_offset": 1}),
    ("matrix-offset-last", ("nexus",), {"matrix_offset": -1}),
    ("phylip-strict", ("phylip",), {"strict": True}),
    ("phylip-relaxed", ("phylip",), {"strict": False}),
    ("phylip-interleaved", ("phylip",), {"interleaved": True}),
    ("phylip-sequential", ("phylip",), {"interleaved": False}),
    ("phylip-multispace", ("phylip",), {"strict": False, "multispace_delimiter": True}),
    ("phylip-underscores", ("phylip",), {"underscores_to_spaces": True}),
    ("phylip-ignore-invalid", ("phylip",), {"ignore_invalid_chars": True}),
    ("given-namespace", ("phylip", "fasta"), {"taxon_namespace": "@prefilled-namespace"}),
] + [("type-%s" % t, ("phylip", "fasta"), {"data_type": t}) for t in DTYPES]
OPTIONS_OF = dict((f, [o for o in OPTIONS if f in o[1]]) for f in ("newick", "nexus", "phylip", "fasta"))

DEPTH = [
    ("newick", "open-parens", "(" * 50),
    ("newick", "open-parens", "(" * 2000),
    ("newick", "balanced-nesting", "(" * 2000 + "a" + ")" * 2000 + ";"),
    ("newick", "comment-run", "[c] " * 50 + "(a,b);"),
    ("newick", "comment-run", "[c] " * 1500 + "(a,b);"),
    ("nexus", "comment-run", NX + "[c] " * 1500 + "BEGIN TREES; TREE t = (a,b); END;"),
    ("nexus", "tree-nesting", NX + "BEGIN TREES; TREE t = " + "(" * 2000 + "a" + ")" * 2000 + "; END;"),
]


# ---------------------------------------------------------------------------------------------------
# corpus
def corpus(tier, seed):
    docs = U.fixed_corpus()
    nfixed = len(docs)
    per = {"nexus": 3, "newick": 2, "phylip": 2, "fasta": 1} if tier == "quick" else \
          {"nexus": 30, "newick": 8, "phylip": 8, "fasta": 4}
    for fmt in ("nexus", "newick", "phylip", "fasta"):
        for i in range(per[fmt]):
            docs.append(U.generated_doc(random.Random("corpus/%s/%s/%d" % (seed, fmt, i)), fmt, i))
    # the same documents with the line ends of other platforms: all of them (thorough) / a third, rotating with the seed (quick)
    for k in range(len(docs)):
        for j, (name, nl) in enumerate(U.NEWLINE_VARIANTS):
            if "\n" in docs[k]["text"].rstrip("\n") and (tier != "quick" or (k + seed) % 3 == j):
                if k < nfixed or j == 0:
                    docs.append(U.newline_variant(docs[k], name))
    return docs


DIRECTED_CHUNK = 8


def cases(tier, seed):
    for lo in range(0, len(DIRECTED), DIRECTED_CHUNK):
        yield {"kind": "directed", "lo": lo, "seed": seed}
    yield {"kind": "directed-memory", "seed": seed}
    yield {"kind": "depth", "seed": seed}
    docs = corpus(tier, seed)
    for k, d in enumerate(docs):
        yield {"kind": "valid", "doc": k, "tier": tier, "seed": seed}
    chunk = 48
    for k, d in enumerate(docs):
        n = len(d["text"])
        for lo in range(0, n, chunk):
            yield {"kind": "prefix", "doc": k, "lo": lo, "hi": min(n, lo + chunk), "tier": tier, "seed": seed}
    nedit = 700 if tier == "quick" else 6000
    for i in range(nedit):
        yield {"kind": "edit", "i": i, "n": 50, "tier": tier, "seed": seed}
    nrand = 300 if tier == "quick" else 2000
    for i in range(nrand):
        yield {"kind": "random", "i": i, "n": 50, "tier": tier, "seed": seed}


# ---------------------------------------------------------------------------------------------------
# monitors
class Monitor(object):
    """hooks that capture the dimensions the readers themselves parsed, and how many taxa the namespace of a NEXUS
    matrix held before its MATRIX statement."""

    def __init__(self, ctx):
        self.ctx = ctx
        self.hooks = Hooks(ctx)
        self.reset()

    def reset(self):
        self.nexus_reader = None
        self.phylip_reader = None
        self.in_char_block = 0
        self.in_dims = 0
        self.in_matrix = 0
        self.matrix_ns = None    # (namespace, number of taxa) at the first namespace lookup of the running MATRIX statement
        self.block_ntax_declared = False
        self.matrices = {}      # id(matrix) -> record

    def install(self):
        from dendropy.dataio import nexusreader, phylipreader, nexusprocessing
        NR = nexusreader.NexusReader
        h = self.hooks
        h.install(NR, "_read", pre=self._nexus_read_pre, outermost_only=False)
        h.install(NR, "_parse_characters_data_block", pre=self._block_pre, post=self._block_post, outermost_only=False)
        h.install(NR, "_parse_dimensions_statement", pre=self._dims_pre, post=self._dims_post, outermost_only=False)
        h.install(nexusprocessing.NexusTokenizer, "require_next_token_ucase", post=self._ucase_post, outermost_only=False)
        h.install(NR, "_parse_matrix_statement", pre=self._matrix_pre, post=self._matrix_post, outermost_only=False)
        h.install(NR, "_get_taxon_namespace", post=self._get_ns_post, outermost_only=False)
        h.install(phylipreader.PhylipReader, "_read", pre=self._phylip_read_pre, outermost_only=False)

    def uninstall(self):
        self.hooks.uninstall()

    def _nexus_read_pre(self, obj, args, kw):
        self.nexus_reader = obj

    def _phylip_read_pre(self, obj, args, kw):
        self.phylip_reader = obj

    def _block_pre(self, obj, args, kw):
        self.in_char_block += 1
        self.block_ntax_declared = False

    def _block_post(self, snap, obj, args, kw, result, exc):
        self.in_char_block -= 1
        self.block_ntax_declared = False

    def _dims_pre(self, obj, args, kw):
        self.in_dims += 1

    def _dims_post(self, snap, obj, args, kw, result, exc):
        self.in_dims -= 1

    def _ucase_post(self, snap, obj, args, kw, result, exc):
        if self.in_dims and self.in_char_block and result == "NTAX":
            self.block_ntax_declared = True

    def _matrix_pre(self, obj, args, kw):
        self.in_matrix += 1
        self.matrix_ns = None

    def _get_ns_post(self, snap, obj, args, kw, result, exc):
        if self.in_matrix and self.matrix_ns is None and exc is None and result is not None:
            try:
                self.matrix_ns = (result, len(result._taxa))
            except Exception:
                self.matrix_ns = None

    def _matrix_post(self, snap, obj, args, kw, result, exc):
        self.in_matrix -= 1
        ns0, self.matrix_ns = self.matrix_ns, None
        if exc is not None or not obj._char_matrices:
            return
        m = obj._char_matrices[-1]
        prior = None
        if ns0 is not None and ns0[0] is getattr(m, "taxon_namespace", None):
            prior = ns0[1]
        self.matrices[id(m)] = {"matrix": m, "ntax": obj._file_specified_ntax, "nchar": obj._file_specified_nchar,
                                "ntax_in_block": bool(self.block_ntax_declared and self.in_char_block),
                                "interleave": bool(obj._interleave), "dtype": obj._data_type, "taxa_before": prior,
                                # size right after the MATRIX statement: later blocks of the document may add taxa too
                                "taxa_after": len(m.taxon_namespace._taxa) if getattr(m, "taxon_namespace", None) is not None else None}


_MON = [None]
_LOCATOR = U.SpinLocator(core.REPO_SRC)
_AS = {"old": None, "set": False}


def shard_setup(ctx):
    m = Monitor(ctx)
    m.install()
    _MON[0] = m
    # a read whose memory follows the VALUE of a number (set(range(1, 10**11))) must fail inside this process, soon
    try:
        import resource
        old = resource.getrlimit(resource.RLIMIT_AS)
        if old[0] == resource.RLIM_INFINITY or old[0] > AS_LIMIT:
            resource.setrlimit(resource.RLIMIT_AS, (AS_LIMIT, old[1]))
            _AS["old"], _AS["set"] = old, True
        else:
            _AS["set"] = True
    except Exception:
        ctx.note("address-space-limit-not-available")


def shard_teardown(ctx):
    if _MON[0] is not None:
        _MON[0].uninstall()
        _MON[0] = None
    if _AS["old"] is not None:
        try:
            import resource
            resource.setrlimit(resource.RLIMIT_AS, _AS["old"])
        except Exception:
            pass
        _AS["old"] = None


# ---------------------------------------------------------------------------------------------------
def matrix_class(dtype):
    import dendropy
    return {"dna": dendropy.DnaCharacterMatrix, "rna": dendropy.RnaCharacterMatrix,
            "protein": dendropy.ProteinCharacterMatrix, "standard": dendropy.StandardCharacterMatrix,
            "continuous": dendropy.ContinuousCharacterMatrix, "restriction": dendropy.RestrictionSitesCharacterMatrix,
            "infinite": dendropy.InfiniteSitesCharacterMatrix}.get(dtype or "dna", dendropy.DnaCharacterMatrix)


def _finish_node(node):
    return None


def prior_dataset():
    """a DataSet that already holds a namespace, a tree list with a tree and a (still empty) matrix - built through the
    object API, not by a reader"""
    import dendropy
    ds = dendropy.DataSet()
    tns = ds.new_taxon_namespace(label="prior")
    for l in ("p", "q", "A"):
        tns.new_taxon(l)
    tl = ds.new_tree_list(taxon_namespace=tns, label="pt")
    tl.append(prior_tree(tns))
    ds.new_char_matrix(char_matrix_type="dna", taxon_namespace=tns, label="pc")
    return ds


def prior_tree(tns):
    import dendropy
    t = dendropy.Tree(taxon_namespace=tns)
    t.seed_node.new_child(taxon=tns[0])
    t.seed_node.new_child(taxon=tns[1])
    return t


def prior_treelist():
    import dendropy
    tns = dendropy.TaxonNamespace(["p", "q", "A"])
    tl = dendropy.TreeList(taxon_namespace=tns)
    tl.append(prior_tree(tns))
    return tl


def route_items(fmt, route, kw):
    """the options that reach the route: an option that is an argument of another route (an offset into trees for a
    matrix route ...) or that contradicts the object the route reads into is not part of this read."""
    out = []
    for k, v in (kw or {}).items():
        if k in ("tree_offset", "collection_offset") and route not in TREE_ROUTES:
            continue
        if k == "matrix_offset" and route != "matrix":
            continue
        if k in ("exclude_trees", "exclude_chars") and fmt != "nexus" and route not in ("dataset", "dataset-read"):
            continue
        if k in ("taxon_namespace", "case_sensitive_taxon_labels") and route in ("treelist-read", "dataset-read"):
            continue            # the existing object brings its (case-insensitive) namespace
        if k == "data_type":
            continue            # selects the matrix type (dtype)
        if k == "is_assign_internal_labels_to_edges" and (kw or {}).get("suppress_internal_node_taxa") is False:
            continue            # documented as conflicting (ValueError of the reader's constructor): not drawn together
        out.append((k, v))
    return out


def kw_keys(fmt, route, kw):
    return [k for k, v in route_items(fmt, route, kw)]


def kw_for_route(fmt, route, kw):
    """the reader keyword arguments of one read; '@' values are built."""
    import dendropy
    out = {}
    items = route_items(fmt, route, kw)
    case = any(k == "case_sensitive_taxon_labels" and v for k, v in items)
    for k, v in items:
        if v == "@int":
            v = int
        elif v == "@finish-node-fn":
            v = _finish_node
        elif v == "@prefilled-namespace":
            v = dendropy.TaxonNamespace(["A", "b", "t1", "zz", "a", "sp one"], is_case_sensitive=case)
        out[k] = v
    return out


def do_read(fmt, route, text, kw, dtype):
    """returns (result, number of matrices the target held before)"""
    import dendropy
    kw = kw_for_route(fmt, route, kw)
    if route == "tree":
        return dendropy.Tree.get(data=text, schema=fmt, **kw), 0
    if route == "treelist":
        return dendropy.TreeList.get(data=text, schema=fmt, **kw), 0
    if route in ("yield", "yield-nn"):
        schema = "nexus/newick" if route == "yield-nn" else fmt
        return list(dendropy.Tree.yield_from_files([io.StringIO(text)], schema=schema, **kw)), 0
    if route == "treelist-read":
        tl = prior_treelist()
        tl.read(data=text, schema=fmt, **kw)
        return tl, 0
    if fmt in ("phylip", "fasta") and route in ("dataset", "dataset-read"):
        kw["data_type"] = dtype or "dna"
    if route == "dataset":
        return dendropy.DataSet.get(data=text, schema=fmt, **kw), 0
    if route == "dataset-read":
        ds = prior_dataset()
        if len(text) % 2:
            ds.attach_taxon_namespace(ds.taxon_namespaces[0])
        n = len(ds.char_matrices)
        ds.read(data=text, schema=fmt, **kw)
        return ds, n
    if route == "matrix":
        return matrix_class(dtype).get(data=text, schema=fmt, **kw), 0
    raise core.HarnessBug(route)


def frames(exc):
    out = []
    tb = exc.__traceback__
    while tb is not None:
        code = tb.tb_frame.f_code
        if core._is_repo_file(code.co_filename):
            out.append((code.co_filename.rsplit("/", 1)[-1], getattr(code, "co_qualname", code.co_name)))
        tb = tb.tb_next
    return out


def site_of(exc):
    """'<innermost dataio function>[<deeper helper]' for the classifier key; an exception raised outside the dataio layer
    is anchored at the innermost data-model read function (_parse_and_create_from_stream ...) on the stack."""
    fr = frames(exc)
    if not fr:
        return "<outside-library>"
    io_ = [q for f, q in fr if f in DATAIO_FILES]
    inner = fr[-1][1]
    if not io_:
        io_ = [q for f, q in fr if q.endswith("_from_stream")]
        if not io_:
            return inner
    return io_[-1] if io_[-1] == inner else "%s<%s" % (io_[-1], inner)


_QUOTED = __import__("re").compile(r"'[^']*'|\"[^\"]*\"|[0-9]+")
_WORD = __import__("re").compile(r"[A-Za-z_]+")


def message_stem(exc):
    """the first words of the message without quoted parts and numbers: tells two causes in one function apart
    (int() of a non-decimal digit / a zero step) without putting input values into the key."""
    try:
        msg = str(exc)
    except Exception:
        return "unprintable"
    words = _WORD.findall(_QUOTED.sub(" ", msg))[:5]
    return "-".join(w.lower() for w in words) or "no-message"


def raised_at(exc):
    tb = exc.__traceback__
    at = None
    while tb is not None:
        if core._is_repo_file(tb.tb_frame.f_code.co_filename):
            at = "%s:%d" % (tb.tb_frame.f_code.co_filename.rsplit("/", 1)[-1], tb.tb_lineno)
        tb = tb.tb_next
    return at


def innermost_name(exc):
    fr = core.innermost_repo_frame(exc)
    return fr[0] if fr is not None else ""


def recursion_site(exc):
    cnt = {}
    for f, q in frames(exc):
        cnt[q] = cnt.get(q, 0) + 1
    if not cnt:
        return "<outside-library>"
    return sorted(cnt.items(), key=lambda kv: (-kv[1], kv[0]))[0][0]


def spin_site(exc):
    fr = frames(exc)
    rd = [q for f, q in fr if f in READER_FILES]
    if rd:
        return rd[-1]
    return fr[-1][1] if fr else "<outside-library>"


def trees_of(route, result):
    if route == "tree":
        return [result]
    if route in ("treelist", "treelist-read", "yield", "yield-nn"):
        return list(result)
    if route in ("dataset", "dataset-read"):
        return [t for tl in result.tree_lists for t in tl]
    return []


def matrices_of(route, result, nprior):
    if route == "matrix":
        return [result]
    if route in ("dataset", "dataset-read"):
        return list(result.char_matrices)[nprior:]
    return []


def shape_of(m):
    rows = list(m._taxon_sequence_map.values())
    return len(rows), sorted(set(len(r) for r in rows))


def brief(text, n=700):
    return text if len(text) <= n else text[:n] + "...(%d chars)" % len(text)


def value_probe(fmt, route, text, kw, dtype, limit):
    """after a budget verdict: does the same text with its long numbers replaced by small ones of the same length
    terminate?  (names the mechanism only, the verdict is the budget's)"""
    small = O.shrink_numbers(text)
    if small == text:
        return ""
    try:
        with cpu_budget(CPU_LIMIT_S):
            with budget(limit):
                do_read(fmt, route, small, kw, dtype)
    except core.CaseTimeout:
        raise
    except (StepBudgetExceeded, CpuBudgetExceeded):
        return ""
    except BaseException:
        pass
    return "|work-follows-numeric-value"


def read_and_judge(ctx, fmt, route, text, kw, dtype, klass="generated", expect_valid=False):
    """one monitored read; returns the outcome kind."""
    mon = _MON[0]
    if mon is None:
        raise core.HarnessBug("monitor not installed")
    mon.reset()
    det = {"format": fmt, "route": route, "kwargs": kw or {}, "dtype": dtype, "text": brief(text), "len": len(text)}
    limit = LIMIT_A + LIMIT_B * len(text)
    ctx.ev("read")
    ctx.ev("read:%s:%s" % (fmt, route))
    ctx.ev("class:%s" % klass)
    result = None
    nprior = 0
    outcome = None
    try:
        # second line for loops the JUMP budget cannot see (inside C code called by the library, e.g. a regular
        # expression that backtracks exponentially): process CPU time in user mode, i.e. virtual time, not wall clock
        with cpu_budget(CPU_LIMIT_S):
            with budget(limit) as b:
                ctx.ev("budget-armed")
                result, nprior = do_read(fmt, route, text, kw, dtype)
        outcome = "returned"
    except core.CaseTimeout:
        raise
    except CpuBudgetExceeded as e:
        ctx.ev("outcome:cpu-budget-exceeded")
        mon.reset()
        ctx.violation("%s|does-not-terminate|cpu-time|%s%s" % (fmt, e.where.split(":")[-1], value_probe(fmt, route, text, kw, dtype, limit)),
                      "read of %d chars consumed more than %.0f s of CPU time (valid inputs of this size need milliseconds); "
                      "interrupted in %s" % (len(text), CPU_LIMIT_S, e.where), det)
        return "hang"
    except StepBudgetExceeded as e:
        # the verdict is the budget's; a second, shorter run of the same read only names the spinning function
        mon.reset()
        site = _LOCATOR.locate(lambda: do_read(fmt, route, text, kw, dtype), LIMIT_A // 4 + (LIMIT_B // 4) * len(text))
        if site is None:
            ctx.note("spin-locator-fell-back-to-innermost-reader-frame")
            site = spin_site(e)
        mon.reset()
        probe = value_probe(fmt, route, text, kw, dtype, limit)
        ctx.ev("outcome:budget-exceeded")
        ctx.violation("%s|does-not-terminate|%s%s" % (fmt, site, probe),
                      "read exceeded the step budget (%d backward jumps for %d chars); spinning in %s (tripped at %s)%s" % (
                          limit, len(text), site, e.where,
                          "; the same text with its numbers of six or more digits replaced by 0..07 (same length) terminates" if probe else ""), det)
        return "hang"
    except RecursionError as e:
        site = recursion_site(e)
        ctx.ev("outcome:internal-error")
        depth = O.nesting_class(text)
        # the key of a deep input is the one the recorded depth findings have; a shallow input gets its own
        ctx.violation("%s|unexpected-exception|RecursionError|%s%s" % (fmt, site, "" if depth == "deep-input" else "|shallow-input"),
                      "%s read raised RecursionError (stack dominated by %s; %s: %d nesting / comment openers)" % (
                          fmt, site, depth, text.count("(") + text.count("[")),
                      dict(det, text=brief(text, 120)))
        return "internal-error"
    except Exception as e:
        from dendropy.utility import error
        inner = innermost_name(e)
        offsets = [k for k in ("tree_offset", "collection_offset", "matrix_offset") if k in kw_keys(fmt, route, kw)]
        if isinstance(e, error.DataParseError):
            ctx.ev("outcome:parse-error")
            ctx.ev("parse-error:%s" % type(e).__name__)
            outcome = "parse-error"
            ctx.ev("error-identification-judged")
            for clause, what in O.error_identification_problems(e, text):
                ctx.violation("%s|parse-error-does-not-identify|%s|%s" % (fmt, clause, type(e).__name__),
                              "%s raised at %s: %s" % (type(e).__name__, raised_at(e), what), det)
        elif type(e) is ValueError and str(e) in NO_DATA_MESSAGES and inner.endswith("_parse_and_create_from_stream"):
            ctx.ev("outcome:documented-valueerror")
            outcome = "no-data"
            if fmt == "newick" and route in ("tree", "treelist") and not kw_keys(fmt, route, kw) and O.newick_plainly_holds_a_tree(text):
                ctx.violation("newick|no-data-error-on-source-with-a-tree|%s" % route,
                              "%r raised although the text holds a closed '( ... ) ... ;' group and no comment / quote" % str(e), det)
        elif route == "matrix" and type(e) is ValueError and str(e).startswith("Data source (at offset") \
                and inner.endswith("_parse_and_create_from_stream"):
            ctx.note("typed-matrix-route-refused-other-datatype")
            outcome = "route-mismatch"
        elif offsets and type(e) is IndexError and str(e).startswith(OFFSET_MESSAGES) \
                and inner.endswith("_parse_and_create_from_stream"):
            # the documented, worded error of the offset arguments (TreeList.get / read: "... then IndexError is raised")
            ctx.ev("outcome:documented-offset-error")
            outcome = "offset-out-of-range"
        else:
            ctx.ev("outcome:internal-error")
            ctx.violation("%s|unexpected-exception|%s|%s|%s" % (fmt, type(e).__name__, site_of(e), message_stem(e)),
                          "%s read raised %s" % (fmt, core.exc_brief(e)), dict(det, raised_at=raised_at(e)))
            return "internal-error"
    if expect_valid:
        if outcome == "returned":
            ctx.ev("valid-document-returned")
            if b.steps * 100 > limit:
                ctx.mark_inconclusive("budget headroom below 100x on a valid document (%d steps, limit %d, %s/%s)" % (
                    b.steps, limit, fmt, route))
        else:
            ctx.mark_inconclusive("valid corpus document rejected on route %s/%s" % (fmt, route))
    if outcome != "returned":
        return outcome
    ctx.ev("outcome:returned")
    # ---- returned: trees well formed
    for t in trees_of(route, result):
        probs = arbor.check(t)
        ctx.ev("tree-walked")
        if probs:
            ctx.violation("%s|malformed-tree|%s" % (fmt, probs[0]), "; ".join(probs), det)
    # ---- returned: matrices well formed
    delivered = matrices_of(route, result, nprior)
    for m in delivered:
        probs, ncells = O.walk_matrix(m)
        ctx.ev("matrix-walked")
        ctx.ev("matrix-cells-walked", ncells)
        for clause, what in probs:
            ctx.violation("%s|malformed-matrix|%s" % (fmt, clause), what, dict(det, matrix_type=type(m).__name__))
    # ---- returned: matrices against the dimensions the reader parsed / the text declares
    if fmt == "nexus":
        t_nchar = O.nexus_single_declaration(text, "NCHAR")
        t_ntax = O.nexus_single_declaration(text, "NTAX")
        for m in delivered:
            rec = mon.matrices.get(id(m))
            if rec is None:
                # every delivered NEXUS matrix is made by a MATRIX statement that returned: the hook was by-passed
                ctx.mark_inconclusive("delivered NEXUS matrix without a record of its MATRIX statement (%s)" % route)
                continue
            nrows, lens = shape_of(m)
            ctx.ev("dims-judged:nexus")
            mode = "interleaved" if rec["interleave"] else "sequential"
            nchar, ntax = rec["nchar"], rec["ntax"]
            d2 = dict(det, declared={"ntax": ntax, "nchar": nchar, "ntax_in_block": rec["ntax_in_block"],
                                     "text_nchar": t_nchar, "text_ntax": t_ntax, "taxa_before_matrix": rec["taxa_before"]},
                      found={"rows": nrows, "row_lengths": lens})
            if t_nchar is not None:
                ctx.ev("dims-text-judged:nexus")
                if nchar != t_nchar:
                    ctx.violation("nexus|reader-dimensions-differ-from-text|nchar",
                                  "reader parsed NCHAR=%s, the only NCHAR of the text says %d" % (nchar, t_nchar), d2)
                    nchar = t_nchar
            if t_ntax is not None and rec["ntax_in_block"]:
                ctx.ev("dims-text-judged:nexus")
                if ntax != t_ntax:
                    ctx.violation("nexus|reader-dimensions-differ-from-text|ntax",
                                  "reader parsed NTAX=%s, the only NTAX of the text says %d" % (ntax, t_ntax), d2)
                    ntax = t_ntax
            bad = [x for x in lens if x != nchar]
            if bad:
                kind = "short" if min(bad) < nchar else "long"
                ctx.violation("nexus|matrix-columns-contradict-nchar|%s|%s" % (mode, kind),
                              "returned matrix has rows of length %s, declared NCHAR=%s" % (lens, nchar), d2)
            if rec["ntax_in_block"]:
                ctx.ev("dims-judged:nexus-rows")
                if nrows != ntax:
                    side = "fewer" if nrows < ntax else "more"
                    what = "returned matrix has %d rows, the block's DIMENSIONS declared NTAX=%s" % (nrows, ntax)
                    before = rec["taxa_before"]
                    after = rec.get("taxa_after")
                    if after is None:
                        after = len(m.taxon_namespace._taxa)
                    if klass in ("valid", "valid-option"):
                        ctx.violation("nexus|valid-document-matrix-rows-differ-from-ntax|%s" % side, what + " (complete valid document)", d2)
                    elif side == "fewer":
                        # mechanism of the recorded defect: the library has no lower bound on the number of rows
                        ctx.violation("nexus|matrix-rows-contradict-ntax|fewer|%s" % mode, what, d2)
                    elif before is None:
                        ctx.mark_inconclusive("namespace size before the MATRIX statement was not observed")
                    elif after > max(before, ntax):
                        # the library's own upper bound (NexusReader._get_taxon refuses to create taxon number NTAX+1) failed
                        ctx.violation("nexus|matrix-created-taxa-beyond-ntax|%s" % mode,
                                      what + "; the MATRIX statement itself enlarged the namespace from %d to %d taxa" % (before, after), d2)
                    else:
                        # mechanism of the recorded defect: rows of taxa that existed before the MATRIX statement are not counted
                        ctx.violation("nexus|matrix-rows-contradict-ntax|more|rows-of-predefined-taxa", what, d2)
            else:
                ctx.note("nexus-rows-not-judged-ntax-from-taxa-block")
    elif fmt == "phylip":
        rd = mon.phylip_reader
        t_dims = O.phylip_text_dims(text)
        for m in delivered:
            if rd is None or rd.char_matrix is not m:
                ctx.mark_inconclusive("delivered PHYLIP matrix is not the one of the hooked reader (%s)" % route)
                continue
            nrows, lens = shape_of(m)
            ctx.ev("dims-judged:phylip")
            mode = "%s-%s" % ("strict" if rd.strict else "relaxed", "interleaved" if rd.interleaved else "sequential")
            ntax, nchar = rd.ntax, rd.nchar
            d2 = dict(det, declared={"ntax": ntax, "nchar": nchar, "text": t_dims}, found={"rows": nrows, "row_lengths": lens})
            if t_dims is not None:
                ctx.ev("dims-text-judged:phylip")
                if (ntax, nchar) != t_dims:
                    ctx.violation("phylip|reader-dimensions-differ-from-text",
                                  "reader parsed %s x %s, the head line of the text says %d x %d" % (ntax, nchar, t_dims[0], t_dims[1]), d2)
                    ntax, nchar = t_dims
            else:
                ctx.note("phylip-head-line-not-plain-dimensions-from-reader-only")
            bad = [x for x in lens if x != nchar]
            if bad:
                kind = "short" if min(bad) < nchar else "long"
                ctx.violation("phylip|matrix-columns-contradict-nchar|%s|%s" % (
                    "interleaved" if rd.interleaved else "sequential", kind),
                    "returned matrix (%s) has rows of length %s, header declared %s" % (mode, lens, nchar), d2)
            if nrows != ntax:
                ctx.violation("phylip|matrix-rows-contradict-ntax|%s" % ("fewer" if nrows < ntax else "more"),
                              "returned matrix has %d rows, header declared %s" % (nrows, ntax), d2)
    return outcome


def primary_route(fmt):
    return ROUTES[fmt][0]


def read_all_routes(ctx, d, text, routes=None, klass="generated", expect_valid=False):
    fmt = d["fmt"]
    outs = []
    for route in routes or ROUTES[fmt]:
        primary = route == primary_route(fmt)
        outs.append(read_and_judge(ctx, fmt, route, text, d["kw"], d["dtype"], klass, expect_valid and primary))
    return outs


def pick_routes(fmt, i, tier):
    """the primary route (DataSet.get for tree formats: reads trees and characters; the typed matrix for PHYLIP / FASTA)
    always; of the other routes one (quick; thorough: three for NEXUS, two for Newick) in rotation."""
    rs = ROUTES[fmt]
    rest = list(rs[1:])
    n = len(rest)
    k = 1 if tier == "quick" else {"nexus": 3, "newick": 2}.get(fmt, 1)
    picked = [rs[0]]
    for j in range(min(k, n)):
        r = rest[(i * k + j) % n]
        if r not in picked:
            picked.append(r)
    return tuple(picked)


def with_options(d, opts):
    """the document descriptor under reader options (later options win); 'data_type' selects the matrix type."""
    kw = dict(d["kw"] or {})
    dtype = d["dtype"]
    for name, fmts, okw in opts:
        kw.update(okw)
        if "data_type" in okw:
            dtype = okw["data_type"]
    return dict(d, kw=kw, dtype=dtype)


def draw_options(fmt, rng):
    pool = OPTIONS_OF[fmt]
    k = 1 if rng.random() < 0.7 else 2
    return [rng.choice(pool) for _ in range(k)]


def route_for_option(fmt, opt, i):
    """a route that the option reaches, in rotation"""
    rs = [r for r in ROUTES[fmt] if len(kw_keys(fmt, r, opt[2])) == len(opt[2])]
    return rs[i % len(rs)] if rs else primary_route(fmt)


# ---------------------------------------------------------------------------------------------------
def run_case(case, ctx):
    rng = random.Random("%s/%s" % (case["seed"], sorted((k, str(v)) for k, v in case.items())))
    kind = case["kind"]
    if kind == "directed":
        for fmt, text, kw, dtype in DIRECTED[case["lo"]:case["lo"] + DIRECTED_CHUNK]:
            d = {"fmt": fmt, "kw": kw or {}, "dtype": dtype}
            ctx.nontrivial((fmt, text))
            read_all_routes(ctx, d, text, klass="directed")
            ctx.ev("directed-read")
        return
    if kind == "directed-memory":
        if not _AS["set"]:
            ctx.mark_inconclusive("address-space limit not available: memory-follows-value witnesses not run")
            return
        for fmt, text, kw, dtype in DIRECTED_NEEDS_AS_LIMIT:
            ctx.nontrivial((fmt, text))
            read_and_judge(ctx, fmt, primary_route(fmt), text, kw or {}, dtype, klass="directed")
            ctx.ev("directed-memory-read")
        return
    if kind == "depth":
        for fmt, name, text in DEPTH:
            ctx.ev("depth-stress-read")
            ctx.nontrivial((fmt, text))
            read_and_judge(ctx, fmt, "treelist", text, {}, None, klass="depth")
        return
    docs = corpus(case["tier"], case["seed"])
    if kind == "valid":
        d = docs[case["doc"]]
        read_all_routes(ctx, d, d["text"], klass="valid", expect_valid=True)
        # ... and under every option on one route it reaches (an option may legitimately refuse the document: recorded only)
        for j, opt in enumerate(OPTIONS_OF[d["fmt"]]):
            d2 = with_options(d, [opt])
            out = read_and_judge(ctx, d["fmt"], route_for_option(d["fmt"], opt, j + case["doc"]), d["text"], d2["kw"], d2["dtype"],
                                 klass="valid-option")
            ctx.ev("valid-option-read")
            if out != "returned":
                ctx.note("valid-document-under-option-%s:%s" % (opt[0], out))
        if case["doc"] % 5 == 0:
            ctx.sample({"kind": "valid", "doc": d["id"], "text": brief(d["text"], 300)})
        return
    if kind == "prefix":
        d = docs[case["doc"]]
        pool = OPTIONS_OF[d["fmt"]]
        for i in range(case["lo"], case["hi"]):
            text = d["text"][:i]
            ctx.nontrivial((d["fmt"], text))
            outs = read_all_routes(ctx, d, text, pick_routes(d["fmt"], i, ctx.tier), klass="prefix")
            ctx.ev("prefix-read")
            if d.get("variant"):
                ctx.ev("prefix-read:newline-variant")
            if i % 4 == 0:
                # the end of the stream is where reader options branch: one option per 4th cut, the whole set per document
                opt = pool[(i // 4 + case["doc"]) % len(pool)]
                d2 = with_options(d, [opt])
                read_and_judge(ctx, d["fmt"], route_for_option(d["fmt"], opt, i // 4), text, d2["kw"], d2["dtype"], klass="prefix-option")
                ctx.ev("prefix-option-read")
        if case["lo"] == 48 and case["doc"] % 6 == 0:
            ctx.sample({"kind": "prefix", "doc": d["id"], "cut": i, "outcomes": outs})
        return
    if kind in ("edit", "random"):
        for j in range(case["n"]):
            if kind == "edit":
                d = docs[rng.randrange(len(docs))]
                text, what = U.edit(d["text"], d["fmt"], rng)
                if rng.random() < 0.4:
                    text, w2 = U.edit(text, d["fmt"], rng)
                    what += " + " + w2
            else:
                fmt = rng.choice(["nexus", "nexus", "nexus", "newick", "newick", "phylip", "fasta"])
                kw = {}
                if fmt == "phylip":
                    kw = {"strict": rng.random() < 0.5, "interleaved": rng.random() < 0.5}
                dtype = "dna"
                if fmt == "nexus":
                    dtype = rng.choice(["dna", "dna", "standard"])
                elif fmt in ("phylip", "fasta"):
                    dtype = rng.choice(DTYPES)
                d = {"fmt": fmt, "kw": kw, "dtype": dtype}
                text, what = U.random_tokens(fmt, rng), "random tokens"
            if rng.random() < 0.34:
                opts = draw_options(d["fmt"], rng)
                d = with_options(d, opts)
                what += " / options " + "+".join(o[0] for o in opts)
                ctx.ev("option-read")
                if any(k in d["kw"] for k in ("tree_offset", "collection_offset", "matrix_offset")):
                    ctx.ev("offset-option-read")
            if len(text) > 2048:
                text = text[:2048]
            ctx.nontrivial((d["fmt"], text))
            outs = read_all_routes(ctx, d, text, pick_routes(d["fmt"], j, ctx.tier), klass=kind)
            ctx.ev("%s-read" % kind)
            if case["i"] == 0 and j < 2:
                ctx.sample({"kind": kind, "format": d["fmt"], "what": what, "text": brief(text, 200), "outcomes": outs})
        return
    raise core.HarnessBug("unknown case kind %r" % kind)
