"""SumTrees workload of C06: real files, real worker processes (vf.props._c06_driver), serial run = baseline.

Per case: an option vector (burn-in incl. one that swallows whole files, weighted trees, node ages on ultrametric
sources, tip dates, edge-length policies, consensus threshold, summary target, quiet / progress-logging reader branch,
NEXUS / Newick sources, a source without trees, -m N / -M / -m 1) and a SCHEDULE: which worker's get() is served when
(= which worker reads which file, who is left with a sentinel only) and in which order the partial results are put
(= arrival order), or a natural run biased by delays, or the regression fault 'spurious queue.Empty on polls'.
Judged: outcome (both runs produce a summary or both reject the input), arrival log (every file exactly once, no tree
lost), and equality of everything the two runs report: bipartition table (all columns), per-split multisets of edge
lengths and node ages (extended output), topology frequency table, summary tree(s) with every node/edge annotation."""
import json
import os
import shutil
import subprocess
import sys
import tempfile

from .. import ref, gen, bridge, core
from ._c06_lib import close, sample_specs


# ------------------------------------------------------------------------------------------------ sources
def _nwk(n):
    t = ""
    if n[3]:
        t = "(" + ",".join(_nwk(c) for c in n[3]) + ")"
    if n[0] is not None:
        t += n[0]
    if n[2] is not None:
        t += ":%r" % float(n[2])
    return t


def write_tree_file(path, specs, token, fmt="nexus", weights=None):
    """trees file written by the harness (not by the library's writer)."""
    tok = {"R": "[&R] ", "U": "[&U] ", "": ""}[token]
    with open(path, "w") as f:
        if fmt == "nexus":
            f.write("#NEXUS\nbegin trees;\n")
        for i, s in enumerate(specs):
            w = "[&W %r] " % float(weights[i]) if weights is not None and weights[i] is not None else ""
            if fmt == "nexus":
                f.write("tree t%d = %s%s%s;\n" % (i, w, tok, _nwk(s)))
            else:
                f.write("%s%s%s;\n" % (w, tok, _nwk(s)))
        if fmt == "nexus":
            f.write("end;\n")


# ------------------------------------------------------------------------------------------------ outputs
def _num(v):
    if isinstance(v, (list, tuple)):
        return tuple(_num(x) for x in v)
    try:
        return float(v)
    except (TypeError, ValueError):
        return None if v is None else str(v)


def _same(x, y):
    if isinstance(x, tuple) or isinstance(y, tuple):
        return isinstance(x, tuple) and isinstance(y, tuple) and len(x) == len(y) and all(_same(a, b) for a, b in zip(x, y))
    if isinstance(x, float) and isinstance(y, float):
        return close(x, y)
    return x == y


def parse_table(path, list_column=None):
    """rows of a SumTrees .tsv keyed by (bitmask, leafset); identification / rendering columns dropped;
    list_column (edge-lengths / node-ages files) is parsed into a sorted multiset."""
    rows = {}
    with open(path) as f:
        hdr = f.readline().rstrip("\n").split("\t")
        for line in f:
            p = line.rstrip("\n").split("\t")
            r = dict(zip(hdr, p))
            vals = []
            for k in hdr:
                if k in ("bipartitionGroup", "bipartitionId", "bipartitionBitmask", "bipartitionLeafset", "newick"):
                    continue
                if k == list_column:
                    items = [x for x in r.get(k, "").split(",") if x != ""]
                    vals.append((k, tuple(sorted(_num(x) for x in items))))
                else:
                    vals.append((k, _num(r.get(k))))
            rows[(r["bipartitionBitmask"], r["bipartitionLeafset"])] = vals
    return rows


def tree_sigs(path, weights=False):
    """[(rooted, topology, {split: {annotation: value}}, {split: length}, weight)] of a NEXUS trees file."""
    import dendropy
    tl = dendropy.TreeList.get(path=path, schema="nexus", extract_comment_metadata=True, store_tree_weights=True)
    out = []
    for t in tl:
        spec, nodes = bridge.extract(t, with_nodes=True)
        rooted = bool(t.is_rooted)
        cl = dict((id(n), c) for n, c in ref.clades(spec))
        ann = {}
        lens = {}
        for s, nd in nodes:
            key = cl[id(s)] if rooted else ref.usplit(cl[id(s)], cl[id(spec)])
            d = ann.setdefault(key, {})
            for a in list(nd.annotations) + list(nd.edge.annotations):
                d[a.name] = _num(a.value)
            if nd.label is not None:
                d["<label>"] = _num(nd.label)
            if s[2] is not None:
                lens[key] = lens.get(key, 0) + s[2]
        out.append((rooted, ref.topology(spec, rooted), ann, lens, float(t.weight) if t.weight is not None else None))
    return out


def maximiser_is_unique(specs, weights, rooted, kind):
    """0 when several topologies share the highest product (kind 'mcct') / sum ('msct') of split supports, else the
    number of sampled trees that have the one best topology.
    From the definitions on the harness' own specs (non-trivial splits; the root split has support 1 everywhere):
    only then does the statement promise the same maximum credibility tree."""
    import math
    tot = float(sum(weights))
    if not specs or tot <= 0:
        return False
    per_tree = [ref.nontrivial_splits(s, rooted) for s in specs]
    ntax = len(ref.leaf_taxa(specs[0]))
    # Which splits enter a tree's score is the library's convention, not part of the statement: it leaves out what
    # Bipartition.is_trivial() calls trivial, and that (unrooted) notion also covers a ROOTED clade of all taxa but one.
    # The maximiser must be unique under both readings before the same summary tree is demanded (a tie under the
    # library's reading with a unique maximiser under the other one was a false alarm of an earlier version).
    conventions = [lambda x: True]
    if rooted:
        conventions.append(lambda x: len(x) < ntax - 1)
    verdicts = []
    for keep in conventions:
        count = {}
        for sp, w in zip(per_tree, weights):
            for x in sp:
                count[x] = count.get(x, 0.0) + w
        scores = {}
        for sp in per_tree:
            f = [count[x] / tot for x in sp if keep(x)]
            scores[sp] = sum(math.log(v) for v in f if v > 0) if kind == "mcct" else sum(f)
        best = max(scores.values())
        tops = [sp for sp, v in scores.items() if close(v, best) or abs(v - best) < 1e-6]
        if len(tops) != 1:
            return 0
        verdicts.append(tops[0])
    if any(v != verdicts[0] for v in verdicts):
        return 0
    return sum(1 for sp in per_tree if sp == verdicts[0])      # how many sampled trees carry that topology


# ------------------------------------------------------------------------------------------------ schedules
def worker_names(n):
    return ["Process-%d" % (i + 1) for i in range(n)]


def make_schedule(name, nfiles, nworkers, delay, rng):
    """-> (schedule dict for the driver, intended {worker: number of files} or None, intended arrival order or None)"""
    W = worker_names(nworkers)

    def gated(assign, put_order, sentinel_order=None):
        get_order = [W[a] for a in assign] + [W[i] for i in (sentinel_order or range(nworkers))]
        files_per = dict((w, 0) for w in W)
        for a in assign:
            files_per[W[a]] += 1
        return {"get_order": get_order, "put_order": [W[i] for i in put_order], "gate_timeout": 8.0}, files_per, [W[i] for i in put_order]

    rr = [k % nworkers for k in range(nfiles)]
    busy = sorted(set(rr))
    idle = [i for i in range(nworkers) if i not in busy]
    if name == "natural":
        return {}, None, None
    if name == "first-worker-reads-all/idle-report-first":
        return gated([0] * nfiles, list(range(1, nworkers)) + [0])
    if name == "first-worker-reads-all/idle-report-last":
        return gated([0] * nfiles, list(range(nworkers)))
    if name == "last-worker-reads-all/idle-report-first":
        return gated([nworkers - 1] * nfiles, list(range(nworkers)), sentinel_order=list(reversed(range(nworkers))))
    if name == "spread/idle-report-first":
        return gated(rr, idle + busy)
    if name == "spread/idle-report-last":
        return gated(rr, busy + idle)
    if name == "spread/idle-report-in-the-middle":
        return gated(rr, busy[:1] + idle + busy[1:])
    if name == "spread/reverse-arrival":
        return gated(rr, list(reversed(range(nworkers))), sentinel_order=list(reversed(range(nworkers))))
    if name == "random-assignment/random-arrival":
        assign = [rng.randrange(nworkers) for _ in range(nfiles)]
        return gated(assign, rng.sample(range(nworkers), nworkers), sentinel_order=rng.sample(range(nworkers), nworkers))
    if name == "staggered-delays":
        return {"workers": dict((W[i], {"pre": i * delay, "post": (nworkers - i) * delay}) for i in range(nworkers))}, None, None
    if name == "slow-reader":
        return {"workers": {W[0]: {"hold": 3 * delay}, W[-1]: {"pre": delay}}}, None, None
    if name == "spurious-empty-on-every-poll":
        # regression fault: only code that POLLS the work queue (get_nowait / timeout) can see it
        return {"workers": dict((w, {"spurious_empty": 1}) for w in W)}, None, None
    if name == "spurious-empty-on-first-worker":
        return {"workers": {W[0]: {"spurious_empty": 1}, W[-1]: {"pre": delay}}}, None, None
    raise ValueError(name)


SCHEDULES = ["natural", "first-worker-reads-all/idle-report-first", "first-worker-reads-all/idle-report-last",
             "last-worker-reads-all/idle-report-first", "spread/idle-report-first", "spread/idle-report-last",
             "spread/idle-report-in-the-middle", "spread/reverse-arrival", "random-assignment/random-arrival",
             "staggered-delays", "slow-reader", "spurious-empty-on-every-poll", "spurious-empty-on-first-worker"]


# ------------------------------------------------------------------------------------------------ one case
def run_sumtrees(ctx, case, rng):
    quick = ctx.tier == "quick"
    nfiles = case["nfiles"]
    mp = list(case["mp"])
    opts = case["opts"]
    rooted_opt = case["rooting"]        # "--rooted" | "--unrooted" | None
    token = case["token"]               # "R" | "U" | ""
    if rooted_opt is None and token == "":
        eff_rooted = False
    elif rooted_opt is not None:
        eff_rooted = rooted_opt == "--rooted"
    else:
        eff_rooted = token == "R"
    ages = opts.get("ages") if eff_rooted else None
    ntax = rng.choice([5, 6, 8])
    labels = [gen.tname(i) for i in range(ntax)]
    if mp == ["-M"]:
        nworkers = min(os.cpu_count() or 1, nfiles)
    else:
        nworkers = int(mp[1])
    serial_by_design = nfiles == 1 or nworkers <= 1     # documented: a single source / one process is analysed serially
    tmp = tempfile.mkdtemp(prefix="vf-c06-")
    try:
        files = []
        sizes = []
        all_specs = []
        fmt = opts.get("fmt", "nexus")
        empty_at = {"first": 0, "last": nfiles - 1, "middle": nfiles // 2}.get(opts.get("empty")) if nfiles >= 2 else None
        for k in range(nfiles):
            n = 0 if k == empty_at else rng.choice([1, 2, 4, 7])
            specs = sample_specs(rng, ntax, n, ages == "ultra", lengths=("dyadic", "ints", "unit"), names=labels)
            weights = [rng.choice([0.25, 0.5, 1.0, 2.0, 4.0]) for _ in specs] if opts.get("weighted") else None
            if weights and rng.random() < 0.3:
                weights[rng.randrange(len(weights))] = None      # a tree without weight token (default weight 1)
            # a source without trees is written as NEXUS (an empty Newick file is not a trees file)
            p = os.path.join(tmp, "f%d.%s" % (k, "nex" if (fmt == "nexus" or n == 0) else "nwk"))
            write_tree_file(p, specs, token, "nexus" if n == 0 else fmt, weights)
            files.append(p)
            sizes.append(n)
            all_specs.append((specs, weights))
        total = sum(sizes)
        nonempty_sizes = [n for n in sizes if n] or [0]
        b = opts.get("burnin", 0)
        if b == "swallow":
            b = min(nonempty_sizes)          # the smallest source(s) contribute nothing
        retained = sum(max(0, n - b) for n in sizes)
        common = (["-q"] if opts.get("quiet", True) else ["-g", "1"]) + ["-r", "-F", "nexus"]
        if rooted_opt:
            common.append(rooted_opt)
        if case.get("target"):
            common += ["-s", case["target"]]
        if b:
            common += ["-b", str(b)]
        if opts.get("weighted"):
            common.append("--weighted-trees")
        if ages:
            common.append("--summarize-node-ages")
        if ages == "tipdates":
            tip = dict((l, rng.choice([0.0, 0.25, 0.5, 1.0])) for l in labels if rng.random() < 0.6)
            tp = os.path.join(tmp, "tipages.json")
            with open(tp, "w") as f:
                json.dump(tip, f)
            common += ["--tip-ages", tp, "--tip-ages-format", "json", "-v", "0"]
        if opts.get("edges"):
            e = opts["edges"]
            if e in ("mean-age", "median-age") and not ages:
                e = "median-length"
            common += ["-e", e]
        if opts.get("minfreq") is not None and case.get("target") in (None, "consensus"):
            common += ["-f", str(opts["minfreq"])]
        if opts.get("pct"):
            common += ["-p", "-d", "1"]
        env = dict(os.environ)
        env["PYTHONPATH"] = core.VERIF
        env["VF_REPO_SRC"] = core.REPO_SRC

        def run(tag, extra, sched):
            log = os.path.join(tmp, tag + ".log.json")
            sp = os.path.join(tmp, tag + ".sched.json")
            with open(sp, "w") as f:
                json.dump(sched, f)
            args = [sys.executable, "-B", "-m", "vf.props._c06_driver", log, sp, "--"] + common + extra + \
                   ["-x", os.path.join(tmp, tag), "-o", os.path.join(tmp, tag + ".tre")] + files
            try:
                r = subprocess.run(args, cwd=tmp, env=env, stdout=subprocess.PIPE, stderr=subprocess.STDOUT, timeout=90)
            except subprocess.TimeoutExpired:
                return None, "timeout"
            if not os.path.exists(log):
                return None, "driver died: %s" % r.stdout.decode("utf-8", "replace")[-500:]
            with open(log) as f:
                return json.load(f), r.stdout.decode("utf-8", "replace")[-800:]
        ser, serout = run("ser", [], {})
        if ser is None:
            ctx.mark_inconclusive("serial sumtrees run: %s" % serout)
            return
        delay = 0.12 if quick else 0.2
        sname = case["sched"]
        if serial_by_design:
            sched, want_files, want_order = {}, None, None
        else:
            sched, want_files, want_order = make_schedule(sname, nfiles, nworkers, delay, rng)
        par, parout = run("par", mp, sched)
        det = {"files": nfiles, "file_sizes": sizes, "trees_total": total, "trees_retained": retained, "workers": nworkers,
               "rooting_option": rooted_opt, "token": token, "options": " ".join(common + mp), "schedule": sname, "sched": sched}
        if par is None:
            # a run that never finishes (workers retired / parent waits forever) or a dead driver: wall clock is not a verdict
            ctx.mark_inconclusive("parallel sumtrees run (schedule %s, %s): %s" % (sname, " ".join(mp), parout))
            return
        arr = par["arrivals"]
        det["arrival_log"] = arr
        det["gate"] = {"broken": par.get("gate_broken"), "timeouts": par.get("gate_timeouts")}
        sig = (tuple(sorted((a["worker"] or "?", len(a["files"] or [])) for a in arr)),
               tuple((a["worker"], a["n_trees"]) for a in arr))
        ctx.state(("sched", nfiles, nworkers, sig))
        # ---- outcome
        if ser["exit"] != 0:
            if par["exit"] != 0:
                if retained == 0:
                    ctx.ev("sumtrees-both-runs-reject-input")      # burn-in leaves nothing: documented error, both ways
                else:
                    ctx.violation("sumtrees|serial-run-fails", "serial run failed on a valid input: %s" % (ser.get("exception") or serout), det)
            else:
                ctx.violation("sumtrees|outcome-differs|serial-rejects-parallel-accepts",
                              "the serial run fails (%s) but the run with %s produces a summary" % ((ser.get("exception") or serout)[-200:], " ".join(mp)), det)
            return
        if par["exit"] != 0:
            raised = [a for a in arr if a.get("raised")]
            if raised:
                a = raised[0]
                kind = a["raised"].split(":")[0]
                empty_after = a["n_trees"] == 0 and a["master_len_before"] > 0
                ctx.violation("sumtrees|merge-raises|%s|%s" % (kind, "empty-partial-after-nonempty" if empty_after else "other"),
                              "collation of worker results raised %s" % a["raised"], det)
            elif empty_at == 0 and not arr:
                # own discriminator: the run dies before any worker is started when the FIRST source holds no tree
                ctx.violation("sumtrees|parallel-run-fails|first-source-without-trees",
                              "serial run summarises the sources, the run with %s fails: %s" % (" ".join(mp), (par.get("exception") or parout)[-300:]), det)
            else:
                ctx.violation("sumtrees|parallel-run-fails", "parallel run failed: %s" % (par.get("exception") or parout), det)
            return
        # ---- offline checks over the arrival log
        if serial_by_design:
            if arr:
                ctx.note("partial-results-collated-in-a-run-documented-as-serial")
            arr = []
            ctx.note("single-source-or-single-process-run-is-serial-by-design")
        else:
            ctx.ev("sumtrees-arrival-log-checked")
            seen_nonempty = False
            for i, a in enumerate(arr):
                if a["n_trees"] == 0 and seen_nonempty:
                    ctx.ev("sumtrees-idle-worker-arrived-after-nonempty")
                if a["n_trees"] == 0 and not seen_nonempty and i == 0 and len(arr) > 1:
                    ctx.ev("sumtrees-idle-worker-arrived-first")
                if a["n_trees"] > 0:
                    seen_nonempty = True
            if len(arr) != nworkers:
                # the collation protocol (one partial result per worker) is not part of the property: recorded only;
                # what it may break (files / trees lost, summary differs) is judged below
                ctx.note("sumtrees-arrivals-differ-from-number-of-workers")
            if want_files is not None:
                got_files = dict((a["worker"], len(a["files"] or [])) for a in arr)
                if got_files == want_files and [a["worker"] for a in arr] == want_order and not par.get("gate_broken"):
                    ctx.ev("sumtrees-enumerated-schedule-realised")
                else:
                    ctx.note("sumtrees-enumerated-schedule-not-realised")
            if par.get("gate_broken"):
                ctx.note("sumtrees-schedule-gate-timed-out")
            read = [f for a in arr for f in (a["files"] or [])]
            if sorted(read) != sorted(files):
                lost = sorted(set(files) - set(read))
                dup = sorted(f for f in set(read) if read.count(f) > 1)
                ctx.violation("sumtrees|files-not-read-exactly-once|%s" % ("lost" if lost else "duplicated"),
                              "files lost: %s, read twice: %s" % ([os.path.basename(x) for x in lost], [os.path.basename(x) for x in dup]), det)
                return
            if sum(a["n_trees"] for a in arr) != retained:
                ctx.violation("sumtrees|trees-lost-or-duplicated", "partial results hold %d trees, %d are retained after burn-in" % (
                    sum(a["n_trees"] for a in arr), retained), det)
                return
        # ---- summary equality: everything both runs report
        ctx.ev("sumtrees-parallel-run-compared")
        for flag, evn in ((b, "burnin"), (opts.get("weighted"), "weighted"), (ages, "node-ages"), (not opts.get("quiet", True), "logging-reader"),
                          (fmt == "newick", "newick"), (empty_at is not None, "source-without-trees"), (b and any(0 < n <= b for n in sizes), "burnin-swallows-a-source")):
            if flag and not serial_by_design:
                ctx.ev("sumtrees-compared:%s" % evn)
        ctx.nontrivial(("sumtrees", nfiles, nworkers, rooted_opt, token, sig, tuple(sorted((k, str(v)) for k, v in opts.items()))))
        for suffix, col, clause in (("bipartitions.tsv", None, "bipartition-table"), ("edge-lengths.tsv", "edgeLengths", "split-edge-lengths-multiset"),
                                    ("node-ages.tsv", "nodeAges", "split-node-ages-multiset")):
            sp, pp = os.path.join(tmp, "ser." + suffix), os.path.join(tmp, "par." + suffix)
            if not os.path.exists(sp) and not os.path.exists(pp):
                ctx.note("sumtrees-output-not-written:%s" % suffix)
                continue
            if os.path.exists(sp) != os.path.exists(pp):
                # SumTrees writes the per-split list files only when it holds such lists; a table whose lists are all
                # empty says the same as no table (merging leaves empty entries behind): recorded, not judged
                only = parse_table(sp if os.path.exists(sp) else pp, col)
                if col is not None and all(v == () for row in only.values() for (name, v) in row if name == col):
                    ctx.note("sumtrees-%s-with-empty-lists-written-by-one-run-only" % suffix)
                    continue
                ctx.violation("sumtrees|summary-differs|%s|file-missing" % clause, "only one of the runs wrote %s" % suffix, det)
                return
            st, pt = parse_table(sp, col), parse_table(pp, col)
            if set(st) != set(pt):
                ctx.violation("sumtrees|summary-differs|bipartition-set", "serial and parallel runs report different bipartitions (%s)" % suffix, det)
                return
            for k in st:
                for (name, x), (_, y) in zip(st[k], pt[k]):
                    if not _same(x, y):
                        ctx.violation("sumtrees|summary-differs|%s|%s" % (clause, name),
                                      "bipartition %s: %s serial %r parallel %r" % (k[0], name, x, y), det)
                        return
        stop, ptop = os.path.join(tmp, "ser.topologies.trees"), os.path.join(tmp, "par.topologies.trees")
        if os.path.exists(stop) and os.path.exists(ptop):
            a = dict((t[1], t[4]) for t in tree_sigs(stop))
            c = dict((t[1], t[4]) for t in tree_sigs(ptop))
            if set(a) != set(c) or any(not _same(a[k], c[k]) for k in a):
                ctx.violation("sumtrees|summary-differs|topology-frequencies", "topology frequency tables differ", det)
                return
        target = case.get("target")
        keep_lengths_comparable = True
        if target in ("mcct", "mcc", "msct"):
            kept = [(sp, (1.0 if (ws is None or ws[i] is None or not opts.get("weighted")) else ws[i]))
                    for specs_k, ws in all_specs for i, sp in enumerate(specs_k) if i >= b]
            n_best = maximiser_is_unique([x[0] for x in kept], [x[1] for x in kept], eff_rooted, "msct" if target == "msct" else "mcct")
            if n_best == 0:
                # several topologies share the highest score: which of them is reported is not promised
                ctx.note("sumtrees-summary-tree-not-compared:maximiser-not-unique")
                return
            ctx.ev("sumtrees-maximum-credibility-tree-compared")
            if n_best > 1 and opts.get("edges") == "keep":
                keep_lengths_comparable = False      # the lengths kept are those of whichever of the equal-topology trees came first
                ctx.note("sumtrees-kept-edge-lengths-not-compared:several-trees-with-the-best-topology")
        ser_tree = tree_sigs(os.path.join(tmp, "ser.tre"))
        par_tree = tree_sigs(os.path.join(tmp, "par.tre"))
        if len(ser_tree) != len(par_tree):
            ctx.violation("sumtrees|summary-differs|number-of-summary-trees", "", det)
            return
        for (r1, top1, ann1, len1, _), (r2, top2, ann2, len2, _) in zip(ser_tree, par_tree):
            if r1 != r2:
                ctx.violation("sumtrees|summary-differs|rooting", "summary tree rooting differs", det)
            elif top1 != top2:
                ctx.violation("sumtrees|summary-differs|topology", "summary tree topology differs", det)
            elif keep_lengths_comparable and (set(len1) != set(len2) or any(not close(len1[k], len2[k]) for k in len1)):
                ctx.violation("sumtrees|summary-differs|edge-lengths", "summary edge lengths differ", det)
            else:
                for k in ann1:
                    names = set(ann1[k]) | set(ann2.get(k, {}))
                    bad = sorted(n for n in names if not _same(ann1[k].get(n), ann2.get(k, {}).get(n)))
                    if bad:
                        clause = "supports" if "support" in bad else "annotation|%s" % bad[0]
                        ctx.violation("sumtrees|summary-differs|%s" % clause, "node/edge annotation %s: serial %r parallel %r" % (
                            bad[0], ann1[k].get(bad[0]), ann2.get(k, {}).get(bad[0])), det)
                        break
        if case["i"] < 4:
            ctx.sample({"kind": "sumtrees", "files": nfiles, "trees": total, "workers": nworkers, "options": " ".join(common + mp),
                        "schedule": sname, "arrival_log": [(a["worker"], a["n_trees"], [os.path.basename(f) for f in a["files"] or []]) for a in arr]})
    finally:
        shutil.rmtree(tmp, ignore_errors=True)
