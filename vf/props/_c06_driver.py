"""Driver for one monitored SumTrees run (own interpreter, started with subprocess + timeout).

    python -m vf.props._c06_driver LOG.json SCHED.json -- <sumtrees arguments>

The library's protocol (sumtrees.py, TreeProcessor.parallel_analyze_trees / TreeAnalysisWorker.run): the parent puts
every source and then one ``None`` sentinel per worker on the work queue; a worker blocks in ``work_queue.get()``,
reads the file it received, and retires on a sentinel; it then puts its TreeArray (or the exception it hit) on the
results queue; the parent collates with TreeArray.update in arrival order.  The suspension points are therefore
(1) every ``work_queue.get`` and (2) ``results_queue.put``.  Monkey-patches (inherited by the forked workers):

  * TreeAnalysisWorker.run -> work_queue / results_queue replaced by proxies.
      - SCHED["get_order"]  = [worker name, ...]: the k-th ``get`` that is served belongs to that worker (a worker waits
        at the suspension point until it is its turn) - this decides WHICH WORKER READS WHICH FILE and which worker is
        left with a sentinel only;  SCHED["put_order"] = [worker name, ...]: order in which results are put, i.e. the
        ARRIVAL ORDER of the partial results.  The turn counters are multiprocessing.Value objects created before the
        fork.  A turn that does not come within SCHED["gate_timeout"] seconds (protocol of the code under test differs
        from the one the schedule was written for, or a worker died) breaks the gate: everybody runs freely from then
        on and the log says so.  The gate never decides a verdict - the arrival log does.
      - SCHED["workers"][name] = {"pre": s, "hold": s, "post": s, "spurious_empty": n}: sleep before the first get,
        after every received file, before the put (natural, OS-decided schedules with a bias);  spurious_empty: the
        next n NON-BLOCKING polls of the work queue (get_nowait, get(block=False), get(timeout=...)) raise queue.Empty,
        which multiprocessing.Queue may legitimately do while the feeder thread has not flushed.  A blocking get()
        without timeout is never made to raise (it cannot, in the real queue).
      - records which files the worker read (attached to the TreeArray it sends back).
  * TreeArray.update in the parent -> arrival log (worker, n_trees, rooting of partial, len(master) before/after).
Delays and gates sit only where the program already yields (queue get, queue put)."""
import json
import queue
import sys
import time
import traceback


class Gate(object):
    """turn-taking over a shared counter: order[i] is the name whose operation is served i-th."""

    def __init__(self, order, counter, broken, timeouts, timeout):
        self.order = list(order or [])
        self.counter = counter
        self.broken = broken
        self.timeouts = timeouts
        self.timeout = timeout

    def wait(self, me):
        """True when this operation holds the turn (call done() afterwards)."""
        if not self.order:
            return False
        deadline = time.monotonic() + self.timeout
        while True:
            if self.broken.value:
                return False
            i = self.counter.value
            if i >= len(self.order):
                return False
            if self.order[i] == me:
                return True
            if time.monotonic() > deadline:
                self.broken.value = 1
                with self.timeouts.get_lock():
                    self.timeouts.value += 1
                return False
            time.sleep(0.002)

    def done(self):
        with self.counter.get_lock():
            self.counter.value += 1


class QueueProxy(object):
    def __init__(self, q, cfg, files_log, gate, me):
        self._q = q
        self._spurious = int(cfg.get("spurious_empty", 0))
        self._hold = cfg.get("hold", 0)
        self._files_log = files_log
        self._gate = gate
        self._me = me

    def _serve(self, fn, nonblocking):
        if nonblocking and self._spurious > 0:
            self._spurious -= 1
            raise queue.Empty()
        mine = self._gate.wait(self._me) if self._gate is not None else False
        try:
            item = fn()
        except queue.Empty:
            # a poll that found nothing does not use up the turn
            raise
        if mine:
            self._gate.done()
        if isinstance(item, str):
            self._files_log.append(item)
            if self._hold:
                time.sleep(self._hold)
        return item

    def get_nowait(self):
        return self._serve(self._q.get_nowait, True)

    def get(self, block=True, timeout=None):
        return self._serve(lambda: self._q.get(block, timeout), (not block) or timeout is not None)

    def __getattr__(self, name):
        return getattr(self._q, name)


class PutProxy(object):
    def __init__(self, q, delay, worker, gate, arrived):
        self._q = q
        self._delay = delay
        self._worker = worker
        self._gate = gate
        self._arrived = arrived

    def put(self, obj, *a, **kw):
        if self._delay:
            time.sleep(self._delay)
        try:
            obj.vf_files = list(self._worker._vf_files)
            obj.vf_worker = self._worker.name
        except Exception:
            pass
        mine = self._gate.wait(self._worker.name) if self._gate is not None else False
        before = self._arrived.value
        try:
            return self._q.put(obj, *a, **kw)
        finally:
            if mine:
                # the turn passes on when the parent has taken this result (it counts arrivals), so that the feeder
                # threads of two workers cannot overtake each other; bounded wait - a parent that does not collate
                # this result (exception object, other protocol) must not stall the schedule
                deadline = time.monotonic() + 1.0
                while self._arrived.value <= before and time.monotonic() < deadline:
                    time.sleep(0.002)
                self._gate.done()

    def __getattr__(self, name):
        return getattr(self._q, name)


def main(argv):
    log_path, sched_path = argv[0], argv[1]
    st_args = argv[argv.index("--") + 1:]
    with open(sched_path) as f:
        sched = json.load(f)
    from vf import core
    core.ensure_repo_on_path()
    import multiprocessing
    import dendropy
    from dendropy.application import sumtrees
    arrivals = []
    wcfg = sched.get("workers", {})
    timeout = float(sched.get("gate_timeout", 4.0))
    broken = multiprocessing.Value("i", 0)
    timeouts = multiprocessing.Value("i", 0)
    get_gate = Gate(sched.get("get_order"), multiprocessing.Value("i", 0), broken, timeouts, timeout)
    put_gate = Gate(sched.get("put_order"), multiprocessing.Value("i", 0), broken, timeouts, timeout)
    arrived = multiprocessing.Value("i", 0)
    orig_run = sumtrees.TreeAnalysisWorker.run

    def run(self):
        cfg = wcfg.get(self.name, {})
        self._vf_files = []
        self.work_queue = QueueProxy(self.work_queue, cfg, self._vf_files, get_gate, self.name)
        self.results_queue = PutProxy(self.results_queue, cfg.get("post", 0), self, put_gate, arrived)
        if cfg.get("pre"):
            time.sleep(cfg["pre"])
        return orig_run(self)
    sumtrees.TreeAnalysisWorker.run = run
    orig_update = dendropy.TreeArray.update

    def update(self, other):
        rec = {"worker": getattr(other, "vf_worker", getattr(other, "worker_name", None)),
               "files": getattr(other, "vf_files", None), "n_trees": len(other),
               "rooting": other._is_rooted_trees, "master_len_before": len(self),
               "master_rooting_before": self._is_rooted_trees}
        arrivals.append(rec)
        with arrived.get_lock():
            arrived.value += 1
        try:
            r = orig_update(self, other)
        except Exception as e:
            rec["raised"] = "%s: %s" % (type(e).__name__, e)
            raise
        rec["master_len_after"] = len(self)
        return r
    dendropy.TreeArray.update = update
    out = {"arrivals": arrivals, "exit": None, "exception": None}
    sys.argv = ["sumtrees.py"] + st_args
    try:
        sumtrees.main()
        out["exit"] = 0
    except SystemExit as e:
        out["exit"] = e.code if isinstance(e.code, int) else (0 if e.code is None else 1)
    except BaseException as e:
        out["exit"] = 1
        out["exception"] = "%s: %s" % (type(e).__name__, e)
        out["traceback"] = traceback.format_exc()[-2000:]
    out["gate_broken"] = bool(broken.value)
    out["gate_timeouts"] = int(timeouts.value)
    out["gets_served_in_turn"] = int(get_gate.counter.value)
    out["puts_served_in_turn"] = int(put_gate.counter.value)
    with open(log_path, "w") as f:
        json.dump(out, f)


if __name__ == "__main__":
    main(sys.argv[1:])
