"""Driver for one monitored SumTrees run (own interpreter, started with subprocess + timeout).

    python -m vf.props._c06_driver LOG.json SCHED.json -- <sumtrees arguments>

Monkey-patches (inherited by the forked workers):
  * TreeAnalysisWorker.run  -> sleeps SCHED[name]["pre"] before the worker touches the work queue,
    routes results_queue.put through a SCHED[name]["post"] delay, records which files the worker read
    (attached to the TreeArray it sends back), and - fault injection at the existing suspension point -
    makes work_queue.get_nowait() raise queue.Empty once if SCHED[name]["spurious_empty"] (which
    multiprocessing.Queue is documented to do while its feeder thread has not flushed yet);
  * TreeArray.update in the parent -> arrival log (worker, n_trees, rooting of partial, len(master) before).
Delays sit only where the program already yields (queue get, queue put)."""
import json
import queue
import sys
import time
import traceback


class QueueProxy(object):
    def __init__(self, q, spurious, files_log):
        self._q = q
        self._spurious = spurious
        self._files_log = files_log

    def get_nowait(self):
        if self._spurious > 0:
            self._spurious -= 1
            raise queue.Empty()
        item = self._q.get_nowait()
        self._note(item)
        return item

    def get(self, *a, **kw):
        item = self._q.get(*a, **kw)
        self._note(item)
        return item

    def _note(self, item):
        if isinstance(item, str):
            self._files_log.append(item)

    def __getattr__(self, name):
        return getattr(self._q, name)


class PutProxy(object):
    def __init__(self, q, delay, worker):
        self._q = q
        self._delay = delay
        self._worker = worker

    def put(self, obj, *a, **kw):
        if self._delay:
            time.sleep(self._delay)
        try:
            obj.vf_files = list(self._worker._vf_files)
            obj.vf_worker = self._worker.name
        except Exception:
            pass
        return self._q.put(obj, *a, **kw)

    def __getattr__(self, name):
        return getattr(self._q, name)


def main(argv):
    log_path, sched_path = argv[0], argv[1]
    st_args = argv[argv.index("--") + 1:]
    with open(sched_path) as f:
        sched = json.load(f)
    from vf import core
    core.ensure_repo_on_path()
    import dendropy
    from dendropy.application import sumtrees
    arrivals = []
    orig_run = sumtrees.TreeAnalysisWorker.run

    def run(self):
        cfg = sched.get(self.name, {})
        self._vf_files = []
        self.work_queue = QueueProxy(self.work_queue, int(cfg.get("spurious_empty", 0)), self._vf_files)
        self.results_queue = PutProxy(self.results_queue, cfg.get("post", 0), self)
        if cfg.get("pre"):
            time.sleep(cfg["pre"])
        return orig_run(self)
    sumtrees.TreeAnalysisWorker.run = run
    orig_update = dendropy.TreeArray.update

    def update(self, other):
        rec = {"worker": getattr(other, "vf_worker", getattr(other, "worker_name", None)),
               "files": getattr(other, "vf_files", None), "n_trees": len(other),
               "rooting": other._is_rooted_trees, "master_len_before": len(self),
               "master_rooting_before": self._is_rooted_trees}
        arrivals.append(rec)
        try:
            r = orig_update(self, other)
        except Exception as e:
            rec["raised"] = "%s: %s" % (type(e).__name__, e)
            raise
        rec["master_len_after"] = len(self)
        return r
    dendropy.TreeArray.update = update
    out = {"arrivals": arrivals, "exit": None, "exception": None}
    sys.argv = ["sumtrees.py"] + st_args
    try:
        sumtrees.main()
        out["exit"] = 0
    except SystemExit as e:
        out["exit"] = e.code if isinstance(e.code, int) else (0 if e.code is None else 1)
    except BaseException as e:
        out["exit"] = 1
        out["exception"] = "%s: %s" % (type(e).__name__, e)
        out["traceback"] = traceback.format_exc()[-2000:]
    with open(log_path, "w") as f:
        json.dump(out, f)


if __name__ == "__main__":
    main(sys.argv[1:])
