"""C04  Tree-to-tree distances equal their split-set definitions and are metrics.

Method: the real ``dendropy.calculate.treecompare`` functions, the deprecated ``Tree`` aliases and the deprecated public
module ``dendropy.treecalc`` (dendropy/legacy/treecalc.py) are wrapped by hooks.  The pre-hook extracts DendroPy-free
specs of BOTH argument trees from the raw child lists *before* the call (the functions re-encode bipartitions and
restructure the trees: unifurcations are suppressed, an unrooted basal bifurcation is collapsed) and takes the
reference split -> summed-length maps from ``vf.ref.split_lengths``.  The post-hook judges what the call returned or
raised.  Workloads only *call* the library; relations between several results (metric axioms) are judged afterwards
from the returned values.  A further hook on ``Tree.encode_bipartitions`` only records which trees carry which kind of
cached bipartition data (``_c04_hist.TreeStates``).

Oracle clauses (hook level, every observed call whose two trees share rooting state and leaf set):
  V1  symmetric_difference / unweighted_robinson_foulds_distance == |S1 ^ S2|
  V2  false_positives_and_negatives(ref, cmp) == (|S2 - S1|, |S1 - S2|)   (any 2-sequence of ints)
  V3  find_missing_bipartitions(ref, cmp) (documented: the bipartitions of the reference tree that the comparison tree
      lacks, i.e. the set behind the false-negative count), decoded through the namespace's taxon->bit map, == S1 - S2
  V4  weighted_robinson_foulds_distance == sum |l1(s) - l2(s)|,  euclidean_distance == sqrt(sum (l1(s) - l2(s))^2),
      absent split -> 0, lengths of all edges inducing one split summed (unary chains, unrooted basal bifurcation),
      root edge = the split {all | nothing}.  Exact when all lengths lie on the 1/1024 grid, else 1e-9 relative.
      Judged only when no non-root edge of either tree lacks a length.  With ``edge_weight_attr`` (``edge_length_attr``
      of the treecalc wrappers) naming another edge attribute the same definition is demanded of that attribute, but
      only for trees in which every split is induced by exactly one edge (the library sums *lengths* when it merges
      edges, nothing is said about other attributes).
  V5  an exception on a shared namespace is acceptable only as a refusal of missing lengths: a ValueError raised by a
      ``raise`` statement anywhere inside the library, from one of the weighted functions, and only if a non-root
      length really is missing.  Where and with which ValueError subclass it is raised is not prescribed.
  N   trees over different TaxonNamespace objects: every function must refuse (TaxonNamespaceIdentityError or another
      ValueError raised by a ``raise`` statement inside the library), with and without is_bipartitions_updated=True.
  F   default arguments: V1-V4 are demanded against the structure the trees have at the moment of the call, whatever was
      encoded / cached before (edit journal: NNI, SPR on node / on edge, collapse, resolve, unary insertion, length
      change incl. None and root edge, swapped leaf taxa, rooting toggled, the library's own reseed_at / reroot_at_edge /
      to_outgroup_position / suppress_unifurcations / collapse_unweighted_edges / resolve_polytomies / prune_taxa /
      clone, explicit encodes with all flag sets, calls with is_bipartitions_updated=True interleaved).
  U   is_bipartitions_updated=True: V1-V5 are demanded whenever the caller's side of the documented contract holds for
      BOTH trees: the tree was never encoded or its encoding is not stored (the functions then encode it themselves),
      or its last encode used default flags (explicit encode_bipartitions(), a distance call with default arguments
      that returned, a library method called with update_bipartitions=True that re-encoded with default flags) and its
      structure was not edited since (edge-length changes do not invalidate bipartitions).  This covers fresh trees,
      "encode once, then many calls", repeated and swapped calls on the same objects, and mixed pairs.  All other
      calls with the flag are stale by contract: executed, counted, not judged.
Relation clauses (workload level, from returned values of calls the hook did not already flag):
  S   d(a,b) and d(b,a): both defined or both refused; equal values (fp/fn mirrored)
  Z   d(t, re-drawing of t) == 0   (child order, unary nodes, unrooted: other seed node / seed on an edge)
  I   d(re-drawing of t, x) == d(t, x)
  T   d(a,c) <= d(a,b) + d(b,c)
  Z, I, T for the two weighted distances only among trees without missing lengths.
  Z'  the re-drawing made by the library itself (workload 'seedmove'): an unrooted tree, a harness-built twin, one to
      three of reseed_at / to_outgroup_position / reroot_at_edge(+ is_rooted = False); every primary distance between
      twin and moved tree is 0 in both orders.  Lengths complete, or half of the basal edge missing (nothing is then
      missing from the unrooted tree that is compared).

Soundness limits: with missing non-root lengths only S is judged for the weighted distances (the statement does not
say which value; whether a returned value equals "None counts as 0" is recorded as a note); rooting states are never
mixed in a pair; leaf sets are shared; the list returned by find_missing_bipartitions is compared as a set (a split
listed twice is recorded, not judged); value_type other than float is not driven.

A call the hook could not judge although the workload only builds judgeable pairs (malformed tree, leaf without taxon,
other leaf set, hook bypassed) makes the case INCONCLUSIVE instead of being skipped silently.

Known mechanisms are recognised from the situation, so that any other disagreement keeps a generic key:
  wdist|value-differs-from-definition|unrooted-basal-bifurcation-after-unifurcation-suppression  (resp. |unrooted-two-leaf-tree):
      the post-call tree is unrooted with a bifurcating seed AND the returned value equals the definition evaluated
      with only one of the two basal edge lengths kept for the basal split.
  wdist|defined-in-one-argument-order-only|refused-only-when-tree-with-missing-lengths-is-second-argument:
      only when the refused order's second tree lacks a length on a split it shares with the first tree and the other
      order's second tree does not lack all lengths of a shared split; any other asymmetry of definedness has its own key.
"""
import inspect
import linecache
import random

from .. import ref, gen, bridge, core
from ..mon.hooks import Hooks
from . import _c04_util as U
from . import _c04_hist as H

PROP = "C04"
LEVEL = "exploration"
TECHNIQUE = ("runtime monitoring: hooks on the treecompare functions, the Tree aliases and the dendropy.treecalc wrappers "
             "+ split-set reference oracle + cache-state tracking + object re-use, edit-journal and library-made seed-move workloads")
LEVEL_TEXT = ("Hooks around the real treecompare functions (and their Tree / dendropy.treecalc aliases) compare every "
              "observed result with the split-set definitions computed on DendroPy-free specs extracted before the call; "
              "metric axioms are judged on the returned values over generated pools, exhaustive small shapes (n = 1..5), "
              "re-used tree objects queried repeatedly with is_bipartitions_updated=True, and edit journals that mix node-"
              "level edits, the library's own restructuring methods, encodes and distance calls, and unrooted trees re-drawn by the "
              "library's own seed-moving methods (distance to a harness-built twin must be 0). The property held on the "
              "executions listed in the evidence file, nothing more.")
LEVEL_NOTE = ("Trusted: vf/ref.py (clades, split_lengths, reroot), the oracle code in vf/props/C04.py, _c04_util.py and "
              "_c04_hist.py, TaxonNamespace.taxon_bitmask for decoding returned Bipartition objects, CPython. Coverage is "
              "what the workload reached: n <= 5 exhaustive shapes, random n <= 12 (quick) / <= 50 (thorough).")
RULE = ("cases = directed witnesses | all rooted multifurcating shapes n<=5 (n=1: drawings of the one-leaf tree) paired (both "
        "rootings, length patterns) | random pools of 6-10 trees on one namespace and leaf set (base, re-drawings, NNI/SPR "
        "neighbours, other lengths, random; n = 1..12 / ..50) x all ordered pairs x {sd, fp/fn, wRF, Euclid} on fresh builds "
        "+ aliases (treecompare, Tree, dendropy.treecalc; custom weight attribute) + calls with is_bipartitions_updated=True "
        "on fresh / pre-encoded / storage-suppressed builds + a pass over ONE set of live objects (node API, parser or copy "
        "built) queried repeatedly, swapped, with and without the flag, with length edits in between | edit journals "
        "(node edits, library restructuring methods with and without update_bipartitions, encodes with all flag sets, "
        "rooting toggles, runs of flagged calls) | namespace-refusal cases; a pair is non-trivial when the two trees differ "
        "in a split or a split length, or are distinct drawings of one tree with >= 1 internal edge; distinct = distinct "
        "(canonical tree 1, ordered drawing of tree 2, rooting, operation)")
REACH = ["treecompare:symmetric_difference", "treecompare:false_positives_and_negatives",
         "treecompare:weighted_robinson_foulds_distance", "treecompare:euclidean_distance",
         "treecompare:find_missing_bipartitions", "treecompare:unweighted_robinson_foulds_distance",
         "treecompare:robinson_foulds_distance",
         "treecompare:_get_length_diffs", "treecompare:_bipartition_difference",
         "_tree:Tree.symmetric_difference", "_tree:Tree.false_positives_and_negatives",
         "_tree:Tree.robinson_foulds_distance", "_tree:Tree.euclidean_distance", "_tree:Tree.find_missing_splits",
         "treecalc:symmetric_difference", "treecalc:false_positives_and_negatives", "treecalc:robinson_foulds_distance",
         "treecalc:euclidean_distance", "treecalc:find_missing_splits",
         "_tree:Tree.encode_bipartitions", "_tree:Tree._get_bipartition_edge_map",
         "_tree:Tree.collapse_basal_bifurcation", "_tree:Tree.suppress_unifurcations", "_tree:Tree.reseed_at",
         "_tree:Tree.reroot_at_edge", "_tree:Tree.to_outgroup_position", "_tree:Tree.prune_taxa",
         "_tree:Tree.resolve_polytomies", "_tree:Tree.collapse_unweighted_edges",
         "_bipartition:Bipartition.__hash__", "_bipartition:Bipartition.__eq__"]
MIN_EVENTS = {}        # filled in below (after the operation tables)
ASSUMPTIONS = ["reference split -> length maps come from vf.ref.split_lengths on specs read from the raw child lists "
               "before each call; the root edge counts as the split {all taxa | nothing}",
               "TaxonNamespace.taxon_bitmask is taken as the given taxon->bit assignment when decoding the Bipartition "
               "objects returned by find_missing_bipartitions (its correctness is C01/C10)",
               "the node-level edit primitives (add_child / insert_child / remove_child, edge.length, node.taxon) and the "
               "library's restructuring methods are only used to produce histories; the reference re-reads the live "
               "structure before every distance call, and a journal ends (counted) when such a method leaves a tree "
               "outside the quantifier (leaf without taxon, other leaf set)",
               "is_bipartitions_updated=True is judged only when the harness itself saw the caller's side of the contract "
               "being met (tree never encoded / encoding not stored / last encode with default flags and no structural "
               "edit since, observed through a hook on Tree.encode_bipartitions); a refusal is any ValueError raised by a "
               "raise statement inside the library (source line of the innermost traceback frame)"]
CASE_TIMEOUT = 120

KIND = {
    "treecompare.symmetric_difference": "sd",
    "treecompare.unweighted_robinson_foulds_distance": "sd",
    "treecompare.false_positives_and_negatives": "fpfn",
    "treecompare.weighted_robinson_foulds_distance": "wrf",
    "treecompare.robinson_foulds_distance": "wrf",
    "treecompare.euclidean_distance": "euclid",
    "treecompare.find_missing_bipartitions": "missing",
    "Tree.symmetric_difference": "sd",
    "Tree.false_positives_and_negatives": "fpfn",
    "Tree.robinson_foulds_distance": "wrf",
    "Tree.euclidean_distance": "euclid",
    "Tree.find_missing_splits": "missing",
    "treecalc.symmetric_difference": "sd",
    "treecalc.false_positives_and_negatives": "fpfn",
    "treecalc.robinson_foulds_distance": "wrf",
    "treecalc.euclidean_distance": "euclid",
    "treecalc.find_missing_splits": "missing",
}
FN_OF_KIND = {"sd": "symmetric_difference", "fpfn": "false_positives_and_negatives",
              "wrf": "weighted_robinson_foulds_distance", "euclid": "euclidean_distance",
              "missing": "find_missing_bipartitions"}
K_BASAL = "wdist|value-differs-from-definition|unrooted-basal-bifurcation-after-unifurcation-suppression"
K_TWOLEAF = "wdist|value-differs-from-definition|unrooted-two-leaf-tree"
K_ASYM = "wdist|defined-in-one-argument-order-only|refused-only-when-tree-with-missing-lengths-is-second-argument"
K_ASYM_UNSHARED = "wdist|defined-in-one-argument-order-only|refused-though-second-argument-lacks-lengths-on-unshared-splits-only"
K_ASYM_DEFINED = "wdist|defined-in-one-argument-order-only|defined-though-second-argument-lacks-every-length-of-a-shared-split"
WATTR = "c04_weight"       # second numeric edge attribute (= 2 * length) for the edge_weight_attr option

_configured = [False]


def _quiet_deprecations():
    if not _configured[0]:
        from dendropy.utility import deprecate
        deprecate.configure_deprecation_warning_behavior("ignore")
        _configured[0] = True


# ==========================================================================================
# the monitor
class Monitor(object):
    def __init__(self, ctx):
        self.ctx = ctx
        self.last = None          # verdict of the most recent outermost hooked call (read by the workload)
        self.hist = {}            # id(tree) -> (tree, maps at the last judged encode)  [stale discriminator]
        self.states = H.TreeStates()
        self.nsamples = 0
        self._sigs = {}

    # -- installation -----------------------------------------------------------------------
    def install(self, hooks_mod, hooks_tree, hooks_legacy, hooks_enc):
        """three hook layers so that an alias AND the function it forwards to are both judged"""
        import dendropy
        from dendropy.calculate import treecompare
        from dendropy.legacy import treecalc
        owners = {"treecompare": (treecompare, hooks_mod), "Tree": (dendropy.Tree, hooks_tree),
                  "treecalc": (treecalc, hooks_legacy)}
        for tag in KIND:
            owner_name, name = tag.split(".")
            owner, hk = owners[owner_name]
            self._sigs[tag] = inspect.signature(inspect.getattr_static(owner, name))
            hk.install(owner, name, pre=self._mk_pre(tag), post=self._post, tag=tag)
        self.states.install(hooks_enc)

    def _mk_pre(self, tag):
        def pre(obj, args, kw):
            return self._pre(tag, obj, args, kw)
        return pre

    def track(self, tree):
        return self.states.track(tree)

    # -- pre: snapshot of both arguments before the library touches them -----------------------
    def _pre(self, tag, obj, args, kw):
        import dendropy
        self.states.depth += 1
        self.last = None
        snap = {"tag": tag, "kind": KIND[tag], "why": None}
        try:
            full = ([obj] if obj is not None else []) + list(args)
            ba = self._sigs[tag].bind(*full, **kw)
        except TypeError:
            snap["why"] = "bad-call-signature"
            return snap
        vals = list(ba.arguments.values())
        if len(vals) < 2:
            snap["why"] = "bad-call-signature"
            return snap
        t1, t2 = vals[0], vals[1]
        if not isinstance(t1, dendropy.Tree) or not isinstance(t2, dendropy.Tree):
            snap["why"] = "non-tree-argument"
            return snap
        snap["t1"], snap["t2"] = t1, t2
        snap["updated"] = bool(ba.arguments.get("is_bipartitions_updated", False))
        wattr = ba.arguments.get("edge_weight_attr", ba.arguments.get("edge_length_attr", "length"))
        snap["wattr"] = wattr
        snap["float_values"] = ba.arguments.get("value_type", float) is float
        snap["same_ns"] = t1.taxon_namespace is t2.taxon_namespace
        snap["st1"], snap["st2"] = self.states.get(t1), self.states.get(t2)
        snap["trusted"] = H.trusted(snap["st1"]) and H.trusted(snap["st2"])
        custom = snap["kind"] in ("wrf", "euclid") and wattr != "length"
        try:
            sp1 = _extract(t1, wattr if custom else None)
            sp2 = sp1 if t2 is t1 else _extract(t2, wattr if custom else None)
        except bridge.ExtractError:
            snap["why"] = "malformed-argument-tree"
            return snap
        r1, r2 = bool(t1._is_rooted), bool(t2._is_rooted)
        if r1 != r2:
            snap["why"] = "mixed-rooting-states"
            return snap
        if not (U.judgeable(sp1) and U.judgeable(sp2)):
            snap["why"] = "leaf-without-taxon-or-duplicate-taxon"
            return snap
        if set(ref.leaf_taxa(sp1)) != set(ref.leaf_taxa(sp2)):
            snap["why"] = "different-leaf-sets"
            return snap
        snap["rooted"] = r1
        snap["sp1"], snap["sp2"] = sp1, sp2
        snap["m1"], snap["miss1"] = U.split_maps(sp1, r1)
        snap["m2"], snap["miss2"] = (snap["m1"], snap["miss1"]) if t2 is t1 else U.split_maps(sp2, r2)
        if custom:
            snap["one_edge"] = H.one_edge_per_split(sp1, r1) and H.one_edge_per_split(sp2, r2)
        return snap

    def note_encoded(self, tree):
        """workload encoded the tree explicitly: remember the structure the cached bipartitions describe"""
        try:
            sp = bridge.extract(tree)
        except bridge.ExtractError:
            return
        self.hist[id(tree)] = (tree, U.split_maps(sp, bool(tree._is_rooted))[0])

    # -- post: the oracle -------------------------------------------------------------------------
    def _post(self, snap, obj, args, kw, result, exc):
        self.states.depth -= 1
        st = self.last = {"status": "unjudged", "value": result, "exc": exc, "refused": False}
        if isinstance(exc, core.CaseTimeout):
            return
        if snap is None or "same_ns" not in snap:
            self.ctx.note("call-not-judged:%s" % (snap["why"] if snap else "no-snapshot"))
            st["status"] = "outside-quantifier"
            st["why"] = snap["why"] if snap else "no-snapshot"
            return
        outcome = self._judge(snap, st, result, exc)
        self.states.after_call(snap["t1"], snap["t2"], snap["updated"], outcome)

    def _judge(self, snap, st, result, exc):
        """-> returned | refused | raised   (what the call did, for the state tracking)"""
        ctx = self.ctx
        tag, kind = snap["tag"], snap["kind"]
        t1, t2 = snap["t1"], snap["t2"]
        # discriminator of every key of a flagged call: what the two trees carried (unordered, coarse)
        flagged_call = ("|is_bipartitions_updated=True-after:%s" % "+".join(sorted(set(
            (_state_class(snap["st1"]), _state_class(snap["st2"]))))) if snap["updated"] else "")
        # N: different namespaces are refused
        if not snap["same_ns"]:
            ctx.ev("namespace-refusal-checked")
            if snap["updated"]:
                ctx.ev("namespace-refusal-checked:is_bipartitions_updated=True")
            if exc is None:
                st["status"] = "flagged"
                ctx.violation("%s|different-namespaces-not-refused" % tag,
                              "%s returned %r for trees over two TaxonNamespace objects" % (tag, _brief(result)),
                              self._detail(snap))
                return "returned"
            if not _is_refusal(exc):
                st["status"] = "flagged"
                ctx.unexpected(tag, exc, self._detail(snap))
                return "raised"
            st["status"] = "refused-namespace"
            return "refused"
        if snap["why"]:
            ctx.note("call-not-judged:%s" % snap["why"])
            st["status"] = "outside-quantifier"
            st["why"] = snap["why"]
            return "returned" if exc is None else "raised"
        if snap["updated"] and not snap["trusted"]:
            ctx.ev("flagged-call-stale-by-contract")
            st["status"] = "stale-by-contract"
            if exc is not None:
                ctx.note("exception-in-stale-by-contract-call:%s" % type(exc).__name__)
                return "raised"
            return "returned"
        if snap["updated"]:
            fresh = [x in ("fresh", "nostore") for x in (snap["st1"], snap["st2"])]
            ctx.ev("flagged-call-judged")
            ctx.ev("flagged-call-judged:%s" % ("nothing-stored" if all(fresh) else "mixed" if any(fresh) else "reused"))
        m1, m2 = snap["m1"], snap["m2"]
        missing_len = snap["miss1"] or snap["miss2"]
        if exc is not None:
            if kind in ("wrf", "euclid") and _is_length_refusal(exc):
                if missing_len:
                    ctx.ev("refusal-with-missing-lengths")
                    st["status"] = "refused"
                    st["refused"] = True
                    return "refused"
                st["status"] = "flagged"
                ctx.violation("%s|refused-although-no-length-is-missing|%s%s" % (tag, core.exc_key(exc), flagged_call),
                              "%s raised %s" % (tag, core.exc_brief(exc)), self._detail(snap))
                return "raised"
            st["status"] = "flagged"
            if snap["updated"]:
                ctx.violation("%s|unexpected-exception|%s%s" % (tag, core.exc_key(exc), flagged_call),
                              "%s raised %s" % (tag, core.exc_brief(exc)), self._detail(snap))
            else:
                ctx.unexpected(tag, exc, self._detail(snap))
            return "raised"
        exp = U.expected(m1, m2)
        prev1 = self.hist.get(id(t1))
        prev2 = self.hist.get(id(t2))
        self.hist[id(t1)] = (t1, m1)
        self.hist[id(t2)] = (t2, m2)

        def stale(pick):
            """does the result equal the definition evaluated on the structures last encoded?"""
            if prev1 is None and prev2 is None:
                return False
            o1 = prev1[1] if prev1 else m1
            o2 = prev2[1] if prev2 else m2
            if o1 == m1 and o2 == m2:
                return False
            try:
                return pick(U.expected(o1, o2))
            except Exception:
                return False

        got = None
        if kind == "sd":
            ctx.ev("value-judged:sd")
            if result != exp["sd"] or isinstance(result, bool):
                st["status"] = "flagged"
                disc = "|stale-bipartitions" if stale(lambda e: e["sd"] == result) else ""
                ctx.violation("%s|value-differs-from-definition%s%s" % (tag, disc, flagged_call),
                              "%s returned %r, |S1 ^ S2| = %d" % (tag, _brief(result), exp["sd"]), self._detail(snap))
            else:
                st["status"] = "ok"
        elif kind == "fpfn":
            ctx.ev("value-judged:fpfn")
            ok = (isinstance(result, (tuple, list)) and len(result) == 2 and tuple(result) == exp["fpfn"]
                  and not any(isinstance(x, bool) for x in result))
            if not ok:
                st["status"] = "flagged"
                disc = "|stale-bipartitions" if stale(lambda e: tuple(result) == e["fpfn"]) else ""
                ctx.violation("%s|value-differs-from-definition%s%s" % (tag, disc, flagged_call),
                              "%s returned %r, (|S2 - S1|, |S1 - S2|) = %r" % (tag, _brief(result), exp["fpfn"]),
                              self._detail(snap))
            else:
                st["status"] = "ok"
                if not isinstance(result, tuple):
                    ctx.note("false_positives_and_negatives-returned-a-%s" % type(result).__name__)
        elif kind == "missing":
            ctx.ev("value-judged:missing")
            got = self._decode(result, snap)
            if got is None or got[0] != exp["missing"]:
                st["status"] = "flagged"
                disc = "|stale-bipartitions" if (got is not None and stale(lambda e: got[0] == e["missing"])) else ""
                ctx.violation("%s|value-differs-from-definition%s%s" % (tag, disc, flagged_call),
                              "%s returned %s, S1 - S2 has %d splits" % (
                                  tag, "an undecodable result" if got is None else "%d distinct splits" % len(got[0]),
                                  len(exp["missing"])), self._detail(snap))
            else:
                st["status"] = "ok"
                st["value"] = len(got[0])
                if got[1]:
                    ctx.note("find_missing_bipartitions-lists-a-split-twice")
        else:
            custom = snap["wattr"] != "length"
            if not snap["float_values"]:
                ctx.note("call-with-value_type-other-than-float-not-judged")
                return "returned"
            if custom and not snap.get("one_edge"):
                ctx.note("call-with-custom-weight-attribute-not-judged:several-edges-induce-one-split")
                st["status"] = "defined-unjudged"
                return "returned"
            if missing_len:
                # the statement leaves the value open; the observed policy is only recorded
                ok0 = (not isinstance(result, bool) and isinstance(result, (int, float))
                       and U.close(result, exp[kind], U.on_grid(m1, m2)))
                ctx.note("weighted-value-with-missing-lengths-not-judged:%s" % (
                    "equals-None-counted-as-0" if ok0 else "differs-from-None-counted-as-0"))
                st["status"] = "defined-unjudged"
                return "returned"
            ctx.ev("value-judged:%s" % kind)
            if custom:
                ctx.ev("value-judged:custom-weight-attribute")
            exact = U.on_grid(m1, m2)
            if isinstance(result, bool) or not isinstance(result, (int, float)) or not U.close(result, exp[kind], exact):
                st["status"] = "flagged"
                key, why = self._classify_weighted(snap, result, exact, stale)
                if custom:
                    key += "|custom-edge_weight_attr"
                if key not in (K_TWOLEAF, K_BASAL):       # recognised mechanisms keep their recorded key
                    key += flagged_call
                ctx.violation(key,
                              "%s returned %r, definition gives %r%s" % (tag, _brief(result), exp[kind], why),
                              self._detail(snap))
            else:
                st["status"] = "ok"
        want = ("sd", "wrf", "fpfn", "euclid", "missing")[len(ctx.samples) % 5]
        if st["status"] == "ok" and self.nsamples < 1 and kind == want and (exp["sd"] > 0) and len(m1) > 5:
            self.nsamples += 1
            ctx.sample({"call": tag, "tree1": ref.to_newick(snap["sp1"]), "tree2": ref.to_newick(snap["sp2"]),
                        "rooted": snap["rooted"], "is_bipartitions_updated": snap["updated"],
                        "returned": _splits_text(got[0]) if kind == "missing" else _brief(result),
                        "definition": _splits_text(exp[kind]) if kind == "missing" else _brief(exp[kind])})
        return "returned"

    # -- helpers ------------------------------------------------------------------------------------
    def _detail(self, snap):
        d = {"call": snap["tag"], "is_bipartitions_updated": snap.get("updated"),
             "cache-state-of-the-trees": [snap.get("st1"), snap.get("st2")]}
        if snap.get("wattr", "length") != "length":
            d["weight-attribute"] = snap["wattr"]
        if "sp1" in snap:
            d.update({"rooted": snap["rooted"], "tree1": ref.to_newick(snap["sp1"])[:600],
                      "tree2": "<same object>" if snap["t2"] is snap["t1"] else ref.to_newick(snap["sp2"])[:600]})
        return d

    def _decode(self, result, snap):
        """Bipartition list -> (set of reference splits, has duplicates)"""
        if not isinstance(result, (list, tuple)):
            return None
        ns = snap["t1"].taxon_namespace
        bits = [(ns.taxon_bitmask(t), t.label) for t in ns]
        full = frozenset(ref.leaf_taxa(snap["sp1"]))
        out = []
        for b in result:
            lm = getattr(b, "_leafset_bitmask", None)
            if not isinstance(lm, int):
                return None
            c = frozenset(lbl for bit, lbl in bits if lm & bit)
            out.append(c if snap["rooted"] else ref.usplit(c, full))
        return frozenset(out), len(set(out)) != len(out)

    def _classify_weighted(self, snap, got, exact, stale):
        tag, kind = snap["tag"], snap["kind"]
        generic = "%s|value-differs-from-definition" % tag
        if isinstance(got, bool) or not isinstance(got, (int, float)):
            return generic + "|not-a-number", ""
        def or_stale():
            # only a discriminator; looked at last because on the length grid a stale value can coincide with another one
            if stale(lambda e: U.close(got, e[kind], exact)):
                return generic + "|stale-bipartitions", " (equals the definition on the previously encoded structures)"
            return generic, ""
        if snap["rooted"] or snap["t1"] is snap["t2"] or snap["wattr"] != "length":
            return or_stale()
        # known mechanism: unrooted tree left with a bifurcating seed; bipartition_edge_map keeps one of the two
        # basal edges, i.e. one of two lengths of the same split
        cands = []
        twoleaf = False
        for t, m in ((snap["t1"], snap["m1"]), (snap["t2"], snap["m2"])):
            var = [(m, False)]
            try:
                post = bridge.extract(t)
            except bridge.ExtractError:
                post = None
            if post is not None and len(post[3]) == 2 and not bool(t._is_rooted):
                cl = dict((id(n), c) for n, c in ref.clades(post))
                s = ref.usplit(cl[id(post[3][0])], cl[id(post)])
                if len(ref.leaves(post)) == 2:
                    twoleaf = True
                for keep in post[3]:
                    v = dict(m)
                    v[s] = keep[2] or 0
                    var.append((v, True))
            cands.append(var)
        for a, alt_a in cands[0]:
            for b, alt_b in cands[1]:
                if not (alt_a or alt_b):
                    continue
                if U.close(got, U.expected(a, b)[kind], exact):
                    return (K_TWOLEAF if twoleaf else K_BASAL), " (equals the definition with one basal edge length dropped)"
        return or_stale()


def _state_class(state):
    if state in ("fresh", "nostore"):
        return "nothing-stored"
    if state in ("clean:encode", "clean:call"):
        return "encoded"
    if state.startswith("clean:"):
        return "updated-by-%s" % state[6:]
    return state


def _extract(tree, wattr):
    """spec of a live tree; with ``wattr`` the value of that edge attribute stands in the length slot"""
    if wattr is None:
        return bridge.extract(tree)
    sp, nodes = bridge.extract(tree, with_nodes=True)
    for s, nd in nodes:
        s[2] = getattr(nd._edge, wattr, None) if isinstance(wattr, str) else None
    return sp


def _deliberate_raise(exc):
    """raised by a ``raise`` statement inside the library (not an accident such as a TypeError out of an operator, and
    not something thrown by harness code the library called)"""
    tb = exc.__traceback__
    last = None
    while tb is not None:
        last = tb
        tb = tb.tb_next
    if last is None or not core.raised_in_repo(exc):
        return False
    line = linecache.getline(last.tb_frame.f_code.co_filename, last.tb_lineno).strip()
    return line.startswith("raise ") or line == "raise"


def _is_refusal(exc):
    """N: the library deliberately refuses the pair"""
    return isinstance(exc, ValueError) and _deliberate_raise(exc)


def _is_length_refusal(exc):
    """V5: a deliberate ValueError that is not the namespace refusal; file, function and subclass are not prescribed"""
    from dendropy.utility import error
    return (isinstance(exc, ValueError) and not isinstance(exc, error.TaxonNamespaceIdentityError)
            and _deliberate_raise(exc))


def _splits_text(splits):
    def one(x):
        if x and all(isinstance(y, frozenset) for y in x):
            return " | ".join(sorted(",".join(sorted(side)) for side in x))
        return ",".join(sorted(x))
    return sorted(one(x) for x in splits)


def _brief(v):
    if isinstance(v, (list, tuple)) and len(v) > 6:
        return "<%s of %d>" % (type(v).__name__, len(v))
    if isinstance(v, (int, float, str, bool, type(None))):
        return v
    if isinstance(v, (list, tuple)):
        return [_brief(x) for x in v]
    if isinstance(v, frozenset):
        return "<%d splits>" % len(v)
    return repr(v)[:80]


# ==========================================================================================
# calling the library from the workload
def _ops():
    from dendropy.calculate import treecompare as tc
    from dendropy.legacy import treecalc as lc
    return {
        "sd": lambda a, b, **k: tc.symmetric_difference(a, b, **k),
        "fpfn": lambda a, b, **k: tc.false_positives_and_negatives(a, b, **k),
        "wrf": lambda a, b, **k: tc.weighted_robinson_foulds_distance(a, b, **k),
        "euclid": lambda a, b, **k: tc.euclidean_distance(a, b, **k),
        "missing": lambda a, b, **k: tc.find_missing_bipartitions(a, b, **k),
        "urf": lambda a, b, **k: tc.unweighted_robinson_foulds_distance(a, b, **k),
        "rf-legacy": lambda a, b, **k: tc.robinson_foulds_distance(a, b, **k),
        "T.sd": lambda a, b: a.symmetric_difference(b),
        "T.fpfn": lambda a, b: a.false_positives_and_negatives(b),
        "T.rf": lambda a, b: a.robinson_foulds_distance(b),
        "T.euclid": lambda a, b: a.euclidean_distance(b),
        "T.missing": lambda a, b: a.find_missing_splits(b),
        "L.sd": lambda a, b: lc.symmetric_difference(a, b),
        "L.fpfn": lambda a, b: lc.false_positives_and_negatives(a, b),
        "L.rf": lambda a, b, **k: lc.robinson_foulds_distance(a, b, **k),
        "L.euclid": lambda a, b, **k: lc.euclidean_distance(a, b, **k),
        "L.missing": lambda a, b: lc.find_missing_splits(a, b),
    }


PRIMARY = ("sd", "fpfn", "wrf", "euclid")
ALIASES = ("urf", "rf-legacy", "T.sd", "T.fpfn", "T.rf", "T.euclid", "T.missing",
           "L.sd", "L.fpfn", "L.rf", "L.euclid", "L.missing")
TAKES_FLAG = ("sd", "fpfn", "wrf", "euclid", "missing", "urf")
# operations that take the name of the edge attribute holding the weights, and the keyword they take it by
TAKES_ATTR = {"wrf": "edge_weight_attr", "euclid": "edge_weight_attr", "rf-legacy": "edge_weight_attr",
              "L.rf": "edge_length_attr", "L.euclid": "edge_length_attr"}
HOOK_OF_OP = {"urf": "treecompare.unweighted_robinson_foulds_distance", "rf-legacy": "treecompare.robinson_foulds_distance",
              "missing": "treecompare.find_missing_bipartitions",
              "T.sd": "Tree.symmetric_difference", "T.fpfn": "Tree.false_positives_and_negatives",
              "T.rf": "Tree.robinson_foulds_distance", "T.euclid": "Tree.euclidean_distance",
              "T.missing": "Tree.find_missing_splits",
              "L.sd": "treecalc.symmetric_difference", "L.fpfn": "treecalc.false_positives_and_negatives",
              "L.rf": "treecalc.robinson_foulds_distance", "L.euclid": "treecalc.euclidean_distance",
              "L.missing": "treecalc.find_missing_splits"}

# ---- vacuity guards: (quick, thorough) minima at roughly 40-50 % of what clean runs observe ------------------------
MIN_EVENTS.update({
    "value-judged:sd": (30000, 180000), "value-judged:fpfn": (30000, 180000),
    "value-judged:wrf": (20000, 120000), "value-judged:euclid": (20000, 120000),
    "value-judged:missing": (5000, 25000), "value-judged:custom-weight-attribute": (250, 1300),
    "symmetry-checked": (50000, 300000), "triangle-checked": (200000, 1400000),
    "redraw-zero-checked": (15000, 80000), "invariance-checked": (40000, 300000), "seedmove-zero-checked": (1200, 12000),
    "seedmove-start:half-of-the-basal-edge-missing": (80, 800),
    "journal-call-after-edit": (280, 4400),
    "namespace-refusal-checked": (5000, 30000), "namespace-refusal-checked:is_bipartitions_updated=True": (1700, 13000),
    "refusal-with-missing-lengths": (10000, 80000),
    "hook:treecompare.symmetric_difference:call": (30000, 180000),
    "hook:treecompare.find_missing_bipartitions:call": (8000, 50000),
    "hook:treecompare.unweighted_robinson_foulds_distance:call": (2600, 20000),
    # U: the flag on trees that carry nothing / a stored default encoding, object re-use
    "flagged-call-judged": (16000, 120000), "flagged-call-judged:nothing-stored": (2300, 14000),
    "flagged-call-judged:mixed": (2800, 17000), "flagged-call-judged:reused": (11000, 90000),
    "persistent-pass:call": (15000, 110000), "persistent-pass:flagged-call-judged-after-length-edit": (7000, 54000),
    "journal-flagged-call:judged": (850, 15000), "journal-flagged-call:judged-in-a-run": (500, 9000),
    "journal-flagged-call:judged-after-library-method-updated-bipartitions": (35, 900),
    "journal-flagged-call:stale-by-contract": (160, 2300),
    "built-through:parser": (1000, 7000), "built-through:copy": (1000, 7000),
    # input classes
    "single-leaf-pool": (10, 10), "pool:rooting-left-undefined": (35, 330),
    "redraw-member:child-order": (650, 3200), "redraw-member:unary": (650, 3200), "redraw-member:mixed": (650, 3200),
    "redraw-member:reseed": (250, 1200), "redraw-member:reseed-edge": (250, 1200),
    "journal-encode:default": (70, 1200),
})
for _op in ALIASES:
    MIN_EVENTS["alias-call:%s" % _op] = (350, 2200)                 # on a shared namespace, judged by value
    if _op != "urf":
        MIN_EVENTS["hook:%s:call" % HOOK_OF_OP[_op]] = (650, 4800)
for _v in ("fresh-same-labels", "shares-taxon-objects", "deepcopy-of-tree", "deepcopy-of-namespace"):
    MIN_EVENTS["namespace-variant:%s" % _v] = (35, 270)
for _e in ("suppress_unifurcations", "collapse_unrooted_basal_bifurcation", "is_bipartitions_mutable", "suppress_storage"):
    MIN_EVENTS["journal-encode:%s" % _e] = (15, 400)
for _e, _m in (("collapse", (75, 1200)), ("length", (250, 4000)), ("length-none", (40, 750)), ("nni", (70, 1100)),
               ("resolve", (55, 850)), ("root-length", (40, 800)), ("spr-child", (60, 1200)), ("spr-edge", (70, 1300)),
               ("swap-taxa", (50, 700)), ("toggle-rooting", (28, 600)), ("unary", (90, 1500)), ("lib:copy", (35, 650)),
               ("lib:collapse_unweighted_edges", (18, 300)), ("lib:collapse_unweighted_edges:update_bipartitions", (18, 330)),
               ("lib:prune_taxa", (22, 500)), ("lib:prune_taxa:update_bipartitions", (28, 520)),
               ("lib:reroot_at_edge", (25, 400)), ("lib:reroot_at_edge:update_bipartitions", (5, 130)),
               ("lib:reseed_at", (12, 210)), ("lib:reseed_at:update_bipartitions", (11, 230)),
               ("lib:resolve_polytomies", (15, 280)), ("lib:resolve_polytomies:update_bipartitions", (15, 300)),
               ("lib:suppress_unifurcations", (10, 280)), ("lib:suppress_unifurcations:update_bipartitions", (17, 320)),
               ("lib:to_outgroup_position", (18, 260)), ("lib:to_outgroup_position:update_bipartitions", (14, 270))):
    MIN_EVENTS["journal-edit:%s" % _e] = _m
for _e, _m in (("collapse_unweighted_edges", 60), ("prune_taxa", 60), ("reseed_at", 60), ("resolve_polytomies", 60),
               ("suppress_unifurcations", 60), ("reroot_at_edge", 30), ("to_outgroup_position", 30)):
    MIN_EVENTS["flagged-call-judged-after-library-method:%s" % _e] = (_m, _m)
del _op, _v, _e, _m


def dcall(ctx, mon, fn, a, b, **kw):
    """-> verdict dict of the hook (status/value/exc)"""
    mon.last = None
    try:
        v = fn(a, b, **kw)
        out = mon.last
        if out is None:
            # the route no longer goes through the hooked attributes: its oracle is gone
            ctx.ev("hook-bypassed")
            ctx.mark_inconclusive("a distance call did not pass through any hooked function: not judged")
            out = {"status": "unjudged", "value": v, "exc": None, "refused": False}
    except core.CaseTimeout:
        raise
    except Exception as e:
        out = mon.last
        if out is None or out.get("exc") is not e:
            ctx.unexpected("harness-call", e)
            out = {"status": "flagged", "value": None, "exc": e, "refused": False}
    if out["status"] == "outside-quantifier":
        # the workloads only build pairs inside the quantifier: something (an earlier library call?) changed a tree
        ctx.mark_inconclusive("call not judged although the workload built a judgeable pair: %s" % out.get("why"))
    return out


def set_weight_attr(tree):
    for nd in U.live_nodes(tree):
        e = nd.edge
        setattr(e, WATTR, None if e.length is None else 2 * e.length)


def make_ns(labels, rng, cfg=None):
    import dendropy
    labels = list(labels)
    cfg = cfg or rng.choice(["exact", "shuffled", "larger"])
    if cfg == "shuffled":
        rng.shuffle(labels)
    elif cfg == "larger":
        rng.shuffle(labels)
        labels = ["X0"] + labels[:len(labels) // 2] + ["X1"] + labels[len(labels) // 2:] + ["X2"]
    return dendropy.TaxonNamespace(labels)


def build_live(ctx, mon, spec, ns, rooted, rng=None, route="node-api"):
    """live tree for a spec, registered with the cache-state tracker.  route: node-api | parser | copy"""
    tree = None
    if route == "parser":
        tree = H.parse_tree(spec, ns, rooted)
        if tree is None:
            ctx.note("parser-route-not-usable-for-this-spec")
        else:
            ctx.ev("built-through:parser")
    if tree is None:
        tree = bridge.build_tree(ref.copy(spec), ns, rooted)
        if route == "copy":
            tree, how = H.lib_copy(tree, rng)
            ctx.ev("built-through:copy")
    return mon.track(tree)


PRE_STATES = ("fresh", "fresh", "fresh", "encode", "encode", "nostore")


def put_in_state(mon, tree, how):
    if how == "encode":
        tree.encode_bipartitions()
        mon.note_encoded(tree)
    elif how == "nostore":
        tree.encode_bipartitions(suppress_storage=True)


# ==========================================================================================
# pool engine: all ordered pairs x primary ops on fresh builds, then the relation clauses
def member(spec, rooted, group=None, how=None):
    m, miss = U.split_maps(spec, rooted)
    some, every = H.none_splits(spec, rooted) if miss else (frozenset(), frozenset())
    return {"spec": spec, "group": group, "how": how, "miss": miss, "grid": U.on_grid(m), "map": m,
            "none-some": some, "none-all": every,
            "internal": len(ref.nontrivial_splits(spec, rooted))}


def run_pool_engine(ctx, mon, members, ns, rooted, rng, alias_calls=4, missing_calls=6, self_pairs=True, pairs=None,
                    build_rooted="same", flag_calls=4, persist_calls=0):
    """rooted: rooting state for the reference; build_rooted: what the live trees get (None = rooting left undefined,
    which the library treats as unrooted)"""
    if build_rooted == "same":
        build_rooted = rooted
    ops = _ops()
    k = len(members)
    D = dict((op, {}) for op in PRIMARY)
    if pairs is None:
        pairs = [(i, j) for i in range(k) for j in range(k) if (i != j or self_pairs)]
    canon = [None] * k
    ordered = [None] * k

    def build(i):
        return mon.track(bridge.build_tree(ref.copy(members[i]["spec"]), ns, build_rooted))

    def reg(i, j, op):
        a, b = members[i], members[j]
        differ = a["map"] != b["map"]
        if differ or (i != j and a["internal"] >= 1):
            if canon[i] is None:
                canon[i] = core.short_hash(ref.canon(a["spec"]))
            if ordered[j] is None:
                ordered[j] = core.short_hash(ref.ordered(b["spec"]))
            ctx.nontrivial((op, rooted, canon[i], ordered[j]))

    for (i, j) in pairs:
        for op in PRIMARY:
            t1 = build(i)
            t2 = t1 if i == j else build(j)
            D[op][(i, j)] = dcall(ctx, mon, ops[op], t1, t2)
            reg(i, j, op)
    for _ in range(missing_calls):
        i, j = rng.choice(pairs)
        t1 = build(i)
        dcall(ctx, mon, ops["missing"], t1, t1 if i == j else build(j))
    for _ in range(alias_calls):
        i, j = rng.choice(pairs)
        t1 = build(i)
        t2 = t1 if i == j else build(j)
        op = rng.choice(ALIASES)
        kw = {}
        if op in TAKES_ATTR and rng.random() < 0.4:
            set_weight_attr(t1)
            set_weight_attr(t2)
            kw[TAKES_ATTR[op]] = WATTR
        dcall(ctx, mon, ops[op], t1, t2, **kw)
        ctx.ev("alias-call:%s" % op)
    # U: the flag on trees that carry nothing / a fresh default encoding / an encoding that was not stored
    for _ in range(flag_calls):
        i, j = rng.choice(pairs)
        t1 = build(i)
        t2 = t1 if i == j else build(j)
        for t in ([t1] if t1 is t2 else [t1, t2]):
            put_in_state(mon, t, rng.choice(PRE_STATES))
        r = dcall(ctx, mon, ops[rng.choice(TAKES_FLAG)], t1, t2, is_bipartitions_updated=True)
        if r["status"] == "stale-by-contract":
            ctx.mark_inconclusive("a flagged call on fresh builds was not judged (cache state %r)" % (
                [mon.states.get(t1), mon.states.get(t2)],))
    if persist_calls:
        run_persistent(ctx, mon, members, ns, build_rooted, rng, persist_calls, pairs)
    relations(ctx, D, members, rooted)
    return D


def run_persistent(ctx, mon, members, ns, build_rooted, rng, ncalls, pairs):
    """ONE set of live objects, queried again and again: repeated and swapped calls, with and without the flag, other
    partners, edge-length edits in between.  No structural edit is made, so every call is judged by the hook (U)."""
    ops = _ops()
    routes = ["node-api", "node-api", "node-api", "parser", "copy"]
    trees = []
    for m in members:
        t = build_live(ctx, mon, m["spec"], ns, build_rooted, rng, rng.choice(routes))
        put_in_state(mon, t, rng.choice(PRE_STATES))
        trees.append(t)
    menu = list(PRIMARY) * 3 + ["missing", "urf"]
    edited = False
    done = 0
    while done < ncalls:
        if rng.random() < 0.12:
            t = rng.choice(trees)
            if rng.random() < 0.8:
                U.edit_length(t, rng)
            else:
                H.edit_root_length(t, rng)
            ctx.ev("persistent-pass:length-edit")
            edited = True
            continue
        i, j = rng.choice(pairs)
        op = rng.choice(menu)
        seq = [(i, j, op)]
        r = rng.random()
        if r < 0.25:
            seq.append((i, j, op))                               # the same call once more
        elif r < 0.5:
            seq.append((j, i, op))                               # swapped
        elif r < 0.6:
            seq.append((i, j, rng.choice(("wrf", "euclid"))))    # other function, same pair
        for (x, y, o) in seq:
            kw = {"is_bipartitions_updated": True} if rng.random() < 0.75 else {}
            res = dcall(ctx, mon, ops[o], trees[x], trees[y], **kw)
            done += 1
            ctx.ev("persistent-pass:call")
            if kw:
                if res["status"] == "stale-by-contract":
                    # no structural edit was made: the only way here is an unexpected exception earlier (already flagged)
                    ctx.ev("persistent-pass:flagged-call-not-judged")
                elif edited:
                    ctx.ev("persistent-pass:flagged-call-judged-after-length-edit")


def _usable(*rs):
    return all(r is not None and r["status"] not in ("flagged", "outside-quantifier") for r in rs)


def relations(ctx, D, members, rooted):
    k = len(members)
    rt = "rooted" if rooted else "unrooted"

    def detail(*idx):
        return {"rooted": rooted, "trees": [ref.to_newick(members[i]["spec"])[:500] for i in idx]}

    def weighted_ok(*idx):
        return not any(members[i]["miss"] for i in idx)

    def exact(*idx):
        return all(members[i]["grid"] for i in idx)

    # S: symmetry of definedness and of value
    for op in PRIMARY:
        fn = FN_OF_KIND[op]
        for i in range(k):
            for j in range(i + 1, k):
                a, b = D[op].get((i, j)), D[op].get((j, i))
                if a is None or b is None:
                    continue
                if not _usable(a, b):
                    ctx.ev("relation-skipped-operand-already-flagged")
                    continue
                ctx.ev("symmetry-checked")
                da, db = a["exc"] is None, b["exc"] is None
                if da != db:
                    # (i, j) or (j, i) was refused: which argument order, and what does its second argument look like?
                    second = j if not da else i
                    first = i if not da else j
                    # recorded mechanism: only the second argument is validated, and only on the splits it shares with
                    # the first one.  Anything that this mechanism does not explain gets a key of its own.
                    shared = set(members[first]["map"]) & set(members[second]["map"])
                    if members[second]["miss"]:
                        if not (members[second]["none-some"] & shared):
                            key = K_ASYM_UNSHARED
                        elif members[first]["none-all"] & shared:
                            key = K_ASYM_DEFINED
                        else:
                            key = K_ASYM
                    elif members[first]["miss"]:
                        key = "%s|defined-in-one-argument-order-only|refused-only-when-tree-with-missing-lengths-is-first-argument" % fn
                    else:
                        key = "%s|defined-in-one-argument-order-only" % fn
                    ctx.violation(key, "%s(a, b) is %s but %s(b, a) is %s" % (
                        fn, "defined" if da else "refused", fn, "defined" if db else "refused"),
                        detail(first, second))
                    continue
                if not da:
                    continue
                va, vb = a["value"], b["value"]
                if op == "fpfn":
                    ok = tuple(va) == tuple(reversed(vb))
                elif op == "sd":
                    ok = va == vb
                else:
                    ok = U.close(va, vb, exact(i, j))
                if not ok:
                    ctx.violation("%s|value-not-symmetric|%s" % (fn, rt), "%s(a, b) = %r but %s(b, a) = %r" % (
                        fn, _brief(va), fn, _brief(vb)), detail(i, j))
    # Z and I: re-drawings
    groups = {}
    for i, m in enumerate(members):
        if m["group"] is not None:
            groups.setdefault(m["group"], []).append(i)
    for g in groups.values():
        for x in range(len(g)):
            for y in range(len(g)):
                if x == y:
                    continue
                i, j = g[x], g[y]
                how = members[j]["how"] or members[i]["how"] or "redraw"
                for op in PRIMARY:
                    r = D[op].get((i, j))
                    if r is None or r["exc"] is not None:
                        continue
                    if op in ("wrf", "euclid") and not weighted_ok(i, j):
                        continue
                    if not _usable(r):
                        ctx.ev("relation-skipped-operand-already-flagged")
                        continue
                    ctx.ev("redraw-zero-checked")
                    v = r["value"]
                    if op == "fpfn":
                        ok = tuple(v) == (0, 0)
                    elif op == "sd" or exact(i, j):
                        ok = v == 0
                    else:
                        scale = sum(abs(z) for z in members[i]["map"].values()) + 1.0
                        ok = abs(v) <= 1e-9 * scale
                    if not ok:
                        ctx.violation("%s|nonzero-between-redrawings|%s|%s" % (FN_OF_KIND[op], how, rt),
                                      "%s(t, re-drawing of t) = %r" % (FN_OF_KIND[op], _brief(v)), detail(i, j))
                if x < y:
                    for z in range(k):
                        if z in (i, j):
                            continue
                        for op in PRIMARY:
                            for pa, pb in (((i, z), (j, z)), ((z, i), (z, j))):
                                ra, rb = D[op].get(pa), D[op].get(pb)
                                if ra is None or rb is None or ra["exc"] is not None or rb["exc"] is not None:
                                    continue
                                if op in ("wrf", "euclid") and not weighted_ok(i, j, z):
                                    continue
                                if not _usable(ra, rb):
                                    ctx.ev("relation-skipped-operand-already-flagged")
                                    continue
                                ctx.ev("invariance-checked")
                                va, vb = ra["value"], rb["value"]
                                ok = (tuple(va) == tuple(vb)) if op == "fpfn" else (
                                    va == vb if op == "sd" else U.close(va, vb, exact(i, j, z)))
                                if not ok:
                                    ctx.violation("%s|changed-by-redrawing|%s|%s" % (FN_OF_KIND[op], how, rt),
                                                  "%s(t, x) = %r but %s(re-drawing of t, x) = %r" % (
                                                      FN_OF_KIND[op], _brief(va), FN_OF_KIND[op], _brief(vb)),
                                                  detail(i, j, z))
    # T: triangle inequality
    for op in ("sd", "wrf", "euclid"):
        d = D[op]
        for i in range(k):
            for j in range(k):
                if j == i:
                    continue
                for z in range(k):
                    if z == i or z == j:
                        continue
                    ac, ab, bc = d.get((i, z)), d.get((i, j)), d.get((j, z))
                    if ac is None or ab is None or bc is None:
                        continue
                    if ac["exc"] is not None or ab["exc"] is not None or bc["exc"] is not None:
                        continue
                    if op != "sd" and not weighted_ok(i, j, z):
                        continue
                    if not _usable(ac, ab, bc):
                        ctx.ev("relation-skipped-operand-already-flagged")
                        continue
                    ctx.ev("triangle-checked")
                    lhs, rhs = ac["value"], ab["value"] + bc["value"]
                    if lhs > rhs * (1 + 1e-9) + 1e-12:
                        ctx.violation("%s|triangle-inequality|%s" % (FN_OF_KIND[op], rt),
                                      "d(a,c) = %r > d(a,b) + d(b,c) = %r" % (lhs, rhs), detail(i, j, z))


# ==========================================================================================
# workloads
PATTERNS = ("dyadic", "ints", "zeros", "unit", "float", "none", "mixed_missing", "dyadic")


def cases(tier, seed):
    quick = tier == "quick"
    for name in DIRECTED:
        yield {"kind": "directed", "name": name}
    for n in (1, 2, 3, 4, 5):
        for idx in range(len(gen.all_shapes(n))):
            for rooted in (True, False):
                yield {"kind": "shapes", "n": n, "idx": idx, "rooted": rooted, "seed": seed, "tier": tier}
    for i in range(40 if quick else 300):
        yield {"kind": "ns", "i": i, "seed": seed}
    for i in range(700 if quick else 6000):
        yield {"kind": "pool", "i": i, "seed": seed, "tier": tier}
    for i in range(600 if quick else 10000):
        yield {"kind": "journal", "i": i, "seed": seed, "tier": tier}
    for i in range(400 if quick else 4000):
        yield {"kind": "seedmove", "i": i, "seed": seed, "tier": tier}


def run_case(case, ctx):
    core.ensure_repo_on_path()
    _quiet_deprecations()
    rng = random.Random("%s/%s" % (case.get("seed", 0), sorted(case.items())))
    mon = Monitor(ctx)
    with Hooks(ctx) as hooks_mod, Hooks(ctx) as hooks_tree, Hooks(ctx) as hooks_legacy, Hooks(None) as hooks_enc:
        mon.install(hooks_mod, hooks_tree, hooks_legacy, hooks_enc)
        kind = case["kind"]
        if kind == "directed":
            DIRECTED[case["name"]](ctx, mon, rng)
        elif kind == "shapes":
            run_shapes(ctx, mon, rng, case)
        elif kind == "pool":
            run_pool(ctx, mon, rng, case)
        elif kind == "journal":
            run_journal(ctx, mon, rng, case)
        elif kind == "ns":
            run_ns(ctx, mon, rng, case)
        elif kind == "seedmove":
            run_seedmove(ctx, mon, rng, case)
        else:
            raise core.HarnessBug("unknown case kind %r" % kind)


# ---- directed witnesses ---------------------------------------------------------------------------------------
S = ref.S


def _abc(la, lb, lc):
    return S(None, [S("A", length=la), S("B", length=lb), S("C", length=lc)])


def d_missing_asym(ctx, mon, rng):
    """wRF(t_with_lengths, t_without) raises, the swapped call returns 6.0"""
    for rooted in (True, False):
        ns = make_ns(["A", "B", "C"], rng, "exact")
        ms = [member(_abc(1, 2, 3), rooted), member(_abc(None, None, None), rooted)]
        run_pool_engine(ctx, mon, ms, ns, rooted, rng, alias_calls=0, missing_calls=0, self_pairs=False)
    ns = make_ns(["A", "B"], rng, "exact")
    ms = [member(S(None, [S("A", length=1), S("B", length=1)]), True), member(S(None, [S("A"), S("B")]), True)]
    run_pool_engine(ctx, mon, ms, ns, True, rng, alias_calls=0, missing_calls=0, self_pairs=False)


def d_basal_unary_root(ctx, mon, rng):
    """unrooted, unary seed: suppression exposes a basal bifurcation whose two edges share one split"""
    t = S(None, [S(None, [S("A", length=1), S(None, [S("B", length=2), S("C", length=4)], length=8)], length=16)])
    rd = S(None, [S("A", length=9), S("B", length=2), S("C", length=4)], length=16)
    for rooted in (False, True):
        ns = make_ns(["A", "B", "C"], rng, "exact")
        ms = [member(t, rooted, group=0), member(rd, rooted, group=0 if not rooted else None, how="unary")]
        run_pool_engine(ctx, mon, ms, ns, rooted, rng, alias_calls=2, missing_calls=2, self_pairs=False, persist_calls=8)


def d_basal_unary_child(ctx, mon, rng):
    """unrooted, bifurcating seed whose internal child is unary"""
    t = S(None, [S("A", length=1),
                 S(None, [S(None, [S("B", length=2), S("C", length=4), S("D", length=1)], length=3)], length=5)])
    rd = S(None, [S("A", length=9), S("B", length=2), S("C", length=4), S("D", length=1)])
    ns = make_ns(["A", "B", "C", "D"], rng, "exact")
    ms = [member(t, False, group=0), member(rd, False, group=0, how="unary")]
    run_pool_engine(ctx, mon, ms, ns, False, rng, alias_calls=2, missing_calls=2, self_pairs=False, persist_calls=8)


def d_two_leaf(ctx, mon, rng):
    a = S(None, [S("A", length=1), S("B", length=2)])
    b = S(None, [S("A", length=2), S("B", length=1)])
    for rooted in (False, True):
        ns = make_ns(["A", "B"], rng, "exact")
        run_pool_engine(ctx, mon, [member(a, rooted), member(b, rooted)], ns, rooted, rng,
                        alias_calls=2, missing_calls=2)


def d_single_leaf(ctx, mon, rng):
    """n = 1: the bare leaf as seed node, a unary seed above it, a unary chain; with, without and with other lengths"""
    for build_rooted in (True, False, None):
        rooted = bool(build_rooted)
        ns = make_ns(["A"], rng, "exact")
        ms = [member(sp, rooted, group=0, how="unary") for sp in H.single_leaf_drawings("A", 3.0, rng)]
        ms += [member(sp, rooted, group=1, how="unary") for sp in H.single_leaf_drawings("A", 5, rng)[:2]]
        ms.append(member(S("A"), rooted))
        run_pool_engine(ctx, mon, ms, ns, rooted, rng, alias_calls=6, missing_calls=3, build_rooted=build_rooted,
                        persist_calls=12)


def d_find_missing_splits(ctx, mon, rng):
    """deprecated aliases of find_missing_bipartitions: Tree.find_missing_splits, dendropy.treecalc.find_missing_splits"""
    ops = _ops()
    a = S(None, [S(None, [S("A", length=1), S("B", length=1)], length=1), S("C", length=1), S("D", length=1)])
    b = S(None, [S(None, [S("A", length=1), S("C", length=1)], length=1), S("B", length=1), S("D", length=1)])
    for rooted in (True, False):
        ns = make_ns(["A", "B", "C", "D"], rng, "exact")
        for op in ("T.missing", "L.missing", "missing"):
            dcall(ctx, mon, ops[op], build_live(ctx, mon, a, ns, rooted), build_live(ctx, mon, b, ns, rooted))


def d_legacy_module(ctx, mon, rng):
    """every function of the deprecated public module dendropy.treecalc, both argument orders"""
    ops = _ops()
    a = S(None, [S(None, [S("A", length=1), S("B", length=2)], length=4), S("C", length=1), S("D", length=1)])
    b = S(None, [S(None, [S(None, [S("A", length=1), S("C", length=1)], length=1), S("B", length=1)], length=2),
                 S("D", length=1)])
    for rooted in (True, False):
        ns = make_ns(["A", "B", "C", "D"], rng, "exact")
        for op in ("L.sd", "L.fpfn", "L.rf", "L.euclid", "L.missing"):
            for x, y in ((a, b), (b, a)):
                dcall(ctx, mon, ops[op], build_live(ctx, mon, x, ns, rooted), build_live(ctx, mon, y, ns, rooted))
                if op in TAKES_ATTR:
                    t1, t2 = build_live(ctx, mon, x, ns, rooted), build_live(ctx, mon, y, ns, rooted)
                    set_weight_attr(t1)
                    set_weight_attr(t2)
                    dcall(ctx, mon, ops[op], t1, t2, **{TAKES_ATTR[op]: WATTR})


def d_encode_once_call_often(ctx, mon, rng):
    """the usage of every docstring example: encode once, then many calls with is_bipartitions_updated=True"""
    ops = _ops()
    a = S(None, [S(None, [S("A", length=1), S("B", length=2)], length=3), S(None, [S("C", length=4), S("D", length=5)], length=6)])
    b = S(None, [S(None, [S("A", length=2), S("C", length=2)], length=1), S(None, [S("B", length=4), S("D", length=1)], length=2)])
    c = S(None, [S("A", length=1), S(None, [S("B", length=1), S(None, [S("C", length=1), S("D", length=1)], length=1)], length=1)])
    for rooted in (True, False):
        for pre in ("encode", "fresh", "nostore", "default-call"):
            ns = make_ns(["A", "B", "C", "D"], rng, "exact")
            ts = [build_live(ctx, mon, x, ns, rooted) for x in (a, b, c)]
            for t in ts:
                put_in_state(mon, t, pre)
            if pre == "default-call":
                dcall(ctx, mon, ops["wrf"], ts[0], ts[1])
                dcall(ctx, mon, ops["sd"], ts[1], ts[2])
            for op in ("wrf", "wrf", "euclid", "sd", "fpfn", "missing", "urf", "wrf"):
                for i, j in ((0, 1), (0, 1), (1, 0), (1, 2), (2, 0), (0, 0)):
                    dcall(ctx, mon, ops[op], ts[i], ts[j], is_bipartitions_updated=True)
            U.edit_length(ts[1], rng)
            H.edit_root_length(ts[0], rng)
            for op in ("wrf", "euclid"):
                for i, j in ((0, 1), (1, 0), (1, 2)):
                    dcall(ctx, mon, ops[op], ts[i], ts[j], is_bipartitions_updated=True)


def d_library_methods_update_bipartitions(ctx, mon, rng):
    """restructuring methods of the library called with update_bipartitions=True, then calls with
    is_bipartitions_updated=True (the documented way to avoid a re-encode); also after an earlier flagged call has made
    the tree cache its bipartition -> edge map"""
    ops = _ops()
    a = S(None, [S(None, [S(None, [S("A", length=1), S("B", length=2)], length=4)], length=8),
                 S(None, [S("C", length=1), S("D", length=0)], length=0), S("E", length=1), S("F", length=2)])
    b = S(None, [S(None, [S("A", length=1), S("C", length=1)], length=1), S("B", length=1),
                 S(None, [S("D", length=1), S("E", length=3), S("F", length=1)], length=2)])
    labels = ["A", "B", "C", "D", "E", "F"]
    for rooted in (True, False):
        for kind in sorted(H.LIB_EDITS) + ["prune_taxa"]:
            for first_state in ("encode", "keep-unary", "fresh"):
                for warm in (False, True):
                    ns = make_ns(labels, rng, "exact")
                    t1, t2 = build_live(ctx, mon, a, ns, rooted), build_live(ctx, mon, b, ns, rooted)
                    if first_state == "keep-unary":
                        t1.encode_bipartitions(suppress_unifurcations=False)
                    else:
                        put_in_state(mon, t1, first_state)
                    put_in_state(mon, t2, "encode")
                    if warm:
                        # makes both trees build and cache their bipartition -> edge maps
                        dcall(ctx, mon, ops["wrf"], t1, t2, is_bipartitions_updated=True)
                    alive = list(labels)
                    done = journal_lib_edit(ctx, mon, random.Random(rng.random()), [t1, t2] if kind == "prune_taxa" else [t1],
                                            kind, rooted, alive, force_update=True)
                    if done in (None, "ended"):
                        continue
                    for op in ("wrf", "euclid", "sd", "fpfn", "missing", "wrf"):
                        for x, y in ((t1, t2), (t2, t1)):
                            res = dcall(ctx, mon, ops[op], x, y, is_bipartitions_updated=True)
                            if res["status"] != "stale-by-contract":
                                ctx.ev("flagged-call-judged-after-library-method:%s" % kind)


def d_stale_minimal(ctx, mon, rng):
    """call, edit, call again with default arguments"""
    ops = _ops()
    a = S(None, [S(None, [S("A", length=1), S("B", length=1)], length=2), S("C", length=1),
                 S(None, [S("D", length=1), S("E", length=1)], length=4)])
    for rooted in (True, False):
        ns = make_ns(["A", "B", "C", "D", "E"], rng, "exact")
        t1 = build_live(ctx, mon, a, ns, rooted)
        t2 = build_live(ctx, mon, a, ns, rooted)
        for op in PRIMARY + ("missing", "T.sd", "T.rf", "L.sd", "L.euclid"):
            dcall(ctx, mon, ops[op], t1, t2)
            done = U.apply_edit(t1, random.Random(5), "nni") or U.apply_edit(t1, random.Random(5), "spr-edge")
            mon.states.structural_edit(t1)
            ctx.ev("journal-edit:%s" % done)
            ctx.ev("journal-call-after-edit")
            dcall(ctx, mon, ops[op], t1, t2)
            U.apply_edit(t2, random.Random(7), "length")
            ctx.ev("journal-call-after-edit")
            dcall(ctx, mon, ops[op], t2, t1)


def d_namespaces(ctx, mon, rng):
    run_ns(ctx, mon, random.Random(0), {"i": -1})


DIRECTED = {
    "missing-lengths-one-order-only": d_missing_asym,
    "unrooted-unary-root-basal-bifurcation": d_basal_unary_root,
    "unrooted-unary-child-of-bifurcating-root": d_basal_unary_child,
    "unrooted-two-leaf-tree": d_two_leaf,
    "single-leaf-trees": d_single_leaf,
    "deprecated-find_missing_splits": d_find_missing_splits,
    "deprecated-module-treecalc": d_legacy_module,
    "encode-once-call-often": d_encode_once_call_often,
    "library-methods-update-bipartitions": d_library_methods_update_bipartitions,
    "stale-after-edit-minimal": d_stale_minimal,
    "different-namespaces": d_namespaces,
}


# ---- exhaustive small shapes -------------------------------------------------------------------------------------
def run_shapes(ctx, mon, rng, case):
    n, idx, rooted = case["n"], case["idx"], case["rooted"]
    shapes = gen.all_shapes(n)
    names = ["T%d" % i for i in range(n)]
    if n == 1:
        return run_single_leaf_shapes(ctx, mon, rng, rooted)
    if n <= 4:
        js = list(range(len(shapes)))
    else:
        js = rng.sample(range(len(shapes)), 6 if case.get("tier", ctx.tier) == "quick" else 24)
    ns = make_ns(names, rng)
    for j in js:
        pattern = PATTERNS[(idx + j) % len(PATTERNS)]
        a = gen.decorate_lengths(gen.shape_to_spec(shapes[idx], names), rng, pattern, root_length=(j % 5 == 0))
        b = gen.decorate_lengths(gen.shape_to_spec(shapes[j], names), rng, pattern, root_length=(j % 7 == 0))
        how = rng.choice(U.redraw_kinds(rooted))
        a2 = U.redraw(a, rng, rooted, how)
        ctx.ev("redraw-member:%s" % how)
        ms = [member(a, rooted, group=0), member(b, rooted), member(a2, rooted, group=0, how=how)]
        run_pool_engine(ctx, mon, ms, ns, rooted, rng, alias_calls=1, missing_calls=2,
                        self_pairs=(j == js[0]), flag_calls=1, persist_calls=6 if j % 3 == 0 else 0)


def run_single_leaf_shapes(ctx, mon, rng, rooted):
    """n = 1: every drawing of the one-leaf tree x every length pattern, paired with another length / no length"""
    ns = make_ns(["T0"], rng)
    for pattern in sorted(set(PATTERNS)):
        la = gen.decorate_lengths(S("T0"), rng, pattern, root_length=True)[2]
        lb = gen.decorate_lengths(S("T0"), rng, pattern, root_length=True)[2]
        ms = [member(sp, rooted, group=0, how="unary") for sp in H.single_leaf_drawings("T0", la, rng)]
        ms += [member(sp, rooted, group=1, how="unary") for sp in H.single_leaf_drawings("T0", lb, rng)[:3]]
        ms.append(member(S("T0"), rooted))
        ctx.ev("single-leaf-pool")
        run_pool_engine(ctx, mon, ms, ns, rooted, rng, alias_calls=4, missing_calls=2, flag_calls=3, persist_calls=10,
                        build_rooted=rooted if rooted or pattern != "unit" else None)


# ---- random pools ------------------------------------------------------------------------------------------------
def run_pool(ctx, mon, rng, case):
    quick = case.get("tier", ctx.tier) == "quick"
    n = rng.choice([1, 2, 3, 4, 5, 6, 6, 8, 8, 10, 12]) if quick else rng.choice([1, 2, 3, 5, 7, 10, 14, 20, 30, 50])
    build_rooted = rng.choice([True, True, True, True, False, False, False, None])
    rooted = bool(build_rooted)
    names = ["T%d" % i for i in range(n)]
    pattern = rng.choice(PATTERNS + ("one-without", "signed"))
    p_unary = rng.choice([0, 0, 0, 0.15])
    root_len = rng.random() < 0.25
    if build_rooted is None:
        ctx.ev("pool:rooting-left-undefined")

    def deco(sp, pat=None):
        pat = pat or pattern
        if pat == "one-without":
            pat = "dyadic"
        if pat == "signed":
            for nd in ref.preorder(sp):
                nd[2] = rng.randint(-32, 64) / 8.0 if (nd is not sp or root_len) else None
            return sp
        return gen.decorate_lengths(sp, rng, pat, root_length=root_len)

    base = deco(gen.random_spec(rng, n, p_poly=rng.choice([0, 0.25, 0.5]), p_unary=p_unary, names=names,
                                shape=rng.choice([None, None, None, "caterpillar", "balanced"])))
    ms = [member(base, rooted, group=0)]
    kinds = U.redraw_kinds(rooted)
    for _ in range(2):
        how = rng.choice(kinds)
        ctx.ev("redraw-member:%s" % how)
        ms.append(member(U.redraw(base, rng, rooted, how), rooted, group=0, how=how))
    # same topology, other lengths
    ms.append(member(deco(U.redraw(base, rng, rooted, "child-order")), rooted))
    nb = gen.nni(base, rng)
    ms.append(member(nb if rng.random() < 0.5 else deco(nb), rooted))
    sp = gen.spr(nb if rng.random() < 0.5 else base, rng)
    ms.append(member(sp, rooted))
    other = deco(gen.random_spec(rng, n, p_poly=0.3, p_unary=p_unary, names=names))
    ms.append(member(other, rooted, group=1))
    if rng.random() < 0.5:
        how = rng.choice(kinds)
        ctx.ev("redraw-member:%s" % how)
        ms.append(member(U.redraw(other, rng, rooted, how), rooted, group=1, how=how))
    if pattern == "one-without":
        ms.append(member(gen.decorate_lengths(U.redraw(base, rng, rooted, "child-order"), rng, "none"), rooted))
        ms.append(member(gen.decorate_lengths(ref.copy(sp), rng, "mixed_missing"), rooted))
    ns = make_ns(names, rng)
    pairs = None
    if n > 20:
        k = len(ms)
        allp = [(i, j) for i in range(k) for j in range(k)]
        keep = set(rng.sample(allp, len(allp) // 2))
        keep |= set((j, i) for (i, j) in list(keep))
        pairs = sorted(keep)
    run_pool_engine(ctx, mon, ms, ns, rooted, rng, alias_calls=8, missing_calls=6, pairs=pairs, build_rooted=build_rooted,
                    flag_calls=6, persist_calls=36)


ENCODE_FLAGS = ({}, {}, {}, {"suppress_unifurcations": False}, {"collapse_unrooted_basal_bifurcation": False},
                {"is_bipartitions_mutable": True}, {"suppress_storage": True})
JOURNAL_EDITS = U.EDITS + U.EDITS + tuple(H.MORE_EDITS)
JOURNAL_LIB_EDITS = tuple(sorted(H.LIB_EDITS)) + ("prune_taxa", "copy", "toggle-rooting")


# ---- edit journals -----------------------------------------------------------------------------------------------
def run_journal(ctx, mon, rng, case):
    ops = _ops()
    quick = case.get("tier", ctx.tier) == "quick"
    n = rng.choice([1, 2, 3, 4, 5, 6, 6, 8, 8, 10]) if quick else rng.choice([1, 2, 3, 4, 5, 6, 8, 12, 18, 25])
    rooted = rng.random() < 0.5
    names = ["T%d" % i for i in range(n)]
    alive = list(names)
    ns = make_ns(names, rng)
    k = rng.choice([2, 2, 3])
    pat_menu = ["dyadic", "dyadic", "dyadic", "ints", "zeros", "dyadic", "ints", "zeros", "mixed_missing", "none"]
    trees = []
    for _ in range(k):
        sp = gen.random_spec(rng, n, p_poly=rng.choice([0, 0.3]), p_unary=rng.choice([0, 0, 0.1]), names=names)
        gen.decorate_lengths(sp, rng, rng.choice(pat_menu), root_length=rng.random() < 0.2)
        trees.append(build_live(ctx, mon, sp, ns, rooted, rng, rng.choice(["node-api", "node-api", "node-api", "parser", "copy"])))
    st = mon.states
    last_edit = "init"
    allops = list(PRIMARY) * 4 + ["missing", "missing"] + list(ALIASES)

    def stale(*idx):
        return any(st.get(trees[i]) in ("dirty", "other", "keep-unary", "copy") for i in idx)

    def pair():
        if k == 1 or rng.random() < 0.05:
            i = rng.randrange(k)
            return i, i
        return tuple(rng.sample(range(k), 2))

    for step in range(rng.randint(6, 16)):
        r = rng.random()
        if r < 0.30:
            i = rng.randrange(k)
            kind = rng.choice(JOURNAL_EDITS)
            if kind in H.MORE_EDITS:
                fn, structural = H.MORE_EDITS[kind]
                done = fn(trees[i], rng)
            else:
                done = U.apply_edit(trees[i], rng, kind)
                structural = kind != "length"
            if done:
                if structural:
                    st.structural_edit(trees[i])
                last_edit = done
                ctx.ev("journal-edit:%s" % done)
        elif r < 0.42:
            kind = rng.choice(JOURNAL_LIB_EDITS)
            done = journal_lib_edit(ctx, mon, rng, trees, kind, rooted, alive)
            if done == "ended":
                return
            if done == "toggle-rooting":
                rooted = not rooted
            if done:
                last_edit = "lib:" + done
        elif r < 0.48:
            i = rng.randrange(k)
            # explicit encode, sometimes with non-default flags: a later call with default arguments must not care
            flags = rng.choice(ENCODE_FLAGS)
            trees[i].encode_bipartitions(**flags)
            mon.note_encoded(trees[i])
            ctx.ev("journal-encode:%s" % (",".join(sorted(flags)) or "default"))
            last_edit = "encode"
        elif r < 0.62:
            # a run of calls with is_bipartitions_updated=True (the hook judges those whose trees are not stale)
            if rng.random() < 0.6:
                for t in trees:
                    if not H.trusted(st.get(t)) and rng.random() < 0.8:
                        t.encode_bipartitions()
                        mon.note_encoded(t)
            i, j = pair()
            op = rng.choice(TAKES_FLAG)
            for rep in range(rng.randint(1, 4)):
                s1, s2 = st.get(trees[i]), st.get(trees[j])
                res = dcall(ctx, mon, ops[op], trees[i], trees[j], is_bipartitions_updated=True)
                if res["status"] == "stale-by-contract":
                    ctx.ev("journal-flagged-call:stale-by-contract")
                else:
                    ctx.ev("journal-flagged-call:judged")
                    if rep:
                        ctx.ev("journal-flagged-call:judged-in-a-run")
                    for s_ in (s1, s2):
                        if s_.startswith("clean:") and s_ not in ("clean:encode", "clean:call"):
                            ctx.ev("journal-flagged-call:judged-after-library-method-updated-bipartitions")
                    ctx.transition(("flagged", s1, s2, op, rooted))
                x = rng.random()
                if x < 0.3:
                    i, j = j, i
                elif x < 0.5:
                    j = rng.randrange(k)
                elif x < 0.75:
                    op = rng.choice(TAKES_FLAG)
                if rng.random() < 0.15:
                    U.edit_length(trees[rng.choice((i, j))], rng)
                    ctx.ev("journal-edit:length")
        else:
            i, j = pair()
            op = rng.choice(allops)
            if stale(i, j):
                ctx.ev("journal-call-after-edit")
            ctx.transition((last_edit, op, rooted))
            r_ = dcall(ctx, mon, ops[op], trees[i], trees[j])
            if n <= 10 and r_["status"] == "ok":
                try:
                    ctx.state((rooted, ref.canon(bridge.extract(trees[i]), lengths=False),
                               ref.canon(bridge.extract(trees[j]), lengths=False)))
                except bridge.ExtractError:
                    pass
            ctx.nontrivial(("journal", case.get("i"), case.get("seed"), step, op))


def journal_lib_edit(ctx, mon, rng, trees, kind, rooted, alive, force_update=False):
    """one edit made through the library's own methods.  -> label | None (not applicable) | "ended" (journal over)"""
    st = mon.states
    k = len(trees)
    if kind == "toggle-rooting":
        for t in trees:
            t.is_rooted = not rooted
            st.structural_edit(t)              # every cached Bipartition now has the wrong rooting semantics
        ctx.ev("journal-edit:toggle-rooting")
        return "toggle-rooting"
    if kind == "copy":
        i = rng.randrange(k)
        was = st.get(trees[i])
        try:
            new, how = H.lib_copy(trees[i], rng)
        except core.CaseTimeout:
            raise
        except Exception as e:
            ctx.note("journal-ended:library-edit-raised:copy:%s" % type(e).__name__)
            return "ended"
        trees[i] = new
        st.set(new, "fresh" if was == "fresh" else "copy")
        if not H.inside_quantifier(new, alive):
            ctx.note("journal-ended:library-edit-left-a-tree-outside-the-quantifier:copy")
            return "ended"
        ctx.ev("journal-edit:lib:copy")
        return "copy"
    if kind == "prune_taxa":
        if len(alive) < 4:
            return None
        gone = rng.sample(alive, rng.choice([1, 1, 2]))
        targets = list(range(k))
    else:
        gone = []
        targets = [rng.randrange(k)]
    label = None
    for i in targets:
        t = trees[i]
        ub = force_update or rng.random() < 0.5
        was = st.get(t)
        seen = st.encodes
        try:
            if kind == "prune_taxa":
                t.prune_taxa([tx for tx in t.taxon_namespace if tx.label in gone], update_bipartitions=ub)
                label = "prune_taxa"
            else:
                label = H.LIB_EDITS[kind](t, rng, ub)
        except core.CaseTimeout:
            raise
        except Exception as e:
            # not this property's business; but the tree may be half-edited: stop here, visibly
            ctx.note("journal-ended:library-edit-raised:%s:%s" % (kind, type(e).__name__))
            return "ended"
        if label is None:
            return None
        if kind == "reroot_at_edge" and not rooted:
            t.is_rooted = False                # reroot_at_edge makes the tree rooted; the journal is an unrooted one
            ub = False
        if ub and st.encodes > seen:
            now = st.get(t)                    # set by the encode hook from the flags the method used
            if now == "clean:encode":
                st.set(t, "clean:%s" % label)
        elif ub and label == "suppress_unifurcations" and (H.trusted(was) and was not in ("fresh", "nostore")
                                                           or was == "keep-unary"):
            # documented: "If True then the bipartitions encoding will be calculated" (maintained in place).  Not trusted
            # when the suppression exposed a basal bifurcation on an unrooted tree: only an encode collapses that one.
            if rooted or len(t._seed_node._child_nodes) != 2:
                st.set(t, "clean:suppress_unifurcations")
            else:
                st.set(t, "other")
        else:
            if st.encodes > seen and st.get(t) != "unknown":
                st.set(t, "dirty")
            else:
                st.structural_edit(t)
        ctx.ev("journal-edit:lib:%s%s" % (label, ":update_bipartitions" if ub else ""))
    if gone:
        for g in gone:
            alive.remove(g)
    for t in trees:
        if not H.inside_quantifier(t, alive):
            ctx.note("journal-ended:library-edit-left-a-tree-outside-the-quantifier:%s" % kind)
            return "ended"
    return label


# ---- Z through the library's own seed moving -----------------------------------------------------------------------
SEEDMOVES = ("reseed_at", "to_outgroup_position", "reroot_at_edge")


def run_seedmove(ctx, mon, rng, case):
    """"unchanged ... for unrooted trees, by moving the seed node": the re-drawing is made by the library itself
    (reseed_at / to_outgroup_position / reroot_at_edge followed by is_rooted = False, with and without
    update_bipartitions, one to three moves in a row) on an unrooted tree, and every primary distance between a
    harness-built twin of the tree as it was and the moved tree must be 0, in both argument orders.  The pool engine
    only sees re-drawings the harness draws.  Length patterns: complete ones, and 'half of the basal edge missing'
    (one child edge of a bifurcating seed has no length: the unrooted tree has that edge once, with the other
    half's length, so no length is missing from the tree that is compared) - the situation in which a move has to
    merge a length into an edge without one.  Trees with other missing lengths are left to clause S."""
    ops = _ops()
    quick = case.get("tier", ctx.tier) == "quick"
    n = rng.choice([3, 4, 5, 6, 8]) if quick else rng.choice([3, 4, 5, 6, 8, 12, 20])
    names = ["T%d" % i for i in range(n)]
    sp = gen.random_spec(rng, n, p_poly=rng.choice([0, 0, 0.3]), p_unary=0, names=names,
                         shape=rng.choice([None, None, "caterpillar", "balanced"]))
    pat = rng.choice(["dyadic", "dyadic", "ints", "zeros"])
    gen.decorate_lengths(sp, rng, pat, root_length=False)
    half = None
    if len(sp[3]) == 2 and rng.random() < 0.6:
        half = rng.choice(sp[3])
        half[2] = None
        ctx.ev("seedmove-start:half-of-the-basal-edge-missing")
    ns = make_ns(names, rng)
    twin = build_live(ctx, mon, sp, ns, False, rng, "node-api")
    t = build_live(ctx, mon, sp, ns, False, rng, rng.choice(["node-api", "node-api", "parser", "copy"]))
    if rng.random() < 0.4:
        put_in_state(mon, t, "encode")
    done = []
    for _ in range(rng.choice([1, 1, 2, 3])):
        kind = rng.choice(SEEDMOVES)
        ub = rng.random() < 0.5
        try:
            label = H.LIB_EDITS[kind](t, rng, ub)
        except core.CaseTimeout:
            raise
        except Exception as e:
            ctx.note("seedmove-ended:library-edit-raised:%s:%s" % (kind, type(e).__name__))    # C03 / C07 judge this
            return
        if label is None:
            continue
        if kind == "reroot_at_edge":
            t.is_rooted = False
        mon.states.structural_edit(t)
        done.append("%s%s" % (label, ":update_bipartitions" if ub else ""))
        ctx.ev("seedmove:%s" % done[-1])
    if not done:
        return
    if not H.inside_quantifier(t, names):
        ctx.note("seedmove-ended:library-edit-left-the-tree-outside-the-quantifier")
        return
    det = {"tree": ref.to_newick(sp)[:500], "moves": done, "rooted": False,
           "moved": ref.to_newick(bridge.extract(t))[:500]}
    scale = sum(abs(x[2]) for x in ref.preorder(sp) if x[2] is not None) + 1.0
    for op in PRIMARY:
        for a, b, order in ((twin, t, "(t, moved)"), (t, twin, "(moved, t)")):
            r = dcall(ctx, mon, ops[op], a, b)
            if r["exc"] is not None:
                if not _usable(r):
                    continue
                ctx.violation("%s|refused-between-a-tree-and-its-seed-moved-self|%s" % (FN_OF_KIND[op], done[-1].split(":")[0]),
                              "%s%s raised %s although no length is missing from either unrooted tree" % (
                                  FN_OF_KIND[op], order, core.exc_brief(r["exc"])), det)
                continue
            if not _usable(r):
                ctx.ev("relation-skipped-operand-already-flagged")
                continue
            ctx.ev("seedmove-zero-checked")
            v = r["value"]
            if op == "fpfn":
                ok = tuple(v) == (0, 0)
            elif op == "sd":
                ok = v == 0
            else:
                ok = abs(v) <= 1e-9 * scale
            if not ok:
                ctx.violation("%s|nonzero-between-a-tree-and-its-seed-moved-self|%s%s" % (
                    FN_OF_KIND[op], done[-1].split(":")[0], "|half-of-the-basal-edge-missing" if half is not None else ""),
                    "%s%s = %r after %s" % (FN_OF_KIND[op], order, _brief(v), " + ".join(done)), det)
    ctx.nontrivial(("seedmove", ref.canon(sp) if hasattr(ref, "canon") else ref.to_newick(sp), tuple(done)))


# ---- different namespaces ----------------------------------------------------------------------------------------
def run_ns(ctx, mon, rng, case):
    import copy
    import dendropy
    ops = _ops()
    n = rng.choice([1, 2, 3, 4, 6, 9])
    names = ["T%d" % i for i in range(n)]
    rooted = rng.random() < 0.5
    a = gen.decorate_lengths(gen.random_spec(rng, n, p_poly=0.3, names=names), rng, "dyadic")
    b = gen.decorate_lengths(gen.random_spec(rng, n, p_poly=0.3, names=names), rng, "dyadic")
    if rng.random() < 0.3:
        b = ref.copy(a)
    ns1 = dendropy.TaxonNamespace(names)
    for variant in ("fresh-same-labels", "shares-taxon-objects", "deepcopy-of-tree", "deepcopy-of-namespace"):
        for pre_encoded in (False, True):
            t1 = build_live(ctx, mon, a, ns1, rooted)
            try:
                if variant == "fresh-same-labels":
                    t2 = build_live(ctx, mon, b, dendropy.TaxonNamespace(names), rooted)
                elif variant == "shares-taxon-objects":
                    t2 = build_live(ctx, mon, b, dendropy.TaxonNamespace(list(ns1)), rooted)
                elif variant == "deepcopy-of-tree":
                    t2 = mon.track(copy.deepcopy(t1))
                else:
                    t2 = build_live(ctx, mon, b, copy.deepcopy(ns1), rooted)
            except core.CaseTimeout:
                raise
            except Exception as e:
                ctx.note("namespace-variant-could-not-be-built:%s:%s" % (variant, type(e).__name__))
                ctx.mark_inconclusive("namespace variant %s could not be built: %s" % (variant, core.exc_brief(e)))
                continue
            if t2.taxon_namespace is t1.taxon_namespace:
                ctx.note("namespace-variant-shares-the-namespace:%s" % variant)
                continue
            ctx.ev("namespace-variant:%s" % variant)
            if pre_encoded:
                t1.encode_bipartitions()
                t2.encode_bipartitions()
            for op in sorted(ops):
                for x, y in ((t1, t2), (t2, t1)):
                    dcall(ctx, mon, ops[op], x, y)
                    if op in TAKES_FLAG:
                        dcall(ctx, mon, ops[op], x, y, is_bipartitions_updated=True)
                ctx.nontrivial(("ns", variant, pre_encoded, op, rooted, n))
