"""C04  Tree-to-tree distances equal their split-set definitions and are metrics.

Method: the real ``dendropy.calculate.treecompare`` functions (and the deprecated ``Tree`` aliases) are wrapped by
hooks.  The pre-hook extracts DendroPy-free specs of BOTH argument trees from the raw child lists *before* the call
(the functions re-encode bipartitions and restructure the trees: unifurcations are suppressed, an unrooted basal
bifurcation is collapsed) and takes the reference split -> summed-length maps from ``vf.ref.split_lengths``.  The
post-hook judges what the call returned or raised.  Workloads only *call* the library; relations between several
results (metric axioms) are judged afterwards from the returned values.

Oracle clauses (hook level, every observed call whose two trees share rooting state and leaf set):
  V1  symmetric_difference / unweighted_robinson_foulds_distance == |S1 ^ S2|
  V2  false_positives_and_negatives(ref, cmp) == (|S2 - S1|, |S1 - S2|)
  V3  find_missing_bipartitions(ref, cmp), decoded through the namespace's taxon->bit map, == S1 - S2 (as a set)
  V4  weighted_robinson_foulds_distance == sum |l1(s) - l2(s)|,  euclidean_distance == sqrt(sum (l1(s) - l2(s))^2),
      absent split -> 0, lengths of all edges inducing one split summed (unary chains, unrooted basal bifurcation),
      root edge = the split {all | nothing}.  Exact when all lengths lie on the 1/1024 grid, else 1e-9 relative.
      Judged only when no non-root edge of either tree lacks a length.
  V5  an exception on a shared namespace is acceptable only as the documented refusal of missing lengths (ValueError
      raised in treecompare.py by the two weighted functions) and only if a length really is missing.
  N   trees over different TaxonNamespace objects: every function must raise TaxonNamespaceIdentityError.
  F   default arguments: V1-V4 are demanded against the structure the trees have at the moment of the call, whatever was
      encoded / cached before (edit journal: NNI, SPR on node / on edge, collapse, resolve, unary insertion, length
      change, explicit encode, calls with is_bipartitions_updated=True interleaved).  Calls with
      is_bipartitions_updated=True are judged only right after an explicit encode_bipartitions() of both trees.
Relation clauses (workload level, from returned values of calls the hook did not already flag):
  S   d(a,b) and d(b,a): both defined or both refused; equal values (fp/fn mirrored)
  Z   d(t, re-drawing of t) == 0   (child order, unary nodes, unrooted: other seed node / seed on an edge)
  I   d(re-drawing of t, x) == d(t, x)
  T   d(a,c) <= d(a,b) + d(b,c)
  Z, I, T for the two weighted distances only among trees without missing lengths.

Soundness limits: with missing non-root lengths only S is judged for the weighted distances (the statement does not
say which value); rooting states are never mixed in a pair; leaf sets are shared; the list returned by
find_missing_bipartitions is compared as a set (a split listed twice is recorded, not judged); results of calls with
is_bipartitions_updated=True after an edit are not judged (stale by contract).

Known mechanisms are recognised from the situation, so that any other disagreement keeps a generic key:
  wdist|value-differs-from-definition|unrooted-basal-bifurcation-after-unifurcation-suppression  (resp. |unrooted-two-leaf-tree):
      the post-call tree is unrooted with a bifurcating seed AND the returned value equals the definition evaluated
      with only one of the two basal edge lengths kept for the basal split.
  wdist|defined-in-one-argument-order-only|refused-only-when-tree-with-missing-lengths-is-second-argument
"""
import inspect
import random

from .. import ref, gen, bridge, core
from ..mon.hooks import Hooks
from . import _c04_util as U

PROP = "C04"
LEVEL = "exploration"
TECHNIQUE = "runtime monitoring: hooks on the treecompare functions + split-set reference oracle + edit-journal workload"
LEVEL_TEXT = ("Hooks around the real treecompare functions compare every observed result with the split-set definitions "
              "computed on DendroPy-free specs extracted before the call; metric axioms are judged on the returned values "
              "over generated pools, exhaustive small shapes and edit journals. The property held on the executions listed "
              "in the evidence file, nothing more.")
LEVEL_NOTE = ("Trusted: vf/ref.py (clades, split_lengths, reroot), the oracle code in vf/props/C04.py and _c04_util.py, "
              "TaxonNamespace.taxon_bitmask for decoding returned Bipartition objects, CPython. Coverage is what the "
              "workload reached: n <= 5 exhaustive shapes, random n <= 12 (quick) / <= 50 (thorough).")
RULE = ("cases = directed witnesses | all rooted multifurcating shapes n<=5 paired (both rootings, length patterns) | random "
        "pools of 6-8 trees on one namespace and leaf set (base, re-drawings, NNI/SPR neighbours, other lengths, random) x "
        "all ordered pairs x {sd, fp/fn, wRF, Euclid} + aliases | edit journals | namespace-refusal cases; a pair is "
        "non-trivial when the two trees differ in a split or a split length, or are distinct drawings of one tree with "
        ">= 1 internal edge; distinct = distinct (canonical tree 1, ordered drawing of tree 2, rooting, operation)")
REACH = ["treecompare:symmetric_difference", "treecompare:false_positives_and_negatives",
         "treecompare:weighted_robinson_foulds_distance", "treecompare:euclidean_distance",
         "treecompare:find_missing_bipartitions", "treecompare:unweighted_robinson_foulds_distance",
         "treecompare:_get_length_diffs", "treecompare:_bipartition_difference",
         "_tree:Tree.symmetric_difference", "_tree:Tree.false_positives_and_negatives",
         "_tree:Tree.robinson_foulds_distance", "_tree:Tree.euclidean_distance",
         "_tree:Tree.encode_bipartitions", "_tree:Tree._get_bipartition_edge_map",
         "_tree:Tree.collapse_basal_bifurcation", "_bipartition:Bipartition.__hash__", "_bipartition:Bipartition.__eq__"]
MIN_EVENTS = {"value-judged:sd": (30000, 180000), "value-judged:fpfn": (30000, 180000),
              "value-judged:wrf": (20000, 120000), "value-judged:euclid": (20000, 120000),
              "value-judged:missing": (5000, 25000),
              "symmetry-checked": (50000, 300000), "triangle-checked": (200000, 1400000),
              "redraw-zero-checked": (15000, 80000), "invariance-checked": (40000, 300000),
              "journal-call-after-edit": (600, 9000), "namespace-refusal-checked": (5000, 30000),
              "refusal-with-missing-lengths": (10000, 80000),
              "hook:treecompare.symmetric_difference:call": (30000, 180000),
              "hook:Tree.symmetric_difference:call": (800, 5000)}
ASSUMPTIONS = ["reference split -> length maps come from vf.ref.split_lengths on specs read from the raw child lists "
               "before each call; the root edge counts as the split {all taxa | nothing}",
               "TaxonNamespace.taxon_bitmask is taken as the given taxon->bit assignment when decoding the Bipartition "
               "objects returned by find_missing_bipartitions (its correctness is C01/C10)",
               "the node-level edit primitives (add_child / insert_child / remove_child, edge.length) are only used to "
               "produce histories; the reference re-reads the live structure after every edit"]
CASE_TIMEOUT = 120

KIND = {
    "treecompare.symmetric_difference": "sd",
    "treecompare.unweighted_robinson_foulds_distance": "sd",
    "treecompare.false_positives_and_negatives": "fpfn",
    "treecompare.weighted_robinson_foulds_distance": "wrf",
    "treecompare.robinson_foulds_distance": "wrf",
    "treecompare.euclidean_distance": "euclid",
    "treecompare.find_missing_bipartitions": "missing",
    "Tree.symmetric_difference": "sd",
    "Tree.false_positives_and_negatives": "fpfn",
    "Tree.robinson_foulds_distance": "wrf",
    "Tree.euclidean_distance": "euclid",
    "Tree.find_missing_splits": "missing",
}
FN_OF_KIND = {"sd": "symmetric_difference", "fpfn": "false_positives_and_negatives",
              "wrf": "weighted_robinson_foulds_distance", "euclid": "euclidean_distance",
              "missing": "find_missing_bipartitions"}
K_BASAL = "wdist|value-differs-from-definition|unrooted-basal-bifurcation-after-unifurcation-suppression"
K_TWOLEAF = "wdist|value-differs-from-definition|unrooted-two-leaf-tree"
K_ASYM = "wdist|defined-in-one-argument-order-only|refused-only-when-tree-with-missing-lengths-is-second-argument"

_configured = [False]


def _quiet_deprecations():
    if not _configured[0]:
        from dendropy.utility import deprecate
        deprecate.configure_deprecation_warning_behavior("ignore")
        _configured[0] = True


# ==========================================================================================
# the monitor
class Monitor(object):
    def __init__(self, ctx):
        self.ctx = ctx
        self.last = None          # verdict of the most recent outermost hooked call (read by the workload)
        self.hist = {}            # id(tree) -> (tree, maps at the last judged encode)  [stale discriminator]
        self.trust_updated = False
        self.nsamples = 0
        self._sigs = {}

    # -- installation -----------------------------------------------------------------------
    def install(self, hooks_mod, hooks_tree):
        import dendropy
        from dendropy.calculate import treecompare
        for tag in KIND:
            owner_name, name = tag.split(".")
            owner = treecompare if owner_name == "treecompare" else dendropy.Tree
            self._sigs[tag] = inspect.signature(inspect.getattr_static(owner, name))
            hk = hooks_mod if owner is treecompare else hooks_tree
            hk.install(owner, name, pre=self._mk_pre(tag), post=self._post, tag=tag)

    def _mk_pre(self, tag):
        def pre(obj, args, kw):
            try:
                return self._pre(tag, obj, args, kw)
            except core.CaseTimeout:
                raise
        return pre

    # -- pre: snapshot of both arguments before the library touches them -----------------------
    def _pre(self, tag, obj, args, kw):
        import dendropy
        self.last = None
        snap = {"tag": tag, "kind": KIND[tag], "why": None}
        try:
            full = ([obj] if obj is not None else []) + list(args)
            ba = self._sigs[tag].bind(*full, **kw)
        except TypeError:
            snap["why"] = "bad-call-signature"
            return snap
        vals = list(ba.arguments.values())
        if len(vals) < 2:
            snap["why"] = "bad-call-signature"
            return snap
        t1, t2 = vals[0], vals[1]
        if not isinstance(t1, dendropy.Tree) or not isinstance(t2, dendropy.Tree):
            snap["why"] = "non-tree-argument"
            return snap
        snap["t1"], snap["t2"] = t1, t2
        snap["updated"] = bool(ba.arguments.get("is_bipartitions_updated", False))
        snap["default_weights"] = (ba.arguments.get("edge_weight_attr", "length") == "length"
                                   and ba.arguments.get("value_type", float) is float)
        snap["same_ns"] = t1.taxon_namespace is t2.taxon_namespace
        snap["trusted"] = self.trust_updated
        try:
            sp1 = bridge.extract(t1)
            sp2 = sp1 if t2 is t1 else bridge.extract(t2)
        except bridge.ExtractError:
            snap["why"] = "malformed-argument-tree"
            return snap
        r1, r2 = bool(t1._is_rooted), bool(t2._is_rooted)
        if r1 != r2:
            snap["why"] = "mixed-rooting-states"
            return snap
        if not (U.judgeable(sp1) and U.judgeable(sp2)):
            snap["why"] = "leaf-without-taxon-or-duplicate-taxon"
            return snap
        if set(ref.leaf_taxa(sp1)) != set(ref.leaf_taxa(sp2)):
            snap["why"] = "different-leaf-sets"
            return snap
        snap["rooted"] = r1
        snap["sp1"], snap["sp2"] = sp1, sp2
        snap["m1"], snap["miss1"] = U.split_maps(sp1, r1)
        snap["m2"], snap["miss2"] = (snap["m1"], snap["miss1"]) if t2 is t1 else U.split_maps(sp2, r2)
        return snap

    def note_encoded(self, tree):
        """workload encoded the tree explicitly: remember the structure the cached bipartitions describe"""
        try:
            sp = bridge.extract(tree)
        except bridge.ExtractError:
            return
        self.hist[id(tree)] = (tree, U.split_maps(sp, bool(tree._is_rooted))[0])

    # -- post: the oracle -------------------------------------------------------------------------
    def _post(self, snap, obj, args, kw, result, exc):
        from dendropy.utility import error
        ctx = self.ctx
        st = self.last = {"status": "unjudged", "value": result, "exc": exc, "refused": False}
        if isinstance(exc, core.CaseTimeout):
            return
        if snap is None or "same_ns" not in snap:
            ctx.note("call-not-judged:%s" % (snap["why"] if snap else "no-snapshot"))
            return
        tag, kind = snap["tag"], snap["kind"]
        t1, t2 = snap["t1"], snap["t2"]
        # N: different namespaces are refused
        if not snap["same_ns"]:
            ctx.ev("namespace-refusal-checked")
            if exc is None:
                st["status"] = "flagged"
                ctx.violation("%s|different-namespaces-not-refused" % tag,
                              "%s returned %r for trees over two TaxonNamespace objects" % (tag, _brief(result)),
                              self._detail(snap))
            elif not isinstance(exc, error.TaxonNamespaceIdentityError):
                st["status"] = "flagged"
                ctx.unexpected(tag, exc, self._detail(snap))
            else:
                st["status"] = "refused-namespace"
            return
        if snap["why"]:
            ctx.note("call-not-judged:%s" % snap["why"])
            st["status"] = "outside-quantifier"
            return
        if snap["updated"] and not snap["trusted"]:
            ctx.note("call-with-is_bipartitions_updated=True-not-judged")
            return
        m1, m2 = snap["m1"], snap["m2"]
        missing_len = snap["miss1"] or snap["miss2"]
        if exc is not None:
            if kind in ("wrf", "euclid") and _is_length_refusal(exc):
                if missing_len:
                    ctx.ev("refusal-with-missing-lengths")
                    st["status"] = "refused"
                    st["refused"] = True
                else:
                    st["status"] = "flagged"
                    ctx.violation("%s|refused-although-no-length-is-missing" % tag,
                                  "%s raised %s" % (tag, core.exc_brief(exc)), self._detail(snap))
            else:
                st["status"] = "flagged"
                ctx.unexpected(tag, exc, self._detail(snap))
            return
        exp = U.expected(m1, m2)
        prev1 = self.hist.get(id(t1))
        prev2 = self.hist.get(id(t2))
        self.hist[id(t1)] = (t1, m1)
        self.hist[id(t2)] = (t2, m2)

        def stale(pick):
            """does the result equal the definition evaluated on the structures last encoded?"""
            if prev1 is None and prev2 is None:
                return False
            o1 = prev1[1] if prev1 else m1
            o2 = prev2[1] if prev2 else m2
            if o1 == m1 and o2 == m2:
                return False
            try:
                return pick(U.expected(o1, o2))
            except Exception:
                return False

        if kind == "sd":
            ctx.ev("value-judged:sd")
            if result != exp["sd"] or isinstance(result, bool):
                st["status"] = "flagged"
                disc = "|stale-bipartitions" if stale(lambda e: e["sd"] == result) else ""
                ctx.violation("%s|value-differs-from-definition%s" % (tag, disc),
                              "%s returned %r, |S1 ^ S2| = %d" % (tag, _brief(result), exp["sd"]), self._detail(snap))
            else:
                st["status"] = "ok"
        elif kind == "fpfn":
            ctx.ev("value-judged:fpfn")
            ok = isinstance(result, tuple) and len(result) == 2 and tuple(result) == exp["fpfn"]
            if not ok:
                st["status"] = "flagged"
                disc = "|stale-bipartitions" if stale(lambda e: tuple(result) == e["fpfn"]) else ""
                ctx.violation("%s|value-differs-from-definition%s" % (tag, disc),
                              "%s returned %r, (|S2 - S1|, |S1 - S2|) = %r" % (tag, _brief(result), exp["fpfn"]),
                              self._detail(snap))
            else:
                st["status"] = "ok"
        elif kind == "missing":
            ctx.ev("value-judged:missing")
            got = self._decode(result, snap)
            if got is None or got[0] != exp["missing"]:
                st["status"] = "flagged"
                disc = "|stale-bipartitions" if (got is not None and stale(lambda e: got[0] == e["missing"])) else ""
                ctx.violation("%s|value-differs-from-definition%s" % (tag, disc),
                              "%s returned %s, S1 - S2 has %d splits" % (
                                  tag, "an undecodable result" if got is None else "%d distinct splits" % len(got[0]),
                                  len(exp["missing"])), self._detail(snap))
            else:
                st["status"] = "ok"
                st["value"] = len(got[0])
                if got[1]:
                    ctx.note("find_missing_bipartitions-lists-a-split-twice")
        else:
            if not snap["default_weights"]:
                ctx.note("call-with-non-default-weights-not-judged")
                return
            if missing_len:
                ctx.note("weighted-value-with-missing-lengths-not-judged")
                st["status"] = "defined-unjudged"
                return
            ctx.ev("value-judged:%s" % kind)
            exact = U.on_grid(m1, m2)
            if isinstance(result, bool) or not isinstance(result, (int, float)) or not U.close(result, exp[kind], exact):
                st["status"] = "flagged"
                key, why = self._classify_weighted(snap, result, exact, stale)
                ctx.violation(key, "%s returned %r, definition gives %r%s" % (tag, _brief(result), exp[kind], why),
                              self._detail(snap))
            else:
                st["status"] = "ok"
        want = ("sd", "wrf", "fpfn", "euclid", "missing")[len(ctx.samples) % 5]
        if st["status"] == "ok" and self.nsamples < 1 and kind == want and (exp["sd"] > 0) and len(m1) > 5:
            self.nsamples += 1
            ctx.sample({"call": tag, "tree1": ref.to_newick(snap["sp1"]), "tree2": ref.to_newick(snap["sp2"]),
                        "rooted": snap["rooted"],
                        "returned": _splits_text(got[0]) if kind == "missing" else _brief(result),
                        "definition": _splits_text(exp[kind]) if kind == "missing" else _brief(exp[kind])})

    # -- helpers ------------------------------------------------------------------------------------
    def _detail(self, snap):
        d = {"call": snap["tag"], "is_bipartitions_updated": snap.get("updated")}
        if "sp1" in snap:
            d.update({"rooted": snap["rooted"], "tree1": ref.to_newick(snap["sp1"])[:600],
                      "tree2": "<same object>" if snap["t2"] is snap["t1"] else ref.to_newick(snap["sp2"])[:600]})
        return d

    def _decode(self, result, snap):
        """Bipartition list -> (set of reference splits, has duplicates)"""
        if not isinstance(result, (list, tuple)):
            return None
        ns = snap["t1"].taxon_namespace
        bits = [(ns.taxon_bitmask(t), t.label) for t in ns]
        full = frozenset(ref.leaf_taxa(snap["sp1"]))
        out = []
        for b in result:
            lm = getattr(b, "_leafset_bitmask", None)
            if not isinstance(lm, int):
                return None
            c = frozenset(lbl for bit, lbl in bits if lm & bit)
            out.append(c if snap["rooted"] else ref.usplit(c, full))
        return frozenset(out), len(set(out)) != len(out)

    def _classify_weighted(self, snap, got, exact, stale):
        tag, kind = snap["tag"], snap["kind"]
        generic = "%s|value-differs-from-definition" % tag
        if isinstance(got, bool) or not isinstance(got, (int, float)):
            return generic + "|not-a-number", ""
        def or_stale():
            # only a discriminator; looked at last because on the length grid a stale value can coincide with another one
            if stale(lambda e: U.close(got, e[kind], exact)):
                return generic + "|stale-bipartitions", " (equals the definition on the previously encoded structures)"
            return generic, ""
        if snap["rooted"] or snap["t1"] is snap["t2"]:
            return or_stale()
        # known mechanism: unrooted tree left with a bifurcating seed; bipartition_edge_map keeps one of the two
        # basal edges, i.e. one of two lengths of the same split
        cands = []
        twoleaf = False
        for t, m in ((snap["t1"], snap["m1"]), (snap["t2"], snap["m2"])):
            var = [(m, False)]
            try:
                post = bridge.extract(t)
            except bridge.ExtractError:
                post = None
            if post is not None and len(post[3]) == 2 and not bool(t._is_rooted):
                cl = dict((id(n), c) for n, c in ref.clades(post))
                s = ref.usplit(cl[id(post[3][0])], cl[id(post)])
                if len(ref.leaves(post)) == 2:
                    twoleaf = True
                for keep in post[3]:
                    v = dict(m)
                    v[s] = keep[2] or 0
                    var.append((v, True))
            cands.append(var)
        for a, alt_a in cands[0]:
            for b, alt_b in cands[1]:
                if not (alt_a or alt_b):
                    continue
                if U.close(got, U.expected(a, b)[kind], exact):
                    return (K_TWOLEAF if twoleaf else K_BASAL), " (equals the definition with one basal edge length dropped)"
        return or_stale()


def _is_length_refusal(exc):
    from dendropy.utility import error
    if not isinstance(exc, ValueError) or isinstance(exc, error.TaxonNamespaceIdentityError):
        return False
    fr = core.innermost_repo_frame(exc)
    return fr is not None and fr[1] == "treecompare.py" and core.raised_in_repo(exc)


def _splits_text(splits):
    def one(x):
        if x and all(isinstance(y, frozenset) for y in x):
            return " | ".join(sorted(",".join(sorted(side)) for side in x))
        return ",".join(sorted(x))
    return sorted(one(x) for x in splits)


def _brief(v):
    if isinstance(v, (list, tuple)) and len(v) > 6:
        return "<%s of %d>" % (type(v).__name__, len(v))
    if isinstance(v, (int, float, str, bool, type(None))):
        return v
    if isinstance(v, (list, tuple)):
        return [_brief(x) for x in v]
    if isinstance(v, frozenset):
        return "<%d splits>" % len(v)
    return repr(v)[:80]


# ==========================================================================================
# calling the library from the workload
def _ops():
    from dendropy.calculate import treecompare as tc
    return {
        "sd": lambda a, b, **k: tc.symmetric_difference(a, b, **k),
        "fpfn": lambda a, b, **k: tc.false_positives_and_negatives(a, b, **k),
        "wrf": lambda a, b, **k: tc.weighted_robinson_foulds_distance(a, b, **k),
        "euclid": lambda a, b, **k: tc.euclidean_distance(a, b, **k),
        "missing": lambda a, b, **k: tc.find_missing_bipartitions(a, b, **k),
        "urf": lambda a, b, **k: tc.unweighted_robinson_foulds_distance(a, b, **k),
        "rf-legacy": lambda a, b: tc.robinson_foulds_distance(a, b),
        "T.sd": lambda a, b: a.symmetric_difference(b),
        "T.fpfn": lambda a, b: a.false_positives_and_negatives(b),
        "T.rf": lambda a, b: a.robinson_foulds_distance(b),
        "T.euclid": lambda a, b: a.euclidean_distance(b),
        "T.missing": lambda a, b: a.find_missing_splits(b),
    }


PRIMARY = ("sd", "fpfn", "wrf", "euclid")
ALIASES = ("urf", "rf-legacy", "T.sd", "T.fpfn", "T.rf", "T.euclid")
TAKES_FLAG = ("sd", "fpfn", "wrf", "euclid", "missing", "urf")


def dcall(ctx, mon, fn, a, b, **kw):
    """-> verdict dict of the hook (status/value/exc)"""
    mon.last = None
    try:
        v = fn(a, b, **kw)
        out = mon.last
        if out is None:
            ctx.ev("hook-bypassed")
            out = {"status": "unjudged", "value": v, "exc": None, "refused": False}
        return out
    except core.CaseTimeout:
        raise
    except Exception as e:
        out = mon.last
        if out is None or out.get("exc") is not e:
            ctx.unexpected("harness-call", e)
            out = {"status": "flagged", "value": None, "exc": e, "refused": False}
        return out


def make_ns(labels, rng, cfg=None):
    import dendropy
    labels = list(labels)
    cfg = cfg or rng.choice(["exact", "shuffled", "larger"])
    if cfg == "shuffled":
        rng.shuffle(labels)
    elif cfg == "larger":
        rng.shuffle(labels)
        labels = ["X0"] + labels[:len(labels) // 2] + ["X1"] + labels[len(labels) // 2:] + ["X2"]
    return dendropy.TaxonNamespace(labels)


# ==========================================================================================
# pool engine: all ordered pairs x primary ops on fresh builds, then the relation clauses
def member(spec, rooted, group=None, how=None):
    m, miss = U.split_maps(spec, rooted)
    return {"spec": spec, "group": group, "how": how, "miss": miss, "grid": U.on_grid(m), "map": m,
            "internal": len(ref.nontrivial_splits(spec, rooted))}


def run_pool_engine(ctx, mon, members, ns, rooted, rng, alias_calls=4, missing_calls=6, self_pairs=True, pairs=None,
                    build_rooted="same"):
    """rooted: rooting state for the reference; build_rooted: what the live trees get (None = rooting left undefined,
    which the library treats as unrooted)"""
    if build_rooted == "same":
        build_rooted = rooted
    ops = _ops()
    k = len(members)
    D = dict((op, {}) for op in PRIMARY)
    if pairs is None:
        pairs = [(i, j) for i in range(k) for j in range(k) if (i != j or self_pairs)]
    canon = [None] * k
    ordered = [None] * k

    def build(i):
        return bridge.build_tree(ref.copy(members[i]["spec"]), ns, build_rooted)

    def reg(i, j, op):
        a, b = members[i], members[j]
        differ = a["map"] != b["map"]
        if differ or (i != j and a["internal"] >= 1):
            if canon[i] is None:
                canon[i] = core.short_hash(ref.canon(a["spec"]))
            if ordered[j] is None:
                ordered[j] = core.short_hash(ref.ordered(b["spec"]))
            ctx.nontrivial((op, rooted, canon[i], ordered[j]))

    for (i, j) in pairs:
        for op in PRIMARY:
            t1 = build(i)
            t2 = t1 if i == j else build(j)
            D[op][(i, j)] = dcall(ctx, mon, ops[op], t1, t2)
            reg(i, j, op)
    for _ in range(missing_calls):
        i, j = rng.choice(pairs)
        t1 = build(i)
        dcall(ctx, mon, ops["missing"], t1, t1 if i == j else build(j))
    for _ in range(alias_calls):
        i, j = rng.choice(pairs)
        t1 = build(i)
        dcall(ctx, mon, ops[rng.choice(ALIASES)], t1, t1 if i == j else build(j))
    relations(ctx, D, members, rooted)
    return D


def _usable(*rs):
    return all(r is not None and r["status"] not in ("flagged", "outside-quantifier") for r in rs)


def relations(ctx, D, members, rooted):
    k = len(members)
    rt = "rooted" if rooted else "unrooted"

    def detail(*idx):
        return {"rooted": rooted, "trees": [ref.to_newick(members[i]["spec"])[:500] for i in idx]}

    def weighted_ok(*idx):
        return not any(members[i]["miss"] for i in idx)

    def exact(*idx):
        return all(members[i]["grid"] for i in idx)

    # S: symmetry of definedness and of value
    for op in PRIMARY:
        fn = FN_OF_KIND[op]
        for i in range(k):
            for j in range(i + 1, k):
                a, b = D[op].get((i, j)), D[op].get((j, i))
                if a is None or b is None:
                    continue
                if not _usable(a, b):
                    ctx.ev("relation-skipped-operand-already-flagged")
                    continue
                ctx.ev("symmetry-checked")
                da, db = a["exc"] is None, b["exc"] is None
                if da != db:
                    # (i, j) or (j, i) was refused: which argument order, and what does its second argument look like?
                    second = j if not da else i
                    first = i if not da else j
                    if members[second]["miss"]:
                        key = K_ASYM
                    elif members[first]["miss"]:
                        key = "%s|defined-in-one-argument-order-only|refused-only-when-tree-with-missing-lengths-is-first-argument" % fn
                    else:
                        key = "%s|defined-in-one-argument-order-only" % fn
                    ctx.violation(key, "%s(a, b) is %s but %s(b, a) is %s" % (
                        fn, "defined" if da else "refused", fn, "defined" if db else "refused"),
                        detail(first, second))
                    continue
                if not da:
                    continue
                va, vb = a["value"], b["value"]
                if op == "fpfn":
                    ok = tuple(va) == tuple(reversed(vb))
                elif op == "sd":
                    ok = va == vb
                else:
                    ok = U.close(va, vb, exact(i, j))
                if not ok:
                    ctx.violation("%s|value-not-symmetric|%s" % (fn, rt), "%s(a, b) = %r but %s(b, a) = %r" % (
                        fn, _brief(va), fn, _brief(vb)), detail(i, j))
    # Z and I: re-drawings
    groups = {}
    for i, m in enumerate(members):
        if m["group"] is not None:
            groups.setdefault(m["group"], []).append(i)
    for g in groups.values():
        for x in range(len(g)):
            for y in range(len(g)):
                if x == y:
                    continue
                i, j = g[x], g[y]
                how = members[j]["how"] or members[i]["how"] or "redraw"
                for op in PRIMARY:
                    r = D[op].get((i, j))
                    if r is None or r["exc"] is not None:
                        continue
                    if op in ("wrf", "euclid") and not weighted_ok(i, j):
                        continue
                    if not _usable(r):
                        ctx.ev("relation-skipped-operand-already-flagged")
                        continue
                    ctx.ev("redraw-zero-checked")
                    v = r["value"]
                    if op == "fpfn":
                        ok = tuple(v) == (0, 0)
                    elif op == "sd" or exact(i, j):
                        ok = v == 0
                    else:
                        scale = sum(abs(z) for z in members[i]["map"].values()) + 1.0
                        ok = abs(v) <= 1e-9 * scale
                    if not ok:
                        ctx.violation("%s|nonzero-between-redrawings|%s|%s" % (FN_OF_KIND[op], how, rt),
                                      "%s(t, re-drawing of t) = %r" % (FN_OF_KIND[op], _brief(v)), detail(i, j))
                if x < y:
                    for z in range(k):
                        if z in (i, j):
                            continue
                        for op in PRIMARY:
                            for pa, pb in (((i, z), (j, z)), ((z, i), (z, j))):
                                ra, rb = D[op].get(pa), D[op].get(pb)
                                if ra is None or rb is None or ra["exc"] is not None or rb["exc"] is not None:
                                    continue
                                if op in ("wrf", "euclid") and not weighted_ok(i, j, z):
                                    continue
                                if not _usable(ra, rb):
                                    ctx.ev("relation-skipped-operand-already-flagged")
                                    continue
                                ctx.ev("invariance-checked")
                                va, vb = ra["value"], rb["value"]
                                ok = (tuple(va) == tuple(vb)) if op == "fpfn" else (
                                    va == vb if op == "sd" else U.close(va, vb, exact(i, j, z)))
                                if not ok:
                                    ctx.violation("%s|changed-by-redrawing|%s|%s" % (FN_OF_KIND[op], how, rt),
                                                  "%s(t, x) = %r but %s(re-drawing of t, x) = %r" % (
                                                      FN_OF_KIND[op], _brief(va), FN_OF_KIND[op], _brief(vb)),
                                                  detail(i, j, z))
    # T: triangle inequality
    for op in ("sd", "wrf", "euclid"):
        d = D[op]
        for i in range(k):
            for j in range(k):
                if j == i:
                    continue
                for z in range(k):
                    if z == i or z == j:
                        continue
                    ac, ab, bc = d.get((i, z)), d.get((i, j)), d.get((j, z))
                    if ac is None or ab is None or bc is None:
                        continue
                    if ac["exc"] is not None or ab["exc"] is not None or bc["exc"] is not None:
                        continue
                    if op != "sd" and not weighted_ok(i, j, z):
                        continue
                    if not _usable(ac, ab, bc):
                        ctx.ev("relation-skipped-operand-already-flagged")
                        continue
                    ctx.ev("triangle-checked")
                    lhs, rhs = ac["value"], ab["value"] + bc["value"]
                    if lhs > rhs * (1 + 1e-9) + 1e-12:
                        ctx.violation("%s|triangle-inequality|%s" % (FN_OF_KIND[op], rt),
                                      "d(a,c) = %r > d(a,b) + d(b,c) = %r" % (lhs, rhs), detail(i, j, z))


# ==========================================================================================
# workloads
PATTERNS = ("dyadic", "ints", "zeros", "unit", "float", "none", "mixed_missing", "dyadic")


def cases(tier, seed):
    quick = tier == "quick"
    for name in DIRECTED:
        yield {"kind": "directed", "name": name}
    for n in (2, 3, 4, 5):
        for idx in range(len(gen.all_shapes(n))):
            for rooted in (True, False):
                yield {"kind": "shapes", "n": n, "idx": idx, "rooted": rooted, "seed": seed, "tier": tier}
    for i in range(40 if quick else 300):
        yield {"kind": "ns", "i": i, "seed": seed}
    for i in range(700 if quick else 6000):
        yield {"kind": "pool", "i": i, "seed": seed, "tier": tier}
    for i in range(600 if quick else 10000):
        yield {"kind": "journal", "i": i, "seed": seed, "tier": tier}


def run_case(case, ctx):
    core.ensure_repo_on_path()
    _quiet_deprecations()
    rng = random.Random("%s/%s" % (case.get("seed", 0), sorted(case.items())))
    mon = Monitor(ctx)
    with Hooks(ctx) as hooks_mod, Hooks(ctx) as hooks_tree:
        mon.install(hooks_mod, hooks_tree)
        kind = case["kind"]
        if kind == "directed":
            DIRECTED[case["name"]](ctx, mon, rng)
        elif kind == "shapes":
            run_shapes(ctx, mon, rng, case)
        elif kind == "pool":
            run_pool(ctx, mon, rng, case)
        elif kind == "journal":
            run_journal(ctx, mon, rng, case)
        elif kind == "ns":
            run_ns(ctx, mon, rng, case)
        else:
            raise core.HarnessBug("unknown case kind %r" % kind)


# ---- directed witnesses ---------------------------------------------------------------------------------------
S = ref.S


def _abc(la, lb, lc):
    return S(None, [S("A", length=la), S("B", length=lb), S("C", length=lc)])


def d_missing_asym(ctx, mon, rng):
    """wRF(t_with_lengths, t_without) raises, the swapped call returns 6.0"""
    for rooted in (True, False):
        ns = make_ns(["A", "B", "C"], rng, "exact")
        ms = [member(_abc(1, 2, 3), rooted), member(_abc(None, None, None), rooted)]
        run_pool_engine(ctx, mon, ms, ns, rooted, rng, alias_calls=0, missing_calls=0, self_pairs=False)
    ns = make_ns(["A", "B"], rng, "exact")
    ms = [member(S(None, [S("A", length=1), S("B", length=1)]), True), member(S(None, [S("A"), S("B")]), True)]
    run_pool_engine(ctx, mon, ms, ns, True, rng, alias_calls=0, missing_calls=0, self_pairs=False)


def d_basal_unary_root(ctx, mon, rng):
    """unrooted, unary seed: suppression exposes a basal bifurcation whose two edges share one split"""
    t = S(None, [S(None, [S("A", length=1), S(None, [S("B", length=2), S("C", length=4)], length=8)], length=16)])
    rd = S(None, [S("A", length=9), S("B", length=2), S("C", length=4)], length=16)
    for rooted in (False, True):
        ns = make_ns(["A", "B", "C"], rng, "exact")
        ms = [member(t, rooted, group=0), member(rd, rooted, group=0 if not rooted else None, how="unary")]
        run_pool_engine(ctx, mon, ms, ns, rooted, rng, alias_calls=2, missing_calls=2, self_pairs=False)


def d_basal_unary_child(ctx, mon, rng):
    """unrooted, bifurcating seed whose internal child is unary"""
    t = S(None, [S("A", length=1),
                 S(None, [S(None, [S("B", length=2), S("C", length=4), S("D", length=1)], length=3)], length=5)])
    rd = S(None, [S("A", length=9), S("B", length=2), S("C", length=4), S("D", length=1)])
    ns = make_ns(["A", "B", "C", "D"], rng, "exact")
    ms = [member(t, False, group=0), member(rd, False, group=0, how="unary")]
    run_pool_engine(ctx, mon, ms, ns, False, rng, alias_calls=2, missing_calls=2, self_pairs=False)


def d_two_leaf(ctx, mon, rng):
    a = S(None, [S("A", length=1), S("B", length=2)])
    b = S(None, [S("A", length=2), S("B", length=1)])
    for rooted in (False, True):
        ns = make_ns(["A", "B"], rng, "exact")
        run_pool_engine(ctx, mon, [member(a, rooted), member(b, rooted)], ns, rooted, rng,
                        alias_calls=2, missing_calls=2)


def d_find_missing_splits(ctx, mon, rng):
    """deprecated Tree.find_missing_splits (alias of find_missing_bipartitions)"""
    ops = _ops()
    a = S(None, [S(None, [S("A", length=1), S("B", length=1)], length=1), S("C", length=1), S("D", length=1)])
    b = S(None, [S(None, [S("A", length=1), S("C", length=1)], length=1), S("B", length=1), S("D", length=1)])
    for rooted in (True, False):
        ns = make_ns(["A", "B", "C", "D"], rng, "exact")
        dcall(ctx, mon, ops["T.missing"], bridge.build_tree(a, ns, rooted), bridge.build_tree(b, ns, rooted))
        dcall(ctx, mon, ops["missing"], bridge.build_tree(a, ns, rooted), bridge.build_tree(b, ns, rooted))


def d_stale_minimal(ctx, mon, rng):
    """call, edit, call again with default arguments"""
    ops = _ops()
    a = S(None, [S(None, [S("A", length=1), S("B", length=1)], length=2), S("C", length=1),
                 S(None, [S("D", length=1), S("E", length=1)], length=4)])
    for rooted in (True, False):
        ns = make_ns(["A", "B", "C", "D", "E"], rng, "exact")
        t1 = bridge.build_tree(ref.copy(a), ns, rooted)
        t2 = bridge.build_tree(ref.copy(a), ns, rooted)
        for op in PRIMARY + ("missing", "T.sd", "T.rf"):
            dcall(ctx, mon, ops[op], t1, t2)
            done = U.apply_edit(t1, random.Random(5), "nni") or U.apply_edit(t1, random.Random(5), "spr-edge")
            ctx.ev("journal-edit:%s" % done)
            ctx.ev("journal-call-after-edit")
            dcall(ctx, mon, ops[op], t1, t2)
            U.apply_edit(t2, random.Random(7), "length")
            ctx.ev("journal-call-after-edit")
            dcall(ctx, mon, ops[op], t2, t1)


def d_namespaces(ctx, mon, rng):
    run_ns(ctx, mon, random.Random(0), {"i": -1})


DIRECTED = {
    "missing-lengths-one-order-only": d_missing_asym,
    "unrooted-unary-root-basal-bifurcation": d_basal_unary_root,
    "unrooted-unary-child-of-bifurcating-root": d_basal_unary_child,
    "unrooted-two-leaf-tree": d_two_leaf,
    "deprecated-find_missing_splits": d_find_missing_splits,
    "stale-after-edit-minimal": d_stale_minimal,
    "different-namespaces": d_namespaces,
}


# ---- exhaustive small shapes -------------------------------------------------------------------------------------
def run_shapes(ctx, mon, rng, case):
    n, idx, rooted = case["n"], case["idx"], case["rooted"]
    shapes = gen.all_shapes(n)
    names = ["T%d" % i for i in range(n)]
    if n <= 4:
        js = list(range(len(shapes)))
    else:
        js = rng.sample(range(len(shapes)), 6 if case.get("tier", ctx.tier) == "quick" else 24)
    ns = make_ns(names, rng)
    for j in js:
        pattern = PATTERNS[(idx + j) % len(PATTERNS)]
        a = gen.decorate_lengths(gen.shape_to_spec(shapes[idx], names), rng, pattern, root_length=(j % 5 == 0))
        b = gen.decorate_lengths(gen.shape_to_spec(shapes[j], names), rng, pattern, root_length=(j % 7 == 0))
        how = rng.choice(U.redraw_kinds(rooted))
        a2 = U.redraw(a, rng, rooted, how)
        ms = [member(a, rooted, group=0), member(b, rooted), member(a2, rooted, group=0, how=how)]
        run_pool_engine(ctx, mon, ms, ns, rooted, rng, alias_calls=1, missing_calls=2,
                        self_pairs=(j == js[0]))


# ---- random pools ------------------------------------------------------------------------------------------------
def run_pool(ctx, mon, rng, case):
    quick = case.get("tier", ctx.tier) == "quick"
    n = rng.choice([3, 4, 5, 6, 8, 10, 12]) if quick else rng.choice([3, 5, 7, 10, 14, 20, 30, 50])
    build_rooted = rng.choice([True, True, True, True, False, False, False, None])
    rooted = bool(build_rooted)
    names = ["T%d" % i for i in range(n)]
    pattern = rng.choice(PATTERNS + ("one-without", "signed"))
    p_unary = rng.choice([0, 0, 0, 0.15])
    root_len = rng.random() < 0.25

    def deco(sp, pat=None):
        pat = pat or pattern
        if pat == "one-without":
            pat = "dyadic"
        if pat == "signed":
            for nd in ref.preorder(sp):
                nd[2] = rng.randint(-32, 64) / 8.0 if (nd is not sp or root_len) else None
            return sp
        return gen.decorate_lengths(sp, rng, pat, root_length=root_len)

    base = deco(gen.random_spec(rng, n, p_poly=rng.choice([0, 0.25, 0.5]), p_unary=p_unary, names=names,
                                shape=rng.choice([None, None, None, "caterpillar", "balanced"])))
    ms = [member(base, rooted, group=0)]
    kinds = U.redraw_kinds(rooted)
    for _ in range(2):
        how = rng.choice(kinds)
        ms.append(member(U.redraw(base, rng, rooted, how), rooted, group=0, how=how))
    # same topology, other lengths
    ms.append(member(deco(U.redraw(base, rng, rooted, "child-order")), rooted))
    nb = gen.nni(base, rng)
    ms.append(member(nb if rng.random() < 0.5 else deco(nb), rooted))
    sp = gen.spr(nb if rng.random() < 0.5 else base, rng)
    ms.append(member(sp, rooted))
    other = deco(gen.random_spec(rng, n, p_poly=0.3, p_unary=p_unary, names=names))
    ms.append(member(other, rooted, group=1))
    if rng.random() < 0.5:
        how = rng.choice(kinds)
        ms.append(member(U.redraw(other, rng, rooted, how), rooted, group=1, how=how))
    if pattern == "one-without":
        ms.append(member(gen.decorate_lengths(U.redraw(base, rng, rooted, "child-order"), rng, "none"), rooted))
        ms.append(member(gen.decorate_lengths(ref.copy(sp), rng, "mixed_missing"), rooted))
    ns = make_ns(names, rng)
    pairs = None
    if n > 20:
        k = len(ms)
        allp = [(i, j) for i in range(k) for j in range(k)]
        keep = set(rng.sample(allp, len(allp) // 2))
        keep |= set((j, i) for (i, j) in list(keep))
        pairs = sorted(keep)
    run_pool_engine(ctx, mon, ms, ns, rooted, rng, alias_calls=4, missing_calls=6, pairs=pairs, build_rooted=build_rooted)


ENCODE_FLAGS = ({}, {}, {"suppress_unifurcations": False}, {"collapse_unrooted_basal_bifurcation": False},
                {"is_bipartitions_mutable": True}, {"suppress_storage": True})


# ---- edit journals -----------------------------------------------------------------------------------------------
def run_journal(ctx, mon, rng, case):
    ops = _ops()
    quick = case.get("tier", ctx.tier) == "quick"
    n = rng.choice([4, 5, 6, 8, 10]) if quick else rng.choice([4, 5, 6, 8, 12, 18, 25])
    rooted = rng.random() < 0.5
    names = ["T%d" % i for i in range(n)]
    ns = make_ns(names, rng)
    k = rng.choice([2, 2, 3])
    trees = []
    for _ in range(k):
        sp = gen.random_spec(rng, n, p_poly=rng.choice([0, 0.3]), p_unary=rng.choice([0, 0, 0.1]), names=names)
        gen.decorate_lengths(sp, rng, rng.choice(["dyadic", "dyadic", "ints", "zeros"]), root_length=rng.random() < 0.2)
        trees.append(bridge.build_tree(sp, ns, rooted))
    dirty = [True] * k
    last_edit = "init"
    allops = list(PRIMARY) * 3 + ["missing", "missing"] + list(ALIASES)
    for step in range(rng.randint(6, 16)):
        r = rng.random()
        if r < 0.42:
            i = rng.randrange(k)
            done = U.apply_edit(trees[i], rng, rng.choice(U.EDITS))
            if done:
                dirty[i] = True
                last_edit = done
                ctx.ev("journal-edit:%s" % done)
        elif r < 0.48:
            i = rng.randrange(k)
            # explicit encode, sometimes with non-default flags: a later call with default arguments must not care
            trees[i].encode_bipartitions(**rng.choice(ENCODE_FLAGS))
            mon.note_encoded(trees[i])
            dirty[i] = False
            last_edit = "encode"
        elif r < 0.55:
            # stale by contract: result not judged, must merely not disturb later default calls
            i, j = rng.sample(range(k), 2)
            op = rng.choice(TAKES_FLAG)
            try:
                ops[op](trees[i], trees[j], is_bipartitions_updated=True)
            except core.CaseTimeout:
                raise
            except Exception:
                ctx.note("exception-in-unjudged-call-with-is_bipartitions_updated=True")
            ctx.ev("journal-unjudged-updated-call")
        elif r < 0.62:
            i, j = rng.sample(range(k), 2)
            for t in (trees[i], trees[j]):
                t.encode_bipartitions()
                mon.note_encoded(t)
            dirty[i] = dirty[j] = False
            mon.trust_updated = True
            try:
                dcall(ctx, mon, ops[rng.choice(TAKES_FLAG)], trees[i], trees[j], is_bipartitions_updated=True)
            finally:
                mon.trust_updated = False
            ctx.ev("journal-trusted-updated-call")
        else:
            if rng.random() < 0.05:
                i = j = rng.randrange(k)
            else:
                i, j = rng.sample(range(k), 2)
            op = rng.choice(allops)
            if dirty[i] or dirty[j]:
                ctx.ev("journal-call-after-edit")
            ctx.transition((last_edit, op, rooted))
            r_ = dcall(ctx, mon, ops[op], trees[i], trees[j])
            dirty[i] = dirty[j] = False
            if n <= 10 and r_["status"] == "ok":
                try:
                    ctx.state((rooted, ref.canon(bridge.extract(trees[i]), lengths=False),
                               ref.canon(bridge.extract(trees[j]), lengths=False)))
                except bridge.ExtractError:
                    pass
            ctx.nontrivial(("journal", case.get("i"), case.get("seed"), step, op))


# ---- different namespaces ----------------------------------------------------------------------------------------
def run_ns(ctx, mon, rng, case):
    import copy
    import dendropy
    ops = _ops()
    n = rng.choice([2, 3, 4, 6])
    names = ["T%d" % i for i in range(n)]
    rooted = rng.random() < 0.5
    a = gen.decorate_lengths(gen.random_spec(rng, n, p_poly=0.3, names=names), rng, "dyadic")
    b = gen.decorate_lengths(gen.random_spec(rng, n, p_poly=0.3, names=names), rng, "dyadic")
    if rng.random() < 0.3:
        b = ref.copy(a)
    ns1 = dendropy.TaxonNamespace(names)
    for variant in ("fresh-same-labels", "shares-taxon-objects", "deepcopy-of-tree", "deepcopy-of-namespace"):
        for pre_encoded in (False, True):
            t1 = bridge.build_tree(ref.copy(a), ns1, rooted)
            try:
                if variant == "fresh-same-labels":
                    t2 = bridge.build_tree(ref.copy(b), dendropy.TaxonNamespace(names), rooted)
                elif variant == "shares-taxon-objects":
                    t2 = bridge.build_tree(ref.copy(b), dendropy.TaxonNamespace(list(ns1)), rooted)
                elif variant == "deepcopy-of-tree":
                    t2 = copy.deepcopy(t1)
                else:
                    t2 = bridge.build_tree(ref.copy(b), copy.deepcopy(ns1), rooted)
            except core.CaseTimeout:
                raise
            except Exception:
                ctx.note("namespace-variant-could-not-be-built:%s" % variant)
                continue
            if t2.taxon_namespace is t1.taxon_namespace:
                ctx.note("namespace-variant-shares-the-namespace:%s" % variant)
                continue
            if pre_encoded:
                t1.encode_bipartitions()
                t2.encode_bipartitions()
            for op in sorted(ops):
                if op == "T.missing":
                    continue
                for x, y in ((t1, t2), (t2, t1)):
                    dcall(ctx, mon, ops[op], x, y)
                    if pre_encoded and op in TAKES_FLAG:
                        dcall(ctx, mon, ops[op], x, y, is_bipartitions_updated=True)
                ctx.nontrivial(("ns", variant, pre_encoded, op, rooted, n))
