"""Helpers of C07 (library-independent apart from ``build``/``extract`` which only touch the node API / raw fields).

The oracle of C07 looks at the *unrooted* tree behind a spec: a graph whose vertices are the spec nodes and whose
edges are the parent-child links.  Unlike vf.ref (taxa on childless nodes only) a taxon may sit on ANY vertex here,
because re-seeding at a leaf legitimately puts a taxon-bearing vertex on top of the drawing:

  taxa        multiset of taxon keys on all vertices
  leaves      taxon keys on vertices of graph degree <= 1 (childless non-root node, or a root with <= 1 child)
  bare_tips   number of taxon-less vertices of graph degree <= 1 (childless non-root node, or a root with one child)
  splits      for every parent-child edge the bipartition of the taxa, kept when both sides are non-empty
  total       sum of all lengths, the root's own (dangling) edge included, a missing length counting as 0
              (this is the library's documented Tree.length())
  dist        length of the path between every two taxon-bearing vertices (missing length = 0)
  scale       sum of the absolute lengths: the magnitude against which rounding is measured

Taxon identity is a key stamped on the Taxon object when the tree is built (``_vf_key``), never the label, so that
workloads with missing / empty / duplicate / non-ASCII labels are judged by the same oracle."""
import itertools

from .. import ref
from ..bridge import ExtractError


def keyof(taxon):
    if taxon is None:
        return None
    k = getattr(taxon, "_vf_key", None)
    return k if k is not None else "label:%r" % (taxon.label,)


def build(spec, rooted, label_of=None, extra_taxa=0):
    """dendropy.Tree with the structure of spec, made through the node API.  spec[0] values are taxon keys; the
    Taxon's label is label_of[key] when given (may be None / '' / a duplicate), else the key itself."""
    import dendropy as dp
    ns = dp.TaxonNamespace()
    taxa = {}

    def taxon_for(key):
        if key is None:
            return None
        t = taxa.get(key)
        if t is None:
            lbl = label_of[key] if (label_of is not None and key in label_of) else key
            t = dp.Taxon(label=lbl)
            t._vf_key = key
            ns.add_taxon(t)
            taxa[key] = t
        return t
    # namespace order = sorted keys (as the original workload), independent of the drawing
    for key in sorted(k for k in (n[0] for n in ref.preorder(spec)) if k is not None):
        taxon_for(key)
    for i in range(extra_taxa):
        t = dp.Taxon(label="unused%d" % i)
        t._vf_key = "unused%d" % i
        ns.add_taxon(t)
    tree = dp.Tree(taxon_namespace=ns)
    if rooted is not None:
        tree.is_rooted = rooted
    seed = tree.seed_node
    seed.taxon = taxon_for(spec[0])
    seed.label = spec[1]
    seed.edge.length = spec[2]
    stack = [(seed, spec)]
    while stack:
        nd, s = stack.pop()
        for cs in s[3]:
            ch = dp.Node(taxon=taxon_for(cs[0]), label=cs[1], edge_length=cs[2])
            nd.add_child(ch)
            stack.append((ch, cs))
    return tree


def extract(tree, with_nodes=False, limit=2000000):
    """spec of a live tree read from the raw child lists (true pre-order); taxon -> keyof(taxon)."""
    seed = tree._seed_node
    if seed is None:
        raise ExtractError("tree has no seed node")
    seen = set()
    nodes = []
    root = None
    stack = [(seed, None)]
    while stack:
        nd, parent_spec = stack.pop()
        if id(nd) in seen:
            raise ExtractError("node reached twice while walking child lists")
        seen.add(id(nd))
        if len(seen) > limit:
            raise ExtractError("more than %d nodes" % limit)
        e = nd._edge
        s = [keyof(getattr(nd, "taxon", None)), nd.label, e.length if e is not None else None, []]
        nodes.append((s, nd))
        if parent_spec is None:
            root = s
        else:
            parent_spec[3].append(s)
        for ch in reversed(nd._child_nodes):
            stack.append((ch, s))
    if with_nodes:
        return root, nodes
    return root


def taxa_below(spec):
    """id(node) -> frozenset of the taxon keys on the node and everything below it."""
    memo = {}
    for n in ref.postorder(spec):
        c = set() if n[0] is None else set([n[0]])
        for ch in n[3]:
            c |= memo[id(ch)]
        memo[id(n)] = frozenset(c)
    return memo


def pairwise(spec):
    """{(a, b): path length} for every ordered pair of distinct taxon-bearing vertices (missing length = 0)."""
    pm = ref.parent_map(spec)
    tv = [n for n in ref.preorder(spec) if n[0] is not None]
    chains = {}
    for v in tv:
        chain = []
        n, d = v, 0
        while n is not None:
            chain.append((id(n), d))
            d += (n[2] or 0)
            n = pm[id(n)]
        chains[v[0]] = chain
    out = {}
    for a, b in itertools.combinations(tv, 2):
        ia = dict(chains[a[0]])
        for i, d in chains[b[0]]:
            if i in ia:
                out[(a[0], b[0])] = out[(b[0], a[0])] = ia[i] + d
                break
    return out


def root_dists(spec):
    """taxon key -> distance from the root vertex (the root's own edge ignored, missing length = 0)."""
    out = {}
    stack = [(spec, 0)]
    while stack:
        n, d = stack.pop()
        if n[0] is not None:
            out[n[0]] = d
        for c in n[3]:
            stack.append((c, d + (c[2] or 0)))
    return out


def profile(spec):
    nodes = list(ref.preorder(spec))
    below = taxa_below(spec)
    full = below[id(spec)]
    splits = set()
    for n in nodes:
        if n is spec:
            continue
        c = below[id(n)]
        if c and c != full:
            splits.add(frozenset([c, full - c]))
    return {
        "taxa": sorted(n[0] for n in nodes if n[0] is not None),
        "leaves": sorted(n[0] for n in nodes if n[0] is not None and len(n[3]) + (0 if n is spec else 1) <= 1),
        "bare_tips": sum(1 for n in nodes if n[0] is None and ((not n[3] and n is not spec) or (n is spec and len(n[3]) == 1))),
        "bare_unary_root": spec[0] is None and len(spec[3]) == 1,
        "splits": frozenset(splits),
        "total": sum((n[2] or 0) for n in nodes),
        "scale": sum(abs(n[2] or 0) for n in nodes),
        "dist": pairwise(spec),
        "missing": any(n[2] is None for n in nodes if n is not spec),
        "root_length": spec[2] is not None,
    }


def undirected_dists(spec, start):
    """distance from spec node ``start`` to every node (by id), edges taken as undirected (missing length = 0)."""
    adj = {}
    for n in ref.preorder(spec):
        for c in n[3]:
            w = c[2] or 0
            adj.setdefault(id(n), []).append((c, w))
            adj.setdefault(id(c), []).append((n, w))
    dist = {id(start): 0}
    stack = [start]
    while stack:
        n = stack.pop()
        for m, w in adj.get(id(n), []):
            if id(m) not in dist:
                dist[id(m)] = dist[id(n)] + w
                stack.append(m)
    return dist


def close(a, b, scale, exact):
    """exact on integral / dyadic workloads; otherwise relative to the magnitude of what was summed."""
    if a == b:
        return True
    if exact:
        return False
    return abs(a - b) <= 1e-9 * abs(scale)


def flagname(f):
    return {True: "rooted", False: "unrooted", None: "undefined"}.get(f, repr(f))
