"""C05 helper: (1) the reference model (DendroPy-free: label sets, Fractions, the statistics
module) and (2) further down, the Monitor that hooks the real library and compares it with
that model (it touches library objects only through the hooks, vf.bridge.extract and the
public attributes the property statement names).

--- (1) reference model ---------------------------------------------------------------

A *split key* is, for rooted collections, the frozenset of leaf labels below an
edge (a clade; the root's key is the full label set) and, for unrooted ones, the
unordered pair {side, other side} (the root's key is {all, empty}).

RefDist is advanced one tree at a time (``add``) and answers, from the plain
definitions, everything the property statement talks about:

  freq(key)      sum of the weights of the trees containing the split / sum of all weights
  lengths[key]   one value per tree containing the split (sum of the lengths of all edges
                 that induce the split in that tree; None when any of them is missing)
  ages[key]      one value per tree (distance of the split's node to the tips; None when the
                 split is induced by several nodes, i.e. the node is ambiguous)
"""
import math
import random
import statistics
from fractions import Fraction

from .. import ref, bridge


def split_key(c, full, rooted):
    return c if rooted else frozenset((c, full - c))


def key_sides(key, rooted, full):
    """(side, other side) of a key as two frozensets of labels."""
    if rooted:
        return key, full - key
    sides = list(key)
    if len(sides) == 1:          # {half, half} cannot happen for a set partition unless empty
        return sides[0], full - sides[0]
    return sides[0], sides[1]


def is_trivial(key, rooted, full):
    a, b = key_sides(key, rooted, full)
    if rooted:
        return len(a) <= 1 or len(a) >= len(full)
    return min(len(a), len(b)) <= 1


def compatible(k1, k2, rooted, full):
    """can the two splits be edges of one tree (set definition)."""
    a1, a0 = key_sides(k1, rooted, full)
    b1, b0 = key_sides(k2, rooted, full)
    if rooted:      # clades: disjoint or nested
        return (not (a1 & b1)) or a1 <= b1 or b1 <= a1
    return (not (a1 & b1)) or (not (a1 & b0)) or (not (a0 & b1)) or (not (a0 & b0))


def node_ages(spec):
    """id(node) -> distance to the tips along the first-child path; second value:
    largest disagreement between children (0 on ultrametric trees)."""
    age = {}
    worst = 0.0
    for n in ref.postorder(spec):
        if not n[3]:
            age[id(n)] = 0.0
            continue
        vals = [age[id(c)] + (c[2] or 0) for c in n[3]]
        age[id(n)] = vals[0]
        worst = max(worst, max(vals) - min(vals))
    return age, worst


def tree_contrib(spec, rooted):
    """key -> [length|None, age|None, number of inducing edges] for one tree."""
    cl = ref.clades(spec)
    full = cl[-1][1]
    ages, _ = node_ages(spec)
    out = {}
    for n, c in cl:
        k = split_key(c, full, rooted)
        ln = n[2]
        ent = out.get(k)
        if ent is None:
            out[k] = [ln, ages[id(n)], 1]
        else:
            ent[0] = None if (ent[0] is None or ln is None) else ent[0] + ln
            ent[1] = None
            ent[2] += 1
    return out, full


def _dyadic(w):
    try:
        f = Fraction(w)
    except (TypeError, ValueError):
        return False
    d = f.denominator
    return d & (d - 1) == 0 and d <= 1024 and abs(f) < 1 << 20


class RefDist(object):
    def __init__(self, use_weights=True, ignore_lengths=False, ignore_ages=True, owner="SplitDistribution"):
        self.use_weights = use_weights
        self.ignore_lengths = ignore_lengths
        self.ignore_ages = ignore_ages
        self.owner = owner
        self.rooted = None
        self.mixed = False
        self.n = 0
        self.total = Fraction(0)
        self.counts = {}
        self.lengths = {}
        self.ages = {}
        self.exact = True          # all float sums the library forms are exact => == comparisons are fair
        self.specs = []
        self.topos = []
        self.weights = []          # weights the reference used
        self.raw_weights = []      # tree.weight as found on the trees
        self.pending_invalidation = False
        self.stale_suspect = None
        self.full = None
        self.tainted = False       # a frequency violation was reported for the real object
        self.queries = 0           # frequency tables read so far (cache populated)
        self.max_edges_per_split = 1

    def add(self, spec, rooted, weight):
        if self.rooted is None:
            self.rooted = rooted
        elif self.rooted != rooted:
            self.mixed = True
        contrib, full = tree_contrib(spec, self.rooted)
        if self.full is None:
            self.full = full
        w = weight if (self.use_weights and weight is not None) else 1
        if not _dyadic(w):
            self.exact = False
        fw = Fraction(w)
        self.n += 1
        self.total += fw
        for k, (ln, age, ne) in contrib.items():
            self.counts[k] = self.counts.get(k, Fraction(0)) + fw
            self.lengths.setdefault(k, []).append(ln)
            self.ages.setdefault(k, []).append(age)
            if ne > self.max_edges_per_split:
                self.max_edges_per_split = ne
        self.specs.append(spec)
        self.topos.append(ref.topology(spec, self.rooted))
        self.weights.append(w)
        self.raw_weights.append(weight)
        return contrib

    def freq(self, key):
        c = self.counts.get(key)
        if c is None or not self.total:
            return 0.0
        return float(c / self.total)

    def nontrivial_freqs(self):
        return dict((k, self.freq(k)) for k in self.counts if not is_trivial(k, self.rooted, self.full))

    def has_conflict(self):
        return any(0 < c < self.total for c in self.counts.values())


def close(a, b, rel=1e-9, abs_=1e-12):
    try:
        return abs(a - b) <= max(abs_, rel * max(abs(a), abs(b)))
    except TypeError:
        return False


def consensus_failures(S, F, thr, rooted, full, exact, eps=1e-9):
    """S: non-trivial keys of the consensus tree; F: non-trivial key -> reference frequency.
    Returns [(clause, key)].  Splits whose frequency lies within eps of the threshold on
    workloads with inexact float sums are don't-cares."""
    t = 0.0 if thr is None else thr
    slack = 0.0 if exact else eps

    def surely_in(f):
        return f >= t + slack

    def surely_out(f):
        return f < t - slack
    fails = []
    if thr is not None and thr > 0.5:
        for s, f in F.items():
            if surely_in(f) and s not in S:
                fails.append(("majority-rule-misses-split-at-or-above-threshold", s))
        for s in S:
            if surely_out(F.get(s, 0.0)):
                fails.append(("majority-rule-has-split-below-threshold", s))
        return fails
    for s in S:
        if surely_out(F.get(s, 0.0)):
            fails.append(("greedy-has-split-below-threshold", s))
    Sl = list(S)
    for i in range(len(Sl)):
        for j in range(i + 1, len(Sl)):
            if not compatible(Sl[i], Sl[j], rooted, full):
                fails.append(("greedy-has-incompatible-pair", Sl[i]))
    for s, f in F.items():
        if s in S or not surely_in(f):
            continue
        blockers = [u for u in S if not compatible(s, u, rooted, full)]
        if not blockers:
            fails.append(("greedy-not-maximal", s))
        elif not any(F.get(u, 0.0) >= f - slack for u in blockers):
            fails.append(("greedy-not-in-decreasing-frequency-order", s))
    return fails


def summary_reference(vals):
    """mean / median / range / sample sd (None for n == 1: undefined) from the statistics module."""
    fr = [Fraction(v) for v in vals]
    out = {"mean": float(statistics.mean(fr)), "median": float(statistics.median(fr)),
           "range": (min(vals), max(vals)), "n": len(vals)}
    if len(vals) >= 2:
        out["var"] = float(statistics.variance(fr))
        out["sd"] = statistics.stdev([float(v) for v in vals])
    else:
        out["var"] = None
        out["sd"] = None
    return out


def key_repr(key, rooted, full):
    a, b = key_sides(key, rooted, full)
    if rooted:
        return "{%s}" % ",".join(sorted(a))
    return "{%s}|{%s}" % (",".join(sorted(a)), ",".join(sorted(b)))


# --- (2) monitor ------------------------------------------------------------------------------
GTH = None  # constants.GREATER_THAN_HALF, filled lazily


def _gth():
    global GTH
    if GTH is None:
        from dendropy.utility import constants
        GTH = constants.GREATER_THAN_HALF
    return GTH


_MISSING = object()


def _arg(args, kw, idx, name, default=None):
    if name in kw:
        return kw[name]
    if idx is not None and idx < len(args):
        return args[idx]
    return default


def _ru(rooted):
    return "rooted" if rooted else "unrooted"


class Monitor(object):
    def __init__(self, ctx, ns):
        self.ctx = ctx
        self.ns = ns
        self.bits = dict((t.label, ns.taxon_bitmask(t)) for t in ns)
        self.full = frozenset(self.bits)
        self.low = min(self.bits, key=self.bits.get)
        self.reg = {}        # id(SplitDistribution) -> (sd, RefDist)
        self.reg_ta = {}     # id(TreeArray) -> (ta, RefDist)
        self.opstack = []
        self.last_calc = None
        self.rng = random.Random(0)

    # ---- label sets <-> masks ------------------------------------------------------
    def mask_of(self, labels):
        m = 0
        for x in labels:
            m |= self.bits[x]
        return m

    def mask(self, key, rooted):
        if rooted:
            return self.mask_of(key)
        a, b = key_sides(key, False, self.full)
        return self.mask_of(b if self.low in a else a)

    def ref_of(self, sd):
        e = self.reg.get(id(sd))
        return e[1] if e is not None and e[0] is sd else None

    # ---- installation -----------------------------------------------------------------
    def install(self, hooks):
        from dendropy.datamodel import treecollectionmodel as tcm
        from dendropy.calculate import treesum
        SD, TA, TL = tcm.SplitDistribution, tcm.TreeArray, tcm.TreeList
        kw = {"outermost_only": False}
        hooks.install(SD, "__init__", post=self.sd_init, **kw)
        hooks.install(TA, "__init__", post=self.ta_init, **kw)
        hooks.install(SD, "count_splits_on_tree", pre=self.count_pre, post=self.count_post, **kw)
        hooks.install(SD, "__getitem__", **kw)
        hooks.install(SD, "calc_freqs", **kw)
        hooks.install(SD, "consensus_tree", pre=self.push("consensus"), post=self.consensus_post, **kw)
        hooks.install(SD, "summarize_splits_on_tree", post=self.summarize_post, **kw)
        hooks.install(SD, "collapse_edges_with_less_than_minimum_support", pre=self.collapse_pre,
                      post=self.collapse_post, **kw)
        hooks.install(TA, "calculate_log_product_of_split_supports", post=self.calc_post("log-product"), **kw)
        hooks.install(TA, "calculate_sum_of_split_supports", post=self.calc_post("sum"), **kw)
        hooks.install(TA, "maximum_product_of_split_support_tree", pre=self.push("max-product-tree"),
                      post=self.maxtree_post("log-product"), **kw)
        hooks.install(TA, "maximum_sum_of_split_support_tree", pre=self.push("max-sum-tree"),
                      post=self.maxtree_post("sum"), **kw)
        hooks.install(TA, "from_tree_list", post=self.from_tree_list_post, **kw)
        hooks.install(TA, "consensus_tree", **kw)
        hooks.install(TA, "restore_tree", **kw)
        hooks.install(TL, "consensus", **kw)
        hooks.install(TL, "split_distribution", post=self.tl_split_distribution_post, **kw)
        hooks.install(TL, "maximum_product_of_split_support_tree", pre=self.clear_calc,
                      post=self.tl_maxtree_post("log-product"), **kw)
        hooks.install(TL, "maximum_sum_of_split_support_tree", pre=self.clear_calc,
                      post=self.tl_maxtree_post("sum"), **kw)
        hooks.install(treesum.TreeSummarizer, "tree_from_splits", post=self.legacy_tree_from_splits_post, **kw)
        hooks.install(treesum.TreeSummarizer, "map_split_support_to_tree", post=self.legacy_map_support_post, **kw)

    def push(self, op):
        def pre(obj, args, kw):
            self.opstack.append(op)
            return op
        return pre

    def pop(self, snap):
        if snap is not None and self.opstack and self.opstack[-1] == snap:
            self.opstack.pop()

    def clear_calc(self, obj, args, kw):
        self.last_calc = None

    # ---- construction ---------------------------------------------------------------------
    def sd_init(self, snap, sd, args, kw, result, exc):
        if exc is not None:
            return
        r = RefDist(use_weights=_arg(args, kw, 3, "use_tree_weights", True),
                    ignore_lengths=_arg(args, kw, 1, "ignore_edge_lengths", False),
                    ignore_ages=_arg(args, kw, 2, "ignore_node_ages", True))
        self.reg[id(sd)] = (sd, r)

    def ta_init(self, snap, ta, args, kw, result, exc):
        if exc is not None:
            return
        r = self.ref_of(ta._split_distribution)
        if r is None:
            self.ctx.note("treearray-distribution-not-registered")
            return
        r.owner = "TreeArray"
        r.use_weights = _arg(args, kw, 4, "use_tree_weights", True)
        r.ignore_lengths = _arg(args, kw, 2, "ignore_edge_lengths", False)
        r.ignore_ages = _arg(args, kw, 3, "ignore_node_ages", True)
        self.reg_ta[id(ta)] = (ta, r)

    # ---- lock-step advance ---------------------------------------------------------------------
    def count_pre(self, sd, args, kw):
        tree = _arg(args, kw, 0, "tree")
        try:
            spec = bridge.extract(tree)
        except bridge.ExtractError:
            return None
        return (spec, bool(tree.is_rooted), tree.weight)

    def count_post(self, snap, sd, args, kw, result, exc):
        ctx = self.ctx
        if exc is not None:
            ctx.unexpected("count_splits_on_tree", exc)
            return
        r = self.ref_of(sd)
        if r is None or snap is None:
            ctx.note("count-on-unregistered-distribution")
            return
        spec, rooted, weight = snap
        if frozenset(ref.leaf_taxa(spec)) != self.full or len(ref.leaf_taxa(spec)) != len(self.full):
            ctx.note("tree-leafset-differs-from-namespace")
        contrib = r.add(spec, rooted, weight)
        ctx.ev("lockstep-advance")
        if r.queries:
            r.pending_invalidation = True
        rooted = r.rooted
        exp = {}
        for k, v in contrib.items():
            exp[self.mask(k, rooted)] = (k, v)
        splits, elens, nages = result
        got = sorted(splits)
        if got != sorted(exp):
            dup = len(set(got)) != len(got)
            r.tainted = True
            ctx.violation("count|%s|%s" % ("same-split-counted-twice-in-one-tree" if dup else "splits-of-tree-wrong",
                                           _ru(rooted)),
                          "count_splits_on_tree returned %s, tree has %s" % (got, sorted(exp)),
                          {"tree": ref.to_newick(spec), "bits": self.bits})
            return
        if not r.ignore_lengths:
            for m, ln in zip(splits, elens):
                want = exp[m][1][0]
                if want is None:
                    continue
                ctx.ev("count-length-checked")
                if ln is None or not close(ln, want):
                    ctx.violation("count|edge-length-of-split-wrong|%s" % _ru(rooted),
                                  "length %r recorded for split, tree has %r" % (ln, want),
                                  {"tree": ref.to_newick(spec), "split": key_repr(exp[m][0], rooted, self.full)})
                    break
        if not r.ignore_ages and rooted:
            for m, ag in zip(splits, nages):
                want = exp[m][1][1]
                if want is None:
                    continue
                ctx.ev("count-age-checked")
                if ag is None or not close(ag, want):
                    ctx.violation("count|node-age-of-split-wrong", "age %r recorded, tree has %r" % (ag, want),
                                  {"tree": ref.to_newick(spec), "split": key_repr(exp[m][0], rooted, self.full)})
                    break

    # ---- F: frequencies -------------------------------------------------------------------------
    def check_frequencies(self, sd, where="query"):
        ctx = self.ctx
        r = self.ref_of(sd)
        if r is None:
            ctx.note("frequency-query-on-unregistered-distribution")
            return False
        if r.n == 0 or r.mixed or not r.total:
            return False
        if r.tainted:
            ctx.note("downstream-not-judged-after-frequency-violation")
            return False
        rel = 1e-12 if r.exact else 1e-9
        table = sd.split_frequencies
        expected = {}
        for k in r.counts:
            expected[self.mask(k, r.rooted)] = k
        bad = None
        for m, k in expected.items():
            f = r.freq(k)
            got = sd[m]
            ctx.ev("freq-checked")
            if not close(got, f, rel=rel, abs_=1e-15) or table.get(m, 0.0) != got:
                bad = ("wrong-value", m, k, got, f)
                break
        if bad is None:
            for m, v in table.items():
                if m not in expected and v:
                    bad = ("reports-split-that-occurs-in-no-tree", m, None, v, 0.0)
                    break
        if bad is None:
            allm = self.mask_of(self.full)
            for _ in range(6):
                m = self.rng.randrange(0, allm + 1)
                if not r.rooted:
                    m &= ~self.bits[self.low]     # the canonical (normalised) name of an unrooted split
                if m in expected:
                    continue
                ctx.ev("freq-checked")
                ctx.ev("absent-split-checked")
                v = sd[m]
                if v != 0.0:
                    bad = ("reports-split-that-occurs-in-no-tree", m, None, v, 0.0)
                    break
        if getattr(r, "pending_invalidation", False):
            ctx.ev("cache-invalidation-observed")
            r.pending_invalidation = False
        r.queries += 1
        if bad is None:
            return True
        clause, m, k, got, f = bad
        r.tainted = True
        disc = r.owner
        if clause == "wrong-value":
            # does the table equal the one obtained under the opposite weight policy?
            alt = self._alt_freq(r, k)
            if (r.owner == "TreeArray" and not r.use_weights and alt is not None and close(got, alt, rel=1e-9)
                    and getattr(sd, "use_tree_weights", None)):
                disc = "TreeArray-use_tree_weights-False-ignored"
            elif getattr(r, "stale_suspect", None) is not None and close(got, r.stale_suspect.get(m, -1.0)):
                disc = "%s|table-of-an-earlier-state" % r.owner
        ctx.violation("frequency|%s|%s" % (clause, disc),
                      "sd[%s] = %r, reference %r after %d trees (%s)" % (bin(m), got, f, r.n, where),
                      {"trees": [ref.to_newick(s) for s in r.specs[:8]], "tree.weight": r.raw_weights[:8],
                       "weights-the-reference-used": r.weights[:8],
                       "split": key_repr(k, r.rooted, self.full) if k is not None else bin(m),
                       "rooted": r.rooted, "use_tree_weights_requested": r.use_weights, "bits": self.bits})
        return False

    def _alt_freq(self, r, key):
        from fractions import Fraction
        tot = Fraction(0)
        cnt = Fraction(0)
        for spec, w in zip(r.specs, r.raw_weights):
            fw = Fraction(w if w is not None else 1)
            tot += fw
            if key in self._keys_of(spec, r.rooted):
                cnt += fw
        if not tot:          # the library falls back to the number of trees when the weights sum to 0
            return float(cnt) / len(r.specs)
        return float(cnt / tot)

    def _keys_of(self, spec, rooted):
        return tree_contrib(spec, rooted)[0]

    def remember_table(self, sd):
        """snapshot of the current (reference) table so that a later stale answer can be named."""
        r = self.ref_of(sd)
        if r is not None and r.n:
            r.stale_suspect = dict((self.mask(k, r.rooted), r.freq(k)) for k in r.counts)

    def from_tree_list_post(self, snap, obj, args, kw, result, exc):
        if exc is None:
            self.check_frequencies(result._split_distribution, "TreeArray.from_tree_list")

    def tl_split_distribution_post(self, snap, obj, args, kw, result, exc):
        if exc is None:
            self.check_frequencies(result, "TreeList.split_distribution")

    # ---- C: consensus ---------------------------------------------------------------------------------
    def usable(self, r):
        if r is None:
            self.ctx.note("operation-on-unregistered-distribution")
            return False
        if r.tainted:
            self.ctx.note("downstream-not-judged-after-frequency-violation")
            return False
        if r.mixed or r.n == 0 or not r.total:
            return False
        return True

    def consensus_post(self, snap, sd, args, kw, result, exc):
        self.pop(snap)
        if exc is not None:
            self.ctx.unexpected("consensus_tree", exc)
            return
        r = self.ref_of(sd)
        if not self.usable(r):
            return
        thr = _arg(args, kw, 0, "min_freq", _gth())
        self.judge_consensus("consensus", result, r, thr)

    def judge_consensus(self, op, tree, r, thr):
        ctx = self.ctx
        try:
            spec = bridge.extract(tree)
        except bridge.ExtractError as e:
            ctx.violation("%s|malformed-tree" % op, str(e))
            return None
        ctx.ev("consensus-checked")
        taxa = [n[0] for n in ref.preorder(spec) if n[0] is not None]
        leaves_ok = all(n[0] is not None for n in ref.leaves(spec))
        inner_ok = all(n[0] is None for n in ref.preorder(spec) if n[3])
        detail = {"consensus": ref.to_newick(spec), "threshold": thr, "rooted": r.rooted,
                  "trees": [ref.to_newick(s) for s in r.specs[:8]], "weights": r.weights[:8]}
        if sorted(taxa) != sorted(self.full) or not leaves_ok or not inner_ok:
            ctx.violation("%s|taxa-not-spanned-exactly-once" % op,
                          "consensus carries taxa %s, namespace has %s" % (sorted(taxa), sorted(self.full)), detail)
            return spec
        if bool(tree.is_rooted) != bool(r.rooted) or tree.is_rooted is None:
            ctx.violation("%s|rooting-state-differs-from-inputs" % op,
                          "consensus is_rooted=%r, inputs %s" % (tree.is_rooted, _ru(r.rooted)), detail)
        S = ref.nontrivial_splits(spec, r.rooted)
        F = r.nontrivial_freqs()
        majority = thr is not None and thr > 0.5
        ctx.ev("consensus-majority-checked" if majority else "consensus-greedy-checked")
        fails = consensus_failures(S, F, thr, r.rooted, self.full, r.exact)
        seen = set()
        for clause, key in fails:
            if clause in seen:
                continue
            seen.add(clause)
            d = dict(detail)
            d["split"] = key_repr(key, r.rooted, self.full)
            d["f(split)"] = F.get(key, 0.0)
            d["frequencies"] = sorted(((key_repr(k, r.rooted, self.full), f) for k, f in F.items()),
                                      key=lambda x: -x[1])[:12]
            ctx.violation("%s|%s|%s" % (op, clause, _ru(r.rooted)),
                          "%s at threshold %r: split %s (f=%r)" % (clause, thr, d["split"], d["f(split)"]), d)
        return spec

    # ---- S: annotations ------------------------------------------------------------------------------------
    def summarize_post(self, snap, sd, args, kw, result, exc):
        ctx = self.ctx
        op = self.opstack[-1] if self.opstack else "summarize"
        if exc is not None:
            sel = kw.get("set_edge_lengths")
            if isinstance(exc, ValueError) and sel in ("mean-length", "median-length", "mean-age", "median-age"):
                ctx.ev("documented-error:summarize:ValueError")
                return
            ctx.unexpected("summarize_splits_on_tree", exc)
            return
        r = self.ref_of(sd)
        if not self.usable(r):
            return
        tree = _arg(args, kw, 0, "tree")
        self.judge_annotations(op, tree, r, kw)

    def judge_annotations(self, op, tree, r, kw):
        ctx = self.ctx
        try:
            spec, nodes = bridge.extract(tree, with_nodes=True)
        except bridge.ExtractError as e:
            ctx.violation("%s|malformed-tree" % op, str(e))
            return
        nm = bridge.node_map(nodes)
        cl = ref.clades(spec)
        if cl[-1][1] != self.full or len(ref.leaf_taxa(spec)) != len(self.full):
            ctx.note("summarised-target-leafset-differs-from-namespace")
            return
        rooted = r.rooted
        pct = kw.get("support_as_percentages", False)
        as_attr = kw.get("add_support_as_node_attribute", True)
        as_ann = kw.get("add_support_as_node_annotation", True)
        as_label = kw.get("set_support_as_node_label", None)
        dec = kw.get("support_label_decimals", 4)
        sel = kw.get("set_edge_lengths", None)
        len_attr = kw.get("add_edge_length_summaries_as_edge_attributes", True) and not r.ignore_lengths
        age_attr = kw.get("add_node_age_summaries_as_node_attributes", True) and not r.ignore_ages and rooted
        rel = 1e-12 if r.exact else 1e-9
        per_key = {}
        for s, c in cl:
            per_key[split_key(c, self.full, rooted)] = per_key.get(split_key(c, self.full, rooted), 0) + 1
        reported = set()

        def bad(key, what, detail):
            if key in reported:
                return
            reported.add(key)
            d = {"target": ref.to_newick(spec), "rooted": rooted, "settings": dict((k, repr(v)) for k, v in kw.items() if k != "tree"),
                 "trees": [ref.to_newick(s) for s in r.specs[:8]], "weights": r.weights[:8], "bits": self.bits}
            d.update(detail)
            ctx.violation(key, what, d)
        for s, c in cl:
            nd = nm[id(s)]
            key = split_key(c, self.full, rooted)
            krep = key_repr(key, rooted, self.full)
            f = r.freq(key)
            exp = f * 100 if pct else f
            ctx.ev("support-checked")
            values = []
            if as_attr:
                values.append(("attribute", getattr(nd, "support", _MISSING)))
            if as_ann:
                try:
                    values.append(("annotation", nd.annotations.get_value("support", _MISSING)))
                except Exception as e:       # pragma: no cover
                    values.append(("annotation", e))
            if sel == "support":
                values.append(("edge-length", nd.edge.length))
            wrong = [(w, v) for w, v in values
                     if v is _MISSING or isinstance(v, Exception) or not close(v, exp, rel=rel, abs_=1e-13)]
            bp = getattr(nd.edge, "bipartition", None)
            carried = getattr(bp, "_split_bitmask", None)
            expm = self.mask(key, rooted)
            if carried != expm:
                # the node is labelled with the mask of another split: everything looked up for it is
                # that other split's data -- one mechanism, reported once, nothing else judged on the node
                if rooted and carried == self.mask(split_key(c, self.full, False), False):
                    disc = "rooted-tree-carries-unrooted-normalised-split-mask"
                else:
                    disc = "node-carries-wrong-split-mask"
                if wrong:
                    bad("%s|support-wrong|%s" % ("max-credibility-tree" if op.startswith("max-") else op, disc),
                        "support of %s is %r (%s), frequency is %r" % (krep, wrong[0][1], wrong[0][0], exp),
                        {"split": krep, "mask-carried": carried, "mask-of-clade": expm})
                else:
                    ctx.note("node-with-foreign-split-mask-but-no-observable-difference")
                continue
            if wrong:
                bad("%s|support-wrong|value" % op,
                    "support of %s is %r (%s), frequency is %r" % (krep, wrong[0][1], wrong[0][0], exp),
                    {"split": krep})
            if as_label:
                ctx.ev("support-label-checked")
                lab = nd.label
                ok = isinstance(lab, str)
                if ok:
                    try:
                        lv = float(lab)
                    except ValueError:
                        ok = False
                if ok:
                    frac = lab.split(".")[1] if "." in lab else ""
                    ok = len(frac) == dec and abs(lv - exp) <= 0.5 * 10 ** (-dec) * (1 + 1e-6) + 1e-9
                if not ok:
                    bad("%s|support-label-wrong" % op,
                        "label %r for support %r with %r decimals" % (lab, exp, dec), {"split": krep})
            if per_key[key] > 1:
                ctx.note("split-induced-by-several-target-edges-summaries-not-judged")
                continue
            for kind, on, store, tgt in (("edge-length", len_attr, r.lengths, nd.edge), ("node-age", age_attr, r.ages, nd)):
                if not on:
                    continue
                vals = store.get(key)
                if not vals:
                    ctx.note("%s-summary-of-split-in-no-tree-not-judged" % kind)
                    continue
                if any(v is None for v in vals):
                    ctx.note("%s-summary-with-missing-values-not-judged" % kind)
                    continue
                want = summary_reference(vals)
                pre = "length_" if kind == "edge-length" else "age_"
                evn = "summary-stat-checked" if kind == "edge-length" else "age-summary-stat-checked"
                for stat in ("mean", "median"):
                    got = getattr(tgt, pre + stat, _MISSING)
                    ctx.ev(evn)
                    if got is _MISSING or not close(got, want[stat]):
                        bad("%s|%s-summary-wrong|%s" % (op, kind, stat),
                            "%s%s of %s is %r, reference %r" % (pre, stat, krep, got, want[stat]),
                            {"split": krep, "values": vals[:20]})
                got = getattr(tgt, pre + "range", _MISSING)
                ctx.ev(evn)
                try:
                    okr = (got is not _MISSING and len(got) == 2 and close(got[0], want["range"][0])
                           and close(got[1], want["range"][1]))
                except TypeError:
                    okr = False
                if not okr:
                    bad("%s|%s-summary-wrong|range" % (op, kind),
                        "%srange of %s is %r, reference %r" % (pre, krep, got, want["range"]),
                        {"split": krep, "values": vals[:20]})
                got = getattr(tgt, pre + "sd", _MISSING)
                if want["sd"] is None:
                    ctx.note("sd-of-a-single-value-not-judged")
                elif isinstance(got, complex):
                    ctx.ev(evn)
                    bad("summary|sd-is-a-complex-number|one-pass-variance-negative",
                        "%ssd of %s is %r for values with sample sd %r" % (pre, krep, got, want["sd"]),
                        {"split": krep, "values": vals[:20]})
                else:
                    ctx.ev(evn)
                    try:
                        oks = (got is not _MISSING and got >= 0
                               and abs(got * got - want["var"]) <= 1e-9 * (want["var"] + want["mean"] ** 2) + 1e-300)
                    except TypeError:
                        oks = False
                    if not oks:
                        bad("%s|%s-summary-wrong|sd" % (op, kind),
                            "%ssd of %s is %r, sample sd is %r" % (pre, krep, got, want["sd"]),
                            {"split": krep, "values": vals[:20]})
                if kind == "edge-length" and sel in ("mean-length", "median-length"):
                    ctx.ev(evn)
                    w = want["mean" if sel == "mean-length" else "median"]
                    if nd.edge.length is None or not close(nd.edge.length, w):
                        bad("%s|set_edge_lengths-wrong|%s" % (op, sel),
                            "edge length of %s set to %r, reference %r" % (krep, nd.edge.length, w),
                            {"split": krep, "values": vals[:20]})
                if kind == "node-age" and sel in ("mean-age", "median-age"):
                    ctx.ev(evn)
                    w = want["mean" if sel == "mean-age" else "median"]
                    ga = getattr(nd, "age", _MISSING)
                    if ga is _MISSING or ga is None or not close(ga, w):
                        bad("%s|set_edge_lengths-wrong|%s" % (op, sel),
                            "node age of %s set to %r, reference %r" % (krep, ga, w),
                            {"split": krep, "values": vals[:20]})

    # ---- K: collapse -------------------------------------------------------------------------------------------
    def collapse_pre(self, sd, args, kw):
        tree = _arg(args, kw, 0, "tree")
        try:
            return bridge.extract(tree)
        except bridge.ExtractError:
            return None

    def collapse_post(self, snap, sd, args, kw, result, exc):
        ctx = self.ctx
        if exc is not None:
            if isinstance(exc, ValueError) and "rooted" in str(exc):
                ctx.ev("documented-error:collapse:ValueError")
                return
            ctx.unexpected("collapse_edges_with_less_than_minimum_support", exc)
            return
        r = self.ref_of(sd)
        if not self.usable(r) or snap is None:
            return
        tree = _arg(args, kw, 0, "tree")
        thr = _arg(args, kw, 1, "min_freq", _gth())
        try:
            post = bridge.extract(tree)
        except bridge.ExtractError as e:
            ctx.violation("collapse|malformed-tree", str(e))
            return
        pre = snap
        rooted = r.rooted
        if frozenset(ref.leaf_taxa(pre)) != self.full:
            ctx.note("collapse-target-leafset-differs-from-namespace")
            return
        ctx.ev("collapse-checked")
        detail = {"before": ref.to_newick(pre), "after": ref.to_newick(post), "threshold": thr, "rooted": rooted,
                  "trees": [ref.to_newick(s) for s in r.specs[:8]], "weights": r.weights[:8]}
        if sorted(ref.leaf_taxa(post)) != sorted(ref.leaf_taxa(pre)):
            ctx.violation("collapse|leaf-set-changed", "leaves differ after collapse", detail)
            return
        P = ref.nontrivial_splits(pre, rooted)
        Q = ref.nontrivial_splits(post, rooted)
        slack = 0.0 if r.exact else 1e-9
        for s in Q - P:
            d = dict(detail, split=key_repr(s, rooted, self.full))
            ctx.violation("collapse|new-split-appeared|%s" % _ru(rooted), "collapse created a split", d)
            break
        for s in P:
            f = r.freq(s)
            d = dict(detail, split=key_repr(s, rooted, self.full), f=f)
            if f >= thr + slack and s not in Q:
                ctx.violation("collapse|removed-edge-at-or-above-threshold|%s" % _ru(rooted),
                              "edge with f=%r removed at threshold %r" % (f, thr), d)
                break
            if f < thr - slack and s in Q:
                ctx.violation("collapse|kept-edge-below-threshold|%s" % _ru(rooted),
                              "edge with f=%r kept at threshold %r" % (f, thr), d)
                break
        if not rooted and len(pre[3]) == 2:
            ctx.note("unrooted-basal-bifurcation-root-to-tip-not-judged")
            return
        if any(len(n[3]) == 1 for n in ref.preorder(pre)):
            ctx.note("collapse-target-with-unary-nodes")
        dpre = dict((n[0], d) for n, d, _ in ref.root_distances(pre) if not n[3])
        dpost = dict((n[0], d) for n, d, _ in ref.root_distances(post) if not n[3])
        for lab, d0 in dpre.items():
            ctx.ev("root-to-tip-checked")
            if not close(d0, dpost.get(lab, float("nan")), rel=1e-9, abs_=1e-9):
                ctx.violation("collapse|root-to-tip-distance-changed|%s" % _ru(rooted),
                              "distance root -> %s was %r, is %r" % (lab, d0, dpost.get(lab)), detail)
                break

    # ---- M: credibility trees -----------------------------------------------------------------------------------------
    def calc_post(self, kind):
        def post(snap, ta, args, kw, result, exc):
            ctx = self.ctx
            if exc is not None:
                ctx.unexpected("calculate_%s_of_split_supports" % kind, exc)
                return
            scores, idx = result
            self.last_calc = (kind, list(scores), idx, ta)
            e = self.reg_ta.get(id(ta))
            r = e[1] if e is not None else None
            if r is None or not scores:
                return
            ctx.ev("scores-checked")
            if idx is None or scores[idx] != max(scores):
                ctx.violation("calculate-%s|returned-index-is-not-an-argmax" % kind,
                              "index %r, scores %r" % (idx, scores[:10]))
            if r.tainted or r.mixed or len(scores) != r.n:
                return
            incl = _arg(args, kw, 0, "include_external_splits", False)
            for i, spec in enumerate(r.specs):
                keys = self._keys_of(spec, r.rooted)
                val = 0.0
                for k in keys:
                    a, b = key_sides(k, r.rooted, self.full)
                    if not incl and min(len(a), len(b)) <= 1 and not (r.rooted and k == self.full):
                        continue      # the library's reading: bipartition-trivial splits are skipped (on rooted
                                      # trees that includes the clade of all taxa but one), the root clade counts
                    f = r.freq(k)
                    if kind == "sum":
                        val += f
                    elif f:
                        val += math.log(f)
                if not close(val, scores[i], rel=1e-9, abs_=1e-9):
                    ctx.note("score-differs-from-reference-formula:%s" % kind)
                    break
        return post

    def maxtree_post(self, kind):
        def post(snap, ta, args, kw, result, exc):
            ctx = self.ctx
            self.pop(snap)
            op = "max-product-tree" if kind == "log-product" else "max-sum-tree"
            if exc is not None:
                sel = kw.get("set_edge_lengths")
                if isinstance(exc, ValueError) and sel in ("mean-length", "median-length", "mean-age", "median-age"):
                    return
                ctx.unexpected(op, exc)
                return
            e = self.reg_ta.get(id(ta))
            r = e[1] if e is not None else None
            if r is None or r.mixed or r.n == 0:
                return
            calc = self.last_calc
            if calc is None or calc[0] != kind or calc[3] is not ta or len(calc[1]) != r.n:
                ctx.note("scores-not-observed-for-max-tree")
                return
            scores = calc[1]
            best = max(scores)
            try:
                spec = bridge.extract(result)
            except bridge.ExtractError as ex:
                ctx.violation("%s|malformed-tree" % op, str(ex))
                return
            ctx.ev("maxcred-checked")
            topo = ref.topology(spec, r.rooted)
            winners = [i for i, s in enumerate(scores) if s == best]
            if not any(r.topos[i] == topo for i in winners) or sorted(ref.leaf_taxa(spec)) != sorted(self.full):
                ctx.violation("%s|topology-is-not-that-of-an-argmax-input-tree|%s" % (op, _ru(r.rooted)),
                              "returned tree differs from every input tree with the maximal reported score",
                              {"returned": ref.to_newick(spec), "scores": scores[:12],
                               "argmax-trees": [ref.to_newick(r.specs[i]) for i in winners[:3]]})
            if bool(result.is_rooted) != bool(r.rooted):
                ctx.violation("%s|rooting-state-differs-from-inputs" % op, "is_rooted=%r" % result.is_rooted)
        return post

    def tl_maxtree_post(self, kind):
        def post(snap, tl, args, kw, result, exc):
            ctx = self.ctx
            op = "TreeList.max-product-tree" if kind == "log-product" else "TreeList.max-sum-tree"
            if exc is not None:
                ctx.unexpected(op, exc)
                return
            calc = self.last_calc
            if calc is None or calc[0] != kind or len(calc[1]) != len(tl):
                ctx.note("scores-not-observed-for-max-tree")
                return
            scores = calc[1]
            best = max(scores)
            ctx.ev("maxcred-checked")
            if not any(result is tl[i] for i, s in enumerate(scores) if s == best):
                ctx.violation("%s|returned-tree-is-not-an-argmax-input-tree" % op,
                              "scores %r" % scores[:12])
        return post

    # ---- legacy treesum -------------------------------------------------------------------------------------------------
    def legacy_tree_from_splits_post(self, snap, ts, args, kw, result, exc):
        ctx = self.ctx
        if exc is not None:
            ctx.unexpected("treesum.tree_from_splits", exc)
            return
        sd = _arg(args, kw, 0, "split_distribution")
        r = self.ref_of(sd)
        if not self.usable(r):
            return
        thr = _arg(args, kw, 1, "min_freq", 0.5)
        self.judge_consensus("legacy-tree_from_splits", result, r, thr)
        incl = _arg(args, kw, 3, "include_edge_lengths", True)
        self.judge_legacy_support("legacy-tree_from_splits", result, r, ts, lengths=incl, only_present=True)

    def legacy_map_support_post(self, snap, ts, args, kw, result, exc):
        ctx = self.ctx
        if exc is not None:
            ctx.unexpected("treesum.map_split_support_to_tree", exc)
            return
        sd = _arg(args, kw, 1, "split_distribution")
        tree = _arg(args, kw, 0, "tree")
        r = self.ref_of(sd)
        if not self.usable(r):
            return
        self.judge_legacy_support("legacy-map_split_support_to_tree", tree, r, ts, lengths=False, only_present=False)

    def judge_legacy_support(self, op, tree, r, ts, lengths, only_present):
        ctx = self.ctx
        try:
            spec, nodes = bridge.extract(tree, with_nodes=True)
        except bridge.ExtractError as e:
            ctx.violation("%s|malformed-tree" % op, str(e))
            return
        nm = bridge.node_map(nodes)
        cl = ref.clades(spec)
        if cl[-1][1] != self.full or len(ref.leaf_taxa(spec)) != len(self.full):
            return
        rooted = r.rooted
        rel = 1e-12 if r.exact else 1e-9
        detail = {"target": ref.to_newick(spec), "trees": [ref.to_newick(s) for s in r.specs[:8]],
                  "weights": r.weights[:8], "rooted": rooted}
        done = set()
        for s, c in cl:
            nd = nm[id(s)]
            key = split_key(c, self.full, rooted)
            if only_present and key not in r.counts:
                continue
            f = r.freq(key)
            exp = f * 100 if ts.support_as_percentages else f
            ctx.ev("support-checked")
            if ts.add_node_metadata:
                got = getattr(nd, "support", _MISSING)
                if (got is _MISSING or not close(got, exp, rel=rel, abs_=1e-13)) and "s" not in done:
                    done.add("s")
                    ctx.violation("%s|support-wrong|value" % op,
                                  "support of %s is %r, frequency %r" % (key_repr(key, rooted, self.full), got, exp),
                                  detail)
            if ts.support_as_labels:
                ctx.ev("support-label-checked")
                dec = ts.support_label_decimals
                lab = nd.label
                ok = isinstance(lab, str)
                if ok:
                    try:
                        lv = float(lab)
                    except ValueError:
                        ok = False
                if ok:
                    d = dec if dec > 0 else (0 if ts.support_as_percentages else 4)
                    ok = abs(lv - exp) <= 0.5 * 10 ** (-d) * (1 + 1e-6) + 1e-9
                if not ok and "l" not in done:
                    done.add("l")
                    ctx.violation("%s|support-label-wrong" % op, "label %r for support %r" % (lab, exp), detail)
            if lengths and not r.ignore_lengths:
                vals = r.lengths.get(key)
                if vals and all(v is not None for v in vals):
                    ctx.ev("summary-stat-checked")
                    want = summary_reference(vals)["mean"]
                    if (nd.edge.length is None or not close(nd.edge.length, want)) and "e" not in done:
                        done.add("e")
                        ctx.violation("%s|edge-length-summary-wrong|mean" % op,
                                      "edge length %r, mean of the split's lengths %r" % (nd.edge.length, want), detail)


