"""C05 helper: (1) the reference model (DendroPy-free: label sets, Fractions, the statistics
module) and (2) further down, the Monitor that hooks the real library and compares it with
that model (it touches library objects only through the hooks, vf.bridge.extract and the
public attributes the property statement names).  The Monitor keeps a stack of request frames
(what the caller of each public entry point asked for) and judges against the outermost request.

--- (1) reference model ---------------------------------------------------------------

A *split key* is, for rooted collections, the frozenset of leaf labels below an
edge (a clade; the root's key is the full label set) and, for unrooted ones, the
unordered pair {side, other side} (the root's key is {all, empty}).

RefDist is advanced one tree at a time (``add``) and answers, from the plain
definitions, everything the property statement talks about:

  freq(key)      sum of the weights of the trees containing the split / sum of all weights
  lengths[key]   one value per tree containing the split (sum of the lengths of all edges
                 that induce the split in that tree; None when any of them is missing)
  ages[key]      one value per tree (distance of the split's node to the tips; None when the
                 split is induced by several nodes, i.e. the node is ambiguous)
"""
import math
import random
import statistics
from fractions import Fraction

from .. import ref, bridge


def split_key(c, full, rooted):
    return c if rooted else frozenset((c, full - c))


def key_sides(key, rooted, full):
    """(side, other side) of a key as two frozensets of labels."""
    if rooted:
        return key, full - key
    sides = list(key)
    if len(sides) == 1:          # {half, half} cannot happen for a set partition unless empty
        return sides[0], full - sides[0]
    return sides[0], sides[1]


def is_trivial(key, rooted, full):
    a, b = key_sides(key, rooted, full)
    if rooted:
        return len(a) <= 1 or len(a) >= len(full)
    return min(len(a), len(b)) <= 1


def compatible(k1, k2, rooted, full):
    """can the two splits be edges of one tree (set definition)."""
    a1, a0 = key_sides(k1, rooted, full)
    b1, b0 = key_sides(k2, rooted, full)
    if rooted:      # clades: disjoint or nested
        return (not (a1 & b1)) or a1 <= b1 or b1 <= a1
    return (not (a1 & b1)) or (not (a1 & b0)) or (not (a0 & b1)) or (not (a0 & b0))


def node_ages(spec):
    """id(node) -> distance to the tips along the first-child path; second value:
    largest disagreement between children (0 on ultrametric trees)."""
    age = {}
    worst = 0.0
    for n in ref.postorder(spec):
        if not n[3]:
            age[id(n)] = 0.0
            continue
        vals = [age[id(c)] + (c[2] or 0) for c in n[3]]
        age[id(n)] = vals[0]
        worst = max(worst, max(vals) - min(vals))
    return age, worst


def tree_contrib(spec, rooted):
    """key -> [length|None, age|None, number of inducing edges] for one tree."""
    cl = ref.clades(spec)
    full = cl[-1][1]
    ages, _ = node_ages(spec)
    out = {}
    for n, c in cl:
        k = split_key(c, full, rooted)
        ln = n[2]
        ent = out.get(k)
        if ent is None:
            out[k] = [ln, ages[id(n)], 1]
        else:
            ent[0] = None if (ent[0] is None or ln is None) else ent[0] + ln
            ent[1] = None
            ent[2] += 1
    return out, full


def _dyadic(w):
    try:
        f = Fraction(w)
    except (TypeError, ValueError):
        return False
    d = f.denominator
    return d & (d - 1) == 0 and d <= 1024 and abs(f) < 1 << 20


class RefDist(object):
    def __init__(self, use_weights=True, ignore_lengths=False, ignore_ages=True, owner="SplitDistribution"):
        self.use_weights = use_weights
        self.ignore_lengths = ignore_lengths
        self.ignore_ages = ignore_ages
        self.owner = owner
        self.rooted = None
        self.mixed = False
        self.n = 0
        self.total = Fraction(0)
        self.counts = {}
        self.lengths = {}
        self.ages = {}
        self.exact = True          # all float sums the library forms are exact => == comparisons are fair
        self.specs = []
        self.topos = []
        self.weights = []          # weights the reference used
        self.raw_weights = []      # tree.weight as found on the trees
        self.pending_invalidation = False
        self.stale_suspect = None
        self.full = None
        self.tainted = False       # a frequency violation was reported for the real object
        self.queries = 0           # frequency tables read so far (cache populated)
        self.max_edges_per_split = 1
        self.values_tainted = set()   # "edge-length" / "node-age": a wrong value was reported at counting time
        self.history = set()       # object histories this collection went through: merged / inserted / recounted

    def add(self, spec, rooted, weight):
        if self.rooted is None:
            self.rooted = rooted
        elif self.rooted != rooted:
            self.mixed = True
        contrib, full = tree_contrib(spec, self.rooted)
        if self.full is None:
            self.full = full
        w = weight if (self.use_weights and weight is not None) else 1
        if not _dyadic(w):
            self.exact = False
        fw = Fraction(w)
        self.n += 1
        self.total += fw
        for k, (ln, age, ne) in contrib.items():
            self.counts[k] = self.counts.get(k, Fraction(0)) + fw
            self.lengths.setdefault(k, []).append(ln)
            self.ages.setdefault(k, []).append(age)
            if ne > self.max_edges_per_split:
                self.max_edges_per_split = ne
        self.specs.append(spec)
        self.topos.append(ref.topology(spec, self.rooted))
        self.weights.append(w)
        self.raw_weights.append(weight)
        return contrib

    def merge(self, other):
        """self <- self followed by other (TreeArray.extend / += / + / update, SplitDistribution.update)."""
        if other.n == 0:
            return
        if self.rooted is None:
            self.rooted = other.rooted
        elif other.rooted is not None and self.rooted != other.rooted:
            self.mixed = True
        if other.mixed:
            self.mixed = True
        if self.full is None:
            self.full = other.full
        self.n += other.n
        self.total += other.total
        self.exact = self.exact and other.exact
        for k, c in other.counts.items():
            self.counts[k] = self.counts.get(k, Fraction(0)) + c
        for k, v in other.lengths.items():
            self.lengths.setdefault(k, []).extend(v)
        for k, v in other.ages.items():
            self.ages.setdefault(k, []).extend(v)
        self.max_edges_per_split = max(self.max_edges_per_split, other.max_edges_per_split)
        self.specs.extend(other.specs)
        self.topos.extend(other.topos)
        self.weights.extend(other.weights)
        self.raw_weights.extend(other.raw_weights)
        self.history.add("merged")
        self.history.update(other.history)
        self.values_tainted.update(other.values_tainted)

    def move_last_to(self, index):
        """the tree counted last sits at position ``index`` of the collection (list.insert semantics)."""
        for lst in (self.specs, self.topos, self.weights, self.raw_weights):
            lst.insert(index, lst.pop())
        self.history.add("inserted")

    def usable_values(self, store):
        """has the reference at least one split with a complete (no missing value) list in ``store``."""
        return any(v and all(x is not None for x in v) for v in store.values())

    def freq(self, key):
        c = self.counts.get(key)
        if c is None or not self.total:
            return 0.0
        return float(c / self.total)

    def nontrivial_freqs(self):
        return dict((k, self.freq(k)) for k in self.counts if not is_trivial(k, self.rooted, self.full))

    def has_conflict(self):
        return any(0 < c < self.total for c in self.counts.values())


def close(a, b, rel=1e-9, abs_=1e-12):
    try:
        return abs(a - b) <= max(abs_, rel * max(abs(a), abs(b)))
    except TypeError:
        return False


def consensus_failures(S, F, thr, rooted, full, exact, eps=1e-9):
    """S: non-trivial keys of the consensus tree; F: non-trivial key -> reference frequency.
    Returns [(clause, key)].  Splits whose frequency lies within eps of the threshold on
    workloads with inexact float sums are don't-cares."""
    t = 0.0 if thr is None else thr
    slack = 0.0 if exact else eps

    def surely_in(f):
        return f >= t + slack

    def surely_out(f):
        return f < t - slack
    fails = []
    for s in S:
        if s not in F:
            # "nothing for splits that occur in no tree": with min_freq=None (no threshold) this is the
            # only clause that excludes an invented split
            fails.append(("has-split-that-occurs-in-no-tree", s))
    if thr is not None and thr > 0.5:
        for s, f in F.items():
            if surely_in(f) and s not in S:
                fails.append(("majority-rule-misses-split-at-or-above-threshold", s))
        for s in S:
            if surely_out(F.get(s, 0.0)):
                fails.append(("majority-rule-has-split-below-threshold", s))
        return fails
    for s in S:
        if surely_out(F.get(s, 0.0)):
            fails.append(("greedy-has-split-below-threshold", s))
    Sl = list(S)
    for i in range(len(Sl)):
        for j in range(i + 1, len(Sl)):
            if not compatible(Sl[i], Sl[j], rooted, full):
                fails.append(("greedy-has-incompatible-pair", Sl[i]))
    for s, f in F.items():
        if s in S or not surely_in(f):
            continue
        blockers = [u for u in S if not compatible(s, u, rooted, full)]
        if not blockers:
            fails.append(("greedy-not-maximal", s))
        elif not any(F.get(u, 0.0) >= f - slack for u in blockers):
            fails.append(("greedy-not-in-decreasing-frequency-order", s))
    return fails


def summary_reference(vals):
    """mean / median / range / sample sd (None for n == 1: undefined) from the statistics module."""
    fr = [Fraction(v) for v in vals]
    out = {"mean": float(statistics.mean(fr)), "median": float(statistics.median(fr)),
           "range": (min(vals), max(vals)), "n": len(vals)}
    if len(vals) >= 2:
        out["var"] = float(statistics.variance(fr))
        out["sd"] = statistics.stdev([float(v) for v in vals])
    else:
        out["var"] = None
        out["sd"] = None
    return out


def key_repr(key, rooted, full):
    a, b = key_sides(key, rooted, full)
    if rooted:
        return "{%s}" % ",".join(sorted(a))
    return "{%s}|{%s}" % (",".join(sorted(a)), ",".join(sorted(b)))


# --- (2) monitor ------------------------------------------------------------------------------
#
# Requests are judged at the API boundary: every hooked public entry point pushes a *frame* holding
# what the CALLER asked for (threshold, summarisation settings, construction flags).  The judges
# (which sit on the SplitDistribution-level functions where the work is done) always take the values
# of the OUTERMOST frame that names them, so an alias that drops or alters an argument on the way in
# is judged against the caller's request, and the key says "<route>-request-not-honoured".
# When an outer entry point returns an object no inner judge has seen, it is judged there.
GTH = None  # constants.GREATER_THAN_HALF, filled lazily


def _gth():
    global GTH
    if GTH is None:
        from dendropy.utility import constants
        GTH = constants.GREATER_THAN_HALF
    return GTH


_MISSING = object()

FLAG_DEFAULTS = (("use_tree_weights", True), ("ignore_edge_lengths", False), ("ignore_node_ages", True))
TA_KEYS = ("is_rooted_trees", "ignore_edge_lengths", "ignore_node_ages", "use_tree_weights",
           "ultrametricity_precision", "is_force_max_age", "taxon_label_age_map", "is_bipartitions_updated")
NON_SETTING_KEYS = ("tree", "is_bipartitions_updated", "index", "summarize_splits_on_tree", "summarize_splits",
                    "include_external_splits", "min_freq", "is_rooted")
MEAN_LEN = ("mean-length", "median-length")
MEAN_AGE = ("mean-age", "median-age")
STATS = ("mean", "median", "range", "sd")


def _arg(args, kw, idx, name, default=None):
    if name in kw:
        return kw[name]
    if idx is not None and idx < len(args):
        return args[idx]
    return default


def _ru(rooted):
    return "rooted" if rooted else "unrooted"


def _settings(kw, drop=()):
    return dict((k, v) for k, v in kw.items() if k not in NON_SETTING_KEYS and k not in drop)


def _flags(kw):
    return dict((k, kw[k]) for k, _ in FLAG_DEFAULTS if k in kw)


def _path_spread(spec):
    """longest - shortest root-to-tip path of a spec tree (missing length = 0)"""
    d = [x for n, x, k in ref.root_distances(spec) if not n[3]]
    return (max(d) - min(d)) if d else 0.0


class Frame(object):
    """what the caller of one hooked entry point asked for."""

    def __init__(self, op, route):
        self.op = op              # base name used in violation keys ("consensus", "summarize", ...)
        self.route = route        # the entry point ("TreeList.consensus", ...)
        self.thr = _MISSING
        self.kw = _MISSING        # summarisation settings
        self.flags = _MISSING     # construction flags of the collection built inside
        self.legacy = _MISSING    # TreeSummarizer settings
        self.data = None
        self.judged_cons = set()  # id(tree) judged for structure (consensus / collapse / max-tree)
        self.judged_ann = set()   # id(tree) judged for annotations
        self.prints = {}          # id(tree) -> structure fingerprint at the time it was judged
        self.tas = []             # TreeArrays constructed while the frame was active
        self.refs = []            # reference distributions registered while the frame was active


class Monitor(object):
    def __init__(self, ctx, ns):
        self.ctx = ctx
        self.ns = ns
        self.bits = dict((t.label, ns.taxon_bitmask(t)) for t in ns)
        self.full = frozenset(self.bits)
        self.low = min(self.bits, key=self.bits.get)
        self.reg = {}        # id(SplitDistribution) -> (sd, RefDist)
        self.reg_ta = {}     # id(TreeArray) -> (ta, RefDist)
        self.reg_ts = {}     # id(TreeSummarizer) -> (ts, requested settings)
        self.frames = []
        self.merge_depth = 0
        self.last_exc = None     # the exception an inner hook has already judged
        self.rejected = []       # documented UltrametricityError refusals (tree not a member of the multiset)
        self.seen_trees = {}     # id(tree) -> tree: trees that have been counted before (object history)
        self.own_call = 0        # >0 while the monitor itself queries the library
        self.force_deep = False  # read the annotations as well as the attributes (set by the harness)
        self.rng = random.Random(0)

    # ---- label sets <-> masks ------------------------------------------------------
    def mask_of(self, labels):
        m = 0
        for x in labels:
            m |= self.bits[x]
        return m

    def mask(self, key, rooted):
        if rooted:
            return self.mask_of(key)
        a, b = key_sides(key, False, self.full)
        return self.mask_of(b if self.low in a else a)

    def ref_of(self, sd):
        e = self.reg.get(id(sd))
        return e[1] if e is not None and e[0] is sd else None

    def ta_ref(self, ta):
        e = self.reg_ta.get(id(ta))
        return e[1] if e is not None and e[0] is ta else None

    def ref_for(self, obj, fr):
        r = self.ta_ref(obj)
        if r is None:
            r = self.ref_of(obj)
        if r is None and fr is not None:
            for ta in reversed(fr.tas):
                r = self.ta_ref(ta)
                if r is not None:
                    break
        if r is None and fr is not None and fr.refs:
            r = fr.refs[-1]
        return r

    # ---- frames ------------------------------------------------------------------------
    def enter(self, op, route, parse=None):
        def pre(obj, args, kw):
            fr = Frame(op, route)
            if parse is not None:
                parse(fr, obj, args, kw)
            self.frames.append(fr)
            return fr
        return pre

    def leave(self, fr):
        if fr is None:
            return
        if self.frames and self.frames[-1] is fr:
            self.frames.pop()
        elif fr in self.frames:
            del self.frames[self.frames.index(fr):]

    def leaving(self, fn):
        """post hook that runs fn and then pops the frame (also when fn returns early)."""
        def post(fr, obj, args, kw, result, exc):
            try:
                fn(fr, obj, args, kw, result, exc)
            finally:
                self.leave(fr)
        return post

    def requested(self, field):
        """(value, frame) of the outermost active frame that names ``field``."""
        for fr in self.frames:
            v = getattr(fr, field)
            if v is not _MISSING:
                return v, fr
        return _MISSING, None

    def base_op(self):
        return self.frames[0].op if self.frames else "summarize"

    def key_op(self, base, field, inner_value):
        v, fr = self.requested(field)
        if fr is None or v == inner_value:
            return base
        return "%s-request-not-honoured" % fr.route

    @staticmethod
    def fingerprint(tree):
        """identity of the node structure (to notice that an object was restructured after it was judged)."""
        out = []
        stack = [getattr(tree, "_seed_node", None)]
        while stack:
            nd = stack.pop()
            if nd is None:
                continue
            out.append(id(nd))
            out.append(len(nd._child_nodes))
            stack.extend(nd._child_nodes)
        return hash(tuple(out))

    def mark(self, which, tree):
        fp = self.fingerprint(tree) if which == "judged_cons" else None
        for fr in self.frames:
            getattr(fr, which).add(id(tree))
            if fp is not None:
                fr.prints[id(tree)] = fp

    def judged_unchanged(self, fr, tree):
        return id(tree) in fr.judged_cons and fr.prints.get(id(tree)) == self.fingerprint(tree)

    def was_documented_rejection(self, exc):
        return any(exc is x for x in self.rejected)

    def report_exc(self, op, exc, detail=None):
        if exc is self.last_exc:
            return
        self.last_exc = exc
        self.ctx.unexpected(op, exc, detail)

    def seen_by_hooks(self, exc):
        return exc is self.last_exc

    # ---- parsers of the requests ------------------------------------------------------
    @staticmethod
    def p_sd_consensus(fr, obj, args, kw):
        fr.thr = _arg(args, kw, 0, "min_freq", _gth())
        fr.kw = _settings(kw)
        fr.data = {"summarize": _arg(args, kw, 2, "summarize_splits", True)}

    @staticmethod
    def p_ta_consensus(fr, obj, args, kw):
        fr.thr = _arg(args, kw, 0, "min_freq", _gth())
        fr.kw = _settings(kw)
        fr.data = {"summarize": _arg(args, kw, 1, "summarize_splits", True)}

    @staticmethod
    def p_tl_consensus(fr, obj, args, kw):
        fr.thr = _arg(args, kw, 0, "min_freq", _gth())
        fr.kw = _settings(kw, drop=TA_KEYS)
        fr.flags = _flags(kw)
        fr.data = {"summarize": _arg(args, kw, 2, "summarize_splits", True)}

    @staticmethod
    def p_summarize(fr, obj, args, kw):
        fr.kw = _settings(kw)
        fr.data = {"tree": _arg(args, kw, 0, "tree")}

    @staticmethod
    def p_collapse(fr, obj, args, kw):
        fr.thr = _arg(args, kw, 1, "min_freq", _gth())
        tree = _arg(args, kw, 0, "tree")
        try:
            spec = bridge.extract(tree)
        except bridge.ExtractError:
            spec = None
        fr.data = {"tree": tree, "pre": spec}

    @staticmethod
    def p_maxtree(fr, obj, args, kw):
        fr.kw = _settings(kw)
        fr.data = {"incl": _arg(args, kw, 0, "include_external_splits", False),
                   "summarize": _arg(args, kw, 1, "summarize_splits", True)}

    @staticmethod
    def p_restore(fr, obj, args, kw):
        fr.kw = _settings(kw)
        fr.data = {"summarize": _arg(args, kw, 1, "summarize_splits_on_tree", False),
                   "index": _arg(args, kw, 0, "index")}

    @staticmethod
    def p_tl_max(fr, obj, args, kw):
        fr.flags = {}          # the collection is summarised with the default flags
        fr.data = {"incl": _arg(args, kw, 0, "include_external_splits", False)}

    @staticmethod
    def p_flags_kw(fr, obj, args, kw):
        fr.flags = _flags(kw)

    @staticmethod
    def p_from_tree_list(fr, obj, args, kw):
        fl = {}
        for idx, (name, _) in ((4, FLAG_DEFAULTS[0]), (2, FLAG_DEFAULTS[1]), (3, FLAG_DEFAULTS[2])):
            v = _arg(args, kw, idx, name, _MISSING)
            if v is not _MISSING:
                fl[name] = v
        fr.flags = fl

    def p_ta_add(self, fr, obj, args, kw):
        r = self.ta_ref(obj)
        if r is not None:
            fr.flags = {"use_tree_weights": r.use_weights, "ignore_edge_lengths": r.ignore_lengths,
                        "ignore_node_ages": r.ignore_ages}

    @staticmethod
    def p_legacy_module_consensus(fr, obj, args, kw):
        fr.thr = _arg(args, kw, 1, "min_freq", 0.5)
        fr.legacy = dict((k, v) for k, v in kw.items() if k not in ("min_freq", "is_bipartitions_updated", "trees"))

    @staticmethod
    def p_legacy_thr1(fr, obj, args, kw):
        fr.thr = _arg(args, kw, 1, "min_freq", 0.5)

    # ---- installation -----------------------------------------------------------------
    def install(self, hooks):
        from dendropy.datamodel import treecollectionmodel as tcm
        from dendropy.calculate import treesum
        SD, TA, TL = tcm.SplitDistribution, tcm.TreeArray, tcm.TreeList
        kw = {"outermost_only": False}
        L = self.leaving
        hooks.install(SD, "__init__", post=self.sd_init, **kw)
        hooks.install(TA, "__init__", post=self.ta_init, **kw)
        hooks.install(SD, "count_splits_on_tree", pre=self.count_pre, post=self.count_post, **kw)
        hooks.install(SD, "__getitem__", **kw)
        hooks.install(SD, "calc_freqs", **kw)
        hooks.install(SD, "update", pre=self.merge_pre("SplitDistribution.update"),
                      post=self.merge_post("SplitDistribution.update"), **kw)
        # C: consensus
        hooks.install(SD, "consensus_tree", pre=self.enter("consensus", "SplitDistribution.consensus_tree",
                                                           self.p_sd_consensus), post=L(self.consensus_post), **kw)
        hooks.install(TA, "consensus_tree", pre=self.enter("consensus", "TreeArray.consensus_tree", self.p_ta_consensus),
                      post=L(self.outer_consensus_post), **kw)
        hooks.install(TL, "consensus", pre=self.enter("consensus", "TreeList.consensus", self.p_tl_consensus),
                      post=L(self.outer_consensus_post), **kw)
        # S: annotations
        hooks.install(SD, "summarize_splits_on_tree", pre=self.enter("summarize", "SplitDistribution.summarize_splits_on_tree",
                                                                     self.p_summarize), post=L(self.summarize_post), **kw)
        hooks.install(TA, "summarize_splits_on_tree", pre=self.enter("summarize", "TreeArray.summarize_splits_on_tree",
                                                                     self.p_summarize), post=L(self.outer_summarize_post), **kw)
        hooks.install(SD, "split_support_iter", **kw)
        # K: collapse
        hooks.install(SD, "collapse_edges_with_less_than_minimum_support",
                      pre=self.enter("collapse", "SplitDistribution.collapse_edges_with_less_than_minimum_support", self.p_collapse),
                      post=L(self.collapse_post), **kw)
        hooks.install(TA, "collapse_edges_with_less_than_minimum_support",
                      pre=self.enter("collapse", "TreeArray.collapse_edges_with_less_than_minimum_support", self.p_collapse),
                      post=L(self.outer_collapse_post), **kw)
        # M: credibility trees
        hooks.install(TA, "calculate_log_product_of_split_supports", post=self.calc_post("log-product"), **kw)
        hooks.install(TA, "calculate_sum_of_split_supports", post=self.calc_post("sum"), **kw)
        hooks.install(TA, "maximum_product_of_split_support_tree",
                      pre=self.enter("max-product-tree", "TreeArray.maximum_product_of_split_support_tree", self.p_maxtree),
                      post=L(self.maxtree_post("log-product")), **kw)
        hooks.install(TA, "maximum_sum_of_split_support_tree",
                      pre=self.enter("max-sum-tree", "TreeArray.maximum_sum_of_split_support_tree", self.p_maxtree),
                      post=L(self.maxtree_post("sum")), **kw)
        hooks.install(TA, "restore_tree", pre=self.enter("restore_tree", "TreeArray.restore_tree", self.p_restore),
                      post=L(self.restore_post), **kw)
        hooks.install(TL, "maximum_product_of_split_support_tree",
                      pre=self.enter("TreeList.max-product-tree", "TreeList.maximum_product_of_split_support_tree", self.p_tl_max),
                      post=L(self.tl_maxtree_post("log-product")), **kw)
        hooks.install(TL, "maximum_sum_of_split_support_tree",
                      pre=self.enter("TreeList.max-sum-tree", "TreeList.maximum_sum_of_split_support_tree", self.p_tl_max),
                      post=L(self.tl_maxtree_post("sum")), **kw)
        # construction / accession / merge routes
        hooks.install(TA, "from_tree_list", pre=self.enter("from_tree_list", "TreeArray.from_tree_list", self.p_from_tree_list),
                      post=L(self.from_tree_list_post), **kw)
        hooks.install(TL, "as_tree_array", pre=self.enter("as_tree_array", "TreeList.as_tree_array", self.p_flags_kw),
                      post=L(self.from_tree_list_post), **kw)
        hooks.install(TL, "split_distribution", pre=self.enter("split_distribution", "TreeList.split_distribution", self.p_flags_kw),
                      post=L(self.tl_split_distribution_post), **kw)
        hooks.install(TL, "frequency_of_bipartition", **kw)
        hooks.install(TA, "add_tree", pre=self.add_tree_pre, post=self.add_tree_post, **kw)
        hooks.install(TA, "add_trees", **kw)
        hooks.install(TA, "insert", **kw)
        for name in ("update", "extend", "__iadd__"):
            hooks.install(TA, name, pre=self.merge_pre("TreeArray.%s" % name), post=self.merge_post("TreeArray.%s" % name), **kw)
        hooks.install(TA, "__add__", pre=self.add_pre, post=self.merge_post("TreeArray.__add__"), **kw)
        # legacy treesum
        TS = treesum.TreeSummarizer
        hooks.install(TS, "__init__", post=self.ts_init, **kw)
        hooks.install(treesum, "consensus_tree", pre=self.enter("legacy-consensus_tree", "treesum.consensus_tree",
                                                                self.p_legacy_module_consensus), post=L(self.legacy_outer_post), **kw)
        hooks.install(TS, "consensus_tree", pre=self.enter("legacy-consensus_tree", "TreeSummarizer.consensus_tree",
                                                           self.p_legacy_thr1), post=L(self.legacy_outer_post), **kw)
        hooks.install(TS, "tree_from_splits", pre=self.enter("legacy-tree_from_splits", "TreeSummarizer.tree_from_splits",
                                                             self.p_legacy_thr1), post=L(self.legacy_tree_from_splits_post), **kw)
        hooks.install(TS, "map_split_support_to_tree", post=self.legacy_map_support_post, **kw)
        hooks.install(TS, "annotate_nodes_and_edges", post=self.legacy_annotate_post, **kw)
        hooks.install(TS, "summarize_edge_lengths_on_tree", pre=self.legacy_values_pre,
                      post=self.legacy_values_post("edge-length"), **kw)
        hooks.install(TS, "summarize_node_ages_on_tree", pre=self.legacy_values_pre,
                      post=self.legacy_values_post("node-age"), **kw)

    # ---- construction ---------------------------------------------------------------------
    def _requested_flags(self, args, kw, idxs):
        fl, fr = self.requested("flags")
        out = {}
        for (name, default), idx in zip(FLAG_DEFAULTS, idxs):
            if fr is not None:
                out[name] = fl.get(name, default)
            else:
                out[name] = _arg(args, kw, idx, name, default)
        return out

    def sd_init(self, snap, sd, args, kw, result, exc):
        if exc is not None:
            return
        fl = self._requested_flags(args, kw, (3, 1, 2))
        r = RefDist(use_weights=fl["use_tree_weights"], ignore_lengths=fl["ignore_edge_lengths"],
                    ignore_ages=fl["ignore_node_ages"])
        self.reg[id(sd)] = (sd, r)
        for fr in self.frames:
            fr.refs.append(r)

    def ta_init(self, snap, ta, args, kw, result, exc):
        if exc is not None:
            return
        r = self.ref_of(ta._split_distribution)
        if r is None:
            self.ctx.mark_inconclusive("a TreeArray's distribution was constructed unobserved")
            return
        fl = self._requested_flags(args, kw, (4, 2, 3))
        r.owner = "TreeArray"
        r.use_weights = fl["use_tree_weights"]
        r.ignore_lengths = fl["ignore_edge_lengths"]
        r.ignore_ages = fl["ignore_node_ages"]
        self.reg_ta[id(ta)] = (ta, r)
        for fr in self.frames:
            fr.tas.append(ta)

    def ts_init(self, snap, ts, args, kw, result, exc):
        if exc is None:
            leg, fr = self.requested("legacy")
            self.reg_ts[id(ts)] = (ts, dict(leg) if fr is not None else dict(kw))

    def tag(self, sd, what):
        r = self.ref_of(sd)
        if r is not None:
            r.history.add(what)

    # ---- lock-step advance ---------------------------------------------------------------------
    def count_pre(self, sd, args, kw):
        tree = _arg(args, kw, 0, "tree")
        try:
            spec = bridge.extract(tree)
        except bridge.ExtractError:
            return None
        before = self.seen_trees.get(id(tree)) is tree
        self.seen_trees[id(tree)] = tree
        return (spec, bool(tree.is_rooted), tree.weight, before)

    def count_post(self, snap, sd, args, kw, result, exc):
        ctx = self.ctx
        if exc is not None:
            # documented refusal: a collection that tracks node ages rejects a tree whose root-to-tip paths differ.
            # The tree is then NOT a member of the multiset: the reference is not advanced, and everything the
            # collection reports afterwards is judged against the accepted trees only (seeded change C05d).
            r = self.ref_of(sd)
            if (type(exc).__name__ == "UltrametricityError" and r is not None and not r.ignore_ages and snap is not None
                    and _path_spread(snap[0]) > 1e-3):
                self.last_exc = exc
                self.rejected.append(exc)
                ctx.ev("documented-rejection:non-ultrametric-tree-offered-to-a-collection-tracking-ages")
                if r.queries:
                    r.pending_invalidation = True
                return
            self.report_exc("count_splits_on_tree", exc)
            return
        r = self.ref_of(sd)
        if r is None or snap is None:
            ctx.mark_inconclusive("a tree was counted on an unobserved distribution / could not be extracted")
            return
        spec, rooted, weight, before = snap
        if frozenset(ref.leaf_taxa(spec)) != self.full or len(ref.leaf_taxa(spec)) != len(self.full):
            ctx.mark_inconclusive("the harness counted a tree whose leaves are not the namespace's taxa")
        contrib = r.add(spec, rooted, weight)
        ctx.ev("lockstep-advance")
        if before:
            ctx.ev("lockstep-advance:tree-object-counted-before")
            r.history.add("recounted")
        if r.queries:
            r.pending_invalidation = True
        rooted = r.rooted
        exp = {}
        for k, v in contrib.items():
            exp[self.mask(k, rooted)] = (k, v)
        splits, elens, nages = result
        got = sorted(splits)
        if got != sorted(exp):
            dup = len(set(got)) != len(got)
            r.tainted = True
            disc = ""
            if dup and len(spec[3]) == 2 and not spec[3][0][3] and not spec[3][1][3]:
                disc = "|basal-bifurcation-of-two-leaves"      # a two-leaf tree: the basal bifurcation cannot be collapsed
            elif before and not dup:
                disc = "|tree-object-counted-before"
            ctx.violation("count|%s|%s%s" % ("same-split-counted-twice-in-one-tree" if dup else "splits-of-tree-wrong",
                                             _ru(rooted), disc),
                          "count_splits_on_tree returned %s, tree has %s" % (got, sorted(exp)),
                          {"tree": ref.to_newick(spec), "bits": self.bits})
            return
        if not r.ignore_lengths:
            for m, ln in zip(splits, elens):
                want = exp[m][1][0]
                if want is None:
                    continue
                ctx.ev("count-length-checked")
                if ln is None or not close(ln, want):
                    r.values_tainted.add("edge-length")
                    ctx.violation("count|edge-length-of-split-wrong|%s" % _ru(rooted),
                                  "length %r recorded for split, tree has %r" % (ln, want),
                                  {"tree": ref.to_newick(spec), "split": key_repr(exp[m][0], rooted, self.full)})
                    break
        if not r.ignore_ages and rooted:
            for m, ag in zip(splits, nages):
                want = exp[m][1][1]
                if want is None:
                    continue
                ctx.ev("count-age-checked")
                if ag is None or not close(ag, want):
                    r.values_tainted.add("node-age")
                    ctx.violation("count|node-age-of-split-wrong", "age %r recorded, tree has %r" % (ag, want),
                                  {"tree": ref.to_newick(spec), "split": key_repr(exp[m][0], rooted, self.full)})
                    break

    def add_tree_pre(self, ta, args, kw):
        r = self.ta_ref(ta)
        return (r, r.n if r is not None else None)

    def add_tree_post(self, snap, ta, args, kw, result, exc):
        r, n0 = snap
        if exc is not None:
            self.report_exc("TreeArray.add_tree", exc)
            return
        index = _arg(args, kw, 2, "index")
        if r is not None and index is not None and r.n == n0 + 1:
            r.move_last_to(index)
            self.ctx.ev("insert-followed")

    # ---- merge routes ----------------------------------------------------------------------------
    def merge_pre(self, kind):
        def pre(obj, args, kw):
            self.merge_depth += 1
            return (self.merge_depth == 1, None)
        return pre

    def add_pre(self, obj, args, kw):
        self.merge_depth += 1
        fr = Frame("merge", "TreeArray.__add__")
        self.p_ta_add(fr, obj, args, kw)
        self.frames.append(fr)
        return (self.merge_depth == 1, fr)

    def merge_post(self, kind):
        def post(snap, obj, args, kw, result, exc):
            outer, fr = snap
            self.merge_depth -= 1
            self.leave(fr)
            if not outer:
                return
            ctx = self.ctx
            if exc is not None:
                # only compatible collections are merged by the harness
                self.report_exc(kind, exc)
                return
            other = args[0] if args else (list(kw.values())[0] if kw else None)
            if kind == "SplitDistribution.update":
                dst, parts = self.ref_of(obj), [self.ref_of(other)]
            elif kind == "TreeArray.__add__":
                dst, parts = self.ta_ref(result), [self.ta_ref(obj), self.ta_ref(other)]
            else:
                dst, parts = self.ta_ref(obj), [self.ta_ref(other)]
            if dst is None or any(p is None for p in parts):
                ctx.mark_inconclusive("%s on a collection the monitor did not see being built" % kind)
                return
            for p in parts:
                dst.merge(p)
                if p.tainted:
                    dst.tainted = True
            if dst.queries:
                dst.pending_invalidation = True
            ctx.ev("merge-followed")
            ctx.ev("merge-followed:%s" % kind)
        return post

    # ---- F: frequencies -------------------------------------------------------------------------
    def check_frequencies(self, sd, where="query", direct=False):
        ctx = self.ctx
        r = self.ref_of(sd)
        if r is None:
            ctx.mark_inconclusive("frequency query on a distribution the monitor did not see being built")
            return False
        if r.n == 0 or r.mixed or not r.total:
            ctx.note("empty-or-mixed-distribution-not-judged")
            return False
        if r.tainted:
            ctx.note("downstream-not-judged-after-frequency-violation")
            return False
        rel = 1e-12 if r.exact else 1e-9
        if direct:
            table = sd.calc_freqs()
            ctx.ev("calc_freqs-called-directly")
        else:
            table = sd.split_frequencies
        expected = {}
        for k in r.counts:
            expected[self.mask(k, r.rooted)] = k
        bad = None
        for m, k in expected.items():
            f = r.freq(k)
            got = sd[m]
            ctx.ev("freq-checked")
            if not close(got, f, rel=rel, abs_=1e-15) or table.get(m, 0.0) != got:
                bad = ("wrong-value", m, k, got, f)
                break
        if bad is None:
            for m, v in table.items():
                if m not in expected and v:
                    bad = ("reports-split-that-occurs-in-no-tree", m, None, v, 0.0)
                    break
        if bad is None:
            allm = self.mask_of(self.full)
            for _ in range(6):
                m = self.rng.randrange(0, allm + 1)
                if not r.rooted:
                    m &= ~self.bits[self.low]     # the canonical (normalised) name of an unrooted split
                if m in expected:
                    continue
                ctx.ev("freq-checked")
                ctx.ev("absent-split-checked")
                v = sd[m]
                if v != 0.0:
                    bad = ("reports-split-that-occurs-in-no-tree", m, None, v, 0.0)
                    break
        if getattr(r, "pending_invalidation", False):
            ctx.ev("cache-invalidation-observed")
            r.pending_invalidation = False
        r.queries += 1
        for tag in r.history:
            ctx.ev("freq-checked-after:%s" % tag)
        if bad is None:
            return True
        clause, m, k, got, f = bad
        r.tainted = True
        disc = r.owner
        if "merged" in r.history:
            disc += "-after-merge"
        if clause == "wrong-value":
            # does the table equal the one obtained under the opposite weight policy?
            alt = self._alt_freq(r, k)
            if (r.owner == "TreeArray" and not r.use_weights and alt is not None and close(got, alt, rel=1e-9)
                    and getattr(sd, "use_tree_weights", None)):
                disc = "TreeArray-use_tree_weights-False-ignored"
            elif getattr(r, "stale_suspect", None) is not None and close(got, r.stale_suspect.get(m, -1.0)):
                disc = "%s|table-of-an-earlier-state" % disc
        ctx.violation("frequency|%s|%s" % (clause, disc),
                      "sd[%s] = %r, reference %r after %d trees (%s)" % (bin(m), got, f, r.n, where),
                      {"trees": [ref.to_newick(s) for s in r.specs[:8]], "tree.weight": r.raw_weights[:8],
                       "weights-the-reference-used": r.weights[:8], "history": sorted(r.history),
                       "split": key_repr(k, r.rooted, self.full) if k is not None else bin(m),
                       "rooted": r.rooted, "use_tree_weights_requested": r.use_weights, "bits": self.bits})
        return False

    def _alt_freq(self, r, key):
        tot = Fraction(0)
        cnt = Fraction(0)
        for spec, w in zip(r.specs, r.raw_weights):
            fw = Fraction(w if w is not None else 1)
            tot += fw
            if key in self._keys_of(spec, r.rooted):
                cnt += fw
        if not tot:          # the library falls back to the number of trees when the weights sum to 0
            return float(cnt) / len(r.specs)
        return float(cnt / tot)

    def _keys_of(self, spec, rooted):
        return tree_contrib(spec, rooted)[0]

    def remember_table(self, sd):
        """snapshot of the current (reference) table so that a later stale answer can be named."""
        r = self.ref_of(sd)
        if r is not None and r.n:
            r.stale_suspect = dict((self.mask(k, r.rooted), r.freq(k)) for k in r.counts)

    def from_tree_list_post(self, fr, obj, args, kw, result, exc):
        if exc is not None:
            self.report_exc(fr.route, exc)
        elif not self.own_call:
            self.check_frequencies(result._split_distribution, fr.route)

    def tl_split_distribution_post(self, fr, obj, args, kw, result, exc):
        if exc is not None:
            self.report_exc(fr.route, exc)
        else:
            self.check_frequencies(result, fr.route)

    def check_treelist_frequency(self, tl, rng, n_queries=4):
        """F through TreeList.frequency_of_bipartition (documented: the proportion of the trees of the list
        that contain the split -- unweighted; normalised for unrooted trees), all four ways of naming a split."""
        import dendropy
        ctx = self.ctx
        trees = list(tl)
        if not trees:
            return
        infos = []
        for t in trees:
            try:
                spec = bridge.extract(t)
            except bridge.ExtractError:
                ctx.mark_inconclusive("member tree could not be extracted")
                return
            rooted = bool(t.is_rooted)
            infos.append((rooted, ref.topology(spec, rooted)))
        allmask = self.mask_of(self.full)
        labels_sorted = sorted(self.full)
        by_label = dict((t.label, t) for t in self.ns)
        for q in range(n_queries):
            if q % 2 == 0:
                rooted, topo = infos[rng.randrange(len(infos))]
                if rooted:
                    side = rng.choice(sorted(topo, key=sorted))
                else:
                    k = rng.choice(sorted(topo, key=lambda k: sorted(sorted(x) for x in k)))
                    side = rng.choice(sorted(k, key=sorted))
            else:
                side = frozenset(x for x in labels_sorted if rng.random() < 0.5)
            side = frozenset(side)
            found = 0
            for rooted, topo in infos:
                if (side in topo) if rooted else (ref.usplit(side, self.full) in topo):
                    found += 1
            want = Fraction(found, len(infos))
            form = rng.choice(["split_bitmask", "labels", "taxa", "bipartition"])
            if form == "split_bitmask":
                kwq = {"split_bitmask": self.mask_of(side)}
            elif form == "labels":
                kwq = {"labels": sorted(side)}
            elif form == "taxa":
                kwq = {"taxa": [by_label[x] for x in sorted(side)]}
            else:
                kwq = {"bipartition": dendropy.Bipartition(leafset_bitmask=self.mask_of(side), tree_leafset_bitmask=allmask,
                                                           is_rooted=infos[0][0])}
            try:
                got = tl.frequency_of_bipartition(**kwq)
            except Exception as e:
                self.report_exc("TreeList.frequency_of_bipartition", e)
                return
            ctx.ev("treelist-frequency-checked")
            if not close(got, float(want), rel=1e-12, abs_=1e-15):
                ctx.violation("TreeList.frequency_of_bipartition|wrong-value|%s|%s" % (form, _ru(infos[0][0])),
                              "frequency_of_bipartition(%s) = %r, %d of %d trees contain the split" % (
                                  form, got, found, len(infos)),
                              {"split": sorted(side), "bits": self.bits, "n_trees": len(infos)})
                return

    def check_support_iter(self, sd, tree, rng):
        """S through SplitDistribution.split_support_iter: the supports of the (internal) nodes of an ENCODED tree."""
        ctx = self.ctx
        r = self.ref_of(sd)
        if not self.usable(r):
            return
        try:
            spec = bridge.extract(tree)
        except bridge.ExtractError:
            return
        cl = ref.clades(spec)
        if cl[-1][1] != self.full:
            return
        incl = rng.random() < 0.5
        strat = rng.choice(["preorder", "postorder"])
        want = sorted(r.freq(split_key(c, self.full, r.rooted)) for n, c in cl if incl or n[3])
        try:
            upd = bool(getattr(tree, "bipartition_encoding", None)) and rng.random() < 0.5
            got = sorted(sd.split_support_iter(tree, is_bipartitions_updated=upd,
                                               include_external_splits=incl, traversal_strategy=strat))
        except Exception as e:
            self.report_exc("split_support_iter", e)
            return
        ctx.ev("support-iter-checked")
        rel = 1e-12 if r.exact else 1e-9
        if len(got) != len(want) or any(not close(a, b, rel=rel, abs_=1e-13) for a, b in zip(got, want)):
            ctx.violation("split_support_iter|support-wrong|%s" % _ru(r.rooted),
                          "supports %r, frequencies of the tree's splits %r" % (got[:12], want[:12]),
                          {"target": ref.to_newick(spec), "include_external_splits": incl,
                           "trees": [ref.to_newick(s) for s in r.specs[:8]]})
            return
        # the per-tree scores of the distribution (the statement does not define the scores: recorded, not judged)
        try:
            ssum = sd.sum_of_split_support_on_tree(tree, is_bipartitions_updated=True, include_external_splits=incl)
            slog = sd.log_product_of_split_support_on_tree(tree, is_bipartitions_updated=True, include_external_splits=incl)
        except Exception as e:
            self.report_exc("split-support-score-of-a-tree", e)
            return
        ctx.ev("per-tree-score-recorded")
        if not close(ssum, sum(want), rel=1e-9, abs_=1e-9) or \
                not close(slog, sum(math.log(f) for f in want if f), rel=1e-9, abs_=1e-9):
            ctx.note("per-tree-score-differs-from-the-sum-/-log-product-of-the-supports")

    # ---- C: consensus ---------------------------------------------------------------------------------
    def usable(self, r):
        if r is None:
            self.ctx.mark_inconclusive("operation on a distribution the monitor did not see being built")
            return False
        if r.tainted:
            self.ctx.note("downstream-not-judged-after-frequency-violation")
            return False
        if r.mixed or r.n == 0 or not r.total:
            self.ctx.note("empty-or-mixed-distribution-not-judged")
            return False
        return True

    def consensus_post(self, fr, sd, args, kw, result, exc):
        if exc is not None:
            self.report_exc("consensus_tree", exc)
            return
        r = self.ref_of(sd)
        if not self.usable(r):
            return
        thr, _ = self.requested("thr")
        self.judge_consensus(self.key_op("consensus", "thr", fr.thr), result, r, thr)
        self.mark("judged_cons", result)

    def outer_consensus_post(self, fr, obj, args, kw, result, exc):
        """TreeArray.consensus_tree / TreeList.consensus: whatever is handed to the caller must have been judged
        against the caller's request."""
        if exc is not None:
            self.report_exc(fr.route, exc)
            return
        need_ann = bool(fr.data["summarize"])
        structure_judged = self.judged_unchanged(fr, result)
        if structure_judged and (not need_ann or id(result) in fr.judged_ann):
            return
        r = self.ref_for(obj, fr)
        if not self.usable(r):
            return
        thr, _ = self.requested("thr")
        if not structure_judged:
            self.ctx.ev("judged-at-the-outer-boundary")
            self.judge_consensus(fr.route, result, r, thr)
            self.mark("judged_cons", result)
        if need_ann and id(result) not in fr.judged_ann:
            self.ctx.ev("judged-at-the-outer-boundary")
            kwr, _ = self.requested("kw")
            self.judge_annotations(fr.route, result, r, kwr)
            self.mark("judged_ann", result)

    def judge_consensus(self, op, tree, r, thr):
        ctx = self.ctx
        try:
            spec = bridge.extract(tree)
        except bridge.ExtractError as e:
            ctx.violation("%s|malformed-tree" % op, str(e))
            return None
        ctx.ev("consensus-checked")
        taxa = [n[0] for n in ref.preorder(spec) if n[0] is not None]
        leaves_ok = all(n[0] is not None for n in ref.leaves(spec))
        inner_ok = all(n[0] is None for n in ref.preorder(spec) if n[3])
        detail = {"consensus": ref.to_newick(spec), "threshold": thr, "rooted": r.rooted,
                  "trees": [ref.to_newick(s) for s in r.specs[:8]], "weights": r.weights[:8]}
        if sorted(taxa) != sorted(self.full) or not leaves_ok or not inner_ok:
            ctx.violation("%s|taxa-not-spanned-exactly-once" % op,
                          "consensus carries taxa %s, namespace has %s" % (sorted(taxa), sorted(self.full)), detail)
            return spec
        if bool(tree.is_rooted) != bool(r.rooted) or tree.is_rooted is None:
            ctx.violation("%s|rooting-state-differs-from-inputs" % op,
                          "consensus is_rooted=%r, inputs %s" % (tree.is_rooted, _ru(r.rooted)), detail)
        S = ref.nontrivial_splits(spec, r.rooted)
        F = r.nontrivial_freqs()
        majority = thr is not None and thr > 0.5
        ctx.ev("consensus-majority-checked" if majority else "consensus-greedy-checked")
        if "merged" in r.history:
            ctx.ev("consensus-checked-after-merge")
        fails = consensus_failures(S, F, thr, r.rooted, self.full, r.exact)
        seen = set()
        for clause, key in fails:
            if clause in seen:
                continue
            seen.add(clause)
            d = dict(detail)
            d["split"] = key_repr(key, r.rooted, self.full)
            d["f(split)"] = F.get(key, 0.0)
            d["frequencies"] = sorted(((key_repr(k, r.rooted, self.full), f) for k, f in F.items()),
                                      key=lambda x: -x[1])[:12]
            ctx.violation("%s|%s|%s" % (op, clause, _ru(r.rooted)),
                          "%s at threshold %r: split %s (f=%r)" % (clause, thr, d["split"], d["f(split)"]), d)
        return spec

    # ---- S: annotations ------------------------------------------------------------------------------------
    def summary_error(self, op, r, exc, sels):
        """an exception of the summariser: the documented ValueError ("... not available") is accepted only when
        the reference has no length / age data either; on a request the reference can answer it is a violation."""
        ctx = self.ctx
        if exc is self.last_exc:
            return
        if isinstance(exc, ValueError) and any(s in MEAN_LEN + MEAN_AGE for s in sels):
            self.last_exc = exc
            unanswerable = r is None or r.n == 0 or r.mixed
            for s in sels:
                if s in MEAN_LEN and (unanswerable or r.ignore_lengths or not r.usable_values(r.lengths)):
                    ctx.ev("documented-error:summarize:ValueError")
                    return
                if s in MEAN_AGE and (unanswerable or r.ignore_ages or not r.rooted or not r.usable_values(r.ages)):
                    ctx.ev("documented-error:summarize:ValueError")
                    return
            if r.tainted:
                return
            ctx.violation("%s|raised-on-valid-request|set_edge_lengths=%s" % (op, sorted(s for s in sels if s)[0]),
                          "summarisation raised %s although the input trees carry the requested values" % core_brief(exc),
                          {"trees": [ref.to_newick(s) for s in r.specs[:8]], "rooted": r.rooted})
            return
        self.report_exc(op, exc)

    def summarize_post(self, fr, sd, args, kw, result, exc):
        base = self.base_op()
        kwr, _ = self.requested("kw")
        r = self.ref_of(sd)
        if exc is not None:
            self.summary_error(base, r, exc, set([kwr.get("set_edge_lengths"), fr.kw.get("set_edge_lengths")]))
            return
        if not self.usable(r):
            return
        tree = _arg(args, kw, 0, "tree")
        self.judge_annotations(self.key_op(base, "kw", fr.kw), tree, r, kwr)
        self.mark("judged_ann", tree)

    def outer_summarize_post(self, fr, ta, args, kw, result, exc):
        if exc is not None:
            self.summary_error(fr.op, self.ta_ref(ta), exc, set([fr.kw.get("set_edge_lengths")]))
            return
        tree = fr.data["tree"]
        if id(tree) in fr.judged_ann:
            return
        r = self.ref_for(ta, fr)
        if not self.usable(r):
            return
        self.ctx.ev("judged-at-the-outer-boundary")
        kwr, _ = self.requested("kw")
        self.judge_annotations(fr.route, tree, r, kwr)
        self.mark("judged_ann", tree)

    def restore_post(self, fr, ta, args, kw, result, exc):
        if exc is not None:
            self.report_exc(fr.route, exc)
            return
        if self.frames and self.frames[0] is not fr:
            return                      # part of a max-credibility request: judged there
        r = self.ta_ref(ta)
        if not self.usable(r):
            return
        idx = fr.data["index"]
        try:
            spec = bridge.extract(result)
        except bridge.ExtractError as ex:
            self.ctx.violation("restore_tree|malformed-tree", str(ex))
            return
        self.ctx.ev("restore-checked")
        if fr.data["summarize"] and id(result) not in fr.judged_ann:
            self.ctx.ev("judged-at-the-outer-boundary")
            self.judge_annotations(fr.route, result, r, fr.kw)

    def judge_annotations(self, op, tree, r, kw):
        ctx = self.ctx
        try:
            spec, nodes = bridge.extract(tree, with_nodes=True)
        except bridge.ExtractError as e:
            ctx.violation("%s|malformed-tree" % op, str(e))
            return
        nm = bridge.node_map(nodes)
        cl = ref.clades(spec)
        if cl[-1][1] != self.full or len(ref.leaf_taxa(spec)) != len(self.full):
            ctx.mark_inconclusive("the harness summarised a target whose leaves are not the namespace's taxa")
            return
        rooted = r.rooted
        pct = kw.get("support_as_percentages", False)
        as_attr = kw.get("add_support_as_node_attribute", True)
        as_ann = kw.get("add_support_as_node_annotation", True)
        as_label = kw.get("set_support_as_node_label", None)
        dec = kw.get("support_label_decimals", 4)
        compose = kw.get("support_label_compose_fn", None)
        sel = kw.get("set_edge_lengths", None)
        len_on = not r.ignore_lengths
        age_on = not r.ignore_ages and rooted
        len_attr = kw.get("add_edge_length_summaries_as_edge_attributes", True)
        len_ann = kw.get("add_edge_length_summaries_as_edge_annotations", True)
        age_attr = kw.get("add_node_age_summaries_as_node_attributes", True)
        age_ann = kw.get("add_node_age_summaries_as_node_annotations", True)
        # annotations are read on every tree that is summarised again and on a sample of the others
        deep = self.force_deep or self.rng.random() < 0.25
        rel = 1e-12 if r.exact else 1e-9
        if "merged" in r.history:
            ctx.ev("support-checked-after-merge")
        per_key = {}
        for s, c in cl:
            per_key[split_key(c, self.full, rooted)] = per_key.get(split_key(c, self.full, rooted), 0) + 1
        reported = set()

        def bad(key, what, detail):
            if key in reported:
                return
            reported.add(key)
            d = {"target": ref.to_newick(spec), "rooted": rooted,
                 "settings": dict((k, repr(v)) for k, v in kw.items() if k != "tree"),
                 "trees": [ref.to_newick(s) for s in r.specs[:8]], "weights": r.weights[:8], "bits": self.bits,
                 "history": sorted(r.history)}
            d.update(detail)
            ctx.violation(key, what, d)

        def annotation(target, name):
            """(value of the annotation called name | _MISSING, number of annotations of that name)"""
            try:
                found = [a for a in target.annotations if a.name == name]
            except Exception as e:       # pragma: no cover
                return e, 1
            if not found:
                return _MISSING, 0
            try:
                return found[0].value, len(found)
            except Exception as e:
                return e, len(found)
        for s, c in cl:
            nd = nm[id(s)]
            key = split_key(c, self.full, rooted)
            krep = key_repr(key, rooted, self.full)
            f = r.freq(key)
            exp = f * 100 if pct else f
            ctx.ev("support-checked")
            values = []
            if as_attr:
                values.append(("attribute", getattr(nd, "support", _MISSING)))
            if as_ann:
                v, k = annotation(nd, "support")
                values.append(("annotation", v))
                if k > 1:
                    bad("%s|annotation-not-replaced|support" % op,
                        "node of %s carries %d annotations called 'support'" % (krep, k), {"split": krep})
            if sel == "support":
                values.append(("edge-length", nd.edge.length))
            wrong = [(w, v) for w, v in values
                     if v is _MISSING or isinstance(v, Exception) or not close(v, exp, rel=rel, abs_=1e-13)]
            bp = getattr(nd.edge, "bipartition", None)
            carried = getattr(bp, "_split_bitmask", None)
            expm = self.mask(key, rooted)
            if carried != expm:
                # the node is labelled with the mask of another split: everything looked up for it is
                # that other split's data -- one mechanism, reported once, nothing else judged on the node
                if rooted and carried == self.mask(split_key(c, self.full, False), False):
                    disc = "rooted-tree-carries-unrooted-normalised-split-mask"
                else:
                    disc = "node-carries-wrong-split-mask"
                if wrong:
                    bad("%s|support-wrong|%s" % ("max-credibility-tree" if op.startswith("max-") else op, disc),
                        "support of %s is %r (%s), frequency is %r" % (krep, wrong[0][1], wrong[0][0], exp),
                        {"split": krep, "mask-carried": carried, "mask-of-clade": expm})
                else:
                    ctx.note("node-with-foreign-split-mask-but-no-observable-difference")
                continue
            if wrong:
                bad("%s|support-wrong|value" % op,
                    "support of %s is %r (%s), frequency is %r" % (krep, wrong[0][1], wrong[0][0], exp),
                    {"split": krep})
            if as_label:
                ctx.ev("support-label-checked")
                lab = nd.label
                if compose is not None:
                    ok = lab == compose(exp) or (not r.exact and isinstance(lab, str))
                else:
                    ok = isinstance(lab, str)
                    if ok:
                        try:
                            lv = float(lab)
                        except ValueError:
                            ok = False
                    if ok:
                        frac = lab.split(".")[1] if "." in lab else ""
                        ok = len(frac) == dec and abs(lv - exp) <= 0.5 * 10 ** (-dec) * (1 + 1e-6) + 1e-9
                if not ok:
                    bad("%s|support-label-wrong" % op,
                        "label %r for support %r with %r decimals" % (lab, exp, dec), {"split": krep})
            if per_key[key] > 1:
                ctx.note("split-induced-by-several-target-edges-summaries-not-judged")
                continue
            for kind, on, attr, ann, store, tgt in (("edge-length", len_on, len_attr, len_ann, r.lengths, nd.edge),
                                                    ("node-age", age_on, age_attr, age_ann, r.ages, nd)):
                if not on:
                    continue
                if kind in r.values_tainted:
                    ctx.note("downstream-not-judged-after-%s-violation-at-counting-time" % kind)
                    continue
                vals = store.get(key)
                if not vals:
                    ctx.note("%s-summary-of-split-in-no-tree-not-judged" % kind)
                    continue
                if any(v is None for v in vals):
                    ctx.note("%s-summary-with-missing-values-not-judged" % kind)
                    continue
                want = summary_reference(vals)
                pre = "length_" if kind == "edge-length" else "age_"
                evn = "summary-stat-checked" if kind == "edge-length" else "age-summary-stat-checked"
                readers = []
                if attr:
                    readers.append(("attribute", lambda name, t=tgt: getattr(t, name, _MISSING)))
                if ann and (deep or not attr):
                    def read_ann(name, t=tgt):
                        v, k = annotation(t, name)
                        if k > 1:
                            bad("%s|annotation-not-replaced|%s" % (op, kind),
                                "%d annotations called %r on the %s of %s" % (k, name, kind, krep), {"split": krep})
                        return v
                    readers.append(("annotation", read_ann))
                    ctx.ev("summary-annotation-read")
                for where, read in readers:
                    for stat in ("mean", "median"):
                        got = read(pre + stat)
                        ctx.ev(evn)
                        if got is _MISSING or isinstance(got, Exception) or not close(got, want[stat]):
                            bad("%s|%s-summary-wrong|%s" % (op, kind, stat),
                                "%s%s (%s) of %s is %r, reference %r" % (pre, stat, where, krep, got, want[stat]),
                                {"split": krep, "values": vals[:20]})
                    got = read(pre + "range")
                    ctx.ev(evn)
                    try:
                        okr = (got is not _MISSING and len(got) == 2 and close(got[0], want["range"][0])
                               and close(got[1], want["range"][1]))
                    except TypeError:
                        okr = False
                    if not okr:
                        bad("%s|%s-summary-wrong|range" % (op, kind),
                            "%srange (%s) of %s is %r, reference %r" % (pre, where, krep, got, want["range"]),
                            {"split": krep, "values": vals[:20]})
                    got = read(pre + "sd")
                    if want["sd"] is None:
                        ctx.note("sd-of-a-single-value-not-judged")
                    elif isinstance(got, complex):
                        ctx.ev(evn)
                        bad("summary|sd-is-a-complex-number|one-pass-variance-negative",
                            "%ssd of %s is %r for values with sample sd %r" % (pre, krep, got, want["sd"]),
                            {"split": krep, "values": vals[:20]})
                    else:
                        ctx.ev(evn)
                        try:
                            oks = (got is not _MISSING and got >= 0
                                   and abs(got * got - want["var"]) <= 1e-9 * (want["var"] + want["mean"] ** 2) + 1e-300)
                        except TypeError:
                            oks = False
                        if not oks:
                            bad("%s|%s-summary-wrong|sd" % (op, kind),
                                "%ssd (%s) of %s is %r, sample sd is %r" % (pre, where, krep, got, want["sd"]),
                                {"split": krep, "values": vals[:20]})
                if kind == "edge-length" and sel in MEAN_LEN:
                    ctx.ev(evn)
                    w = want["mean" if sel == "mean-length" else "median"]
                    if nd.edge.length is None or not close(nd.edge.length, w):
                        bad("%s|set_edge_lengths-wrong|%s" % (op, sel),
                            "edge length of %s set to %r, reference %r" % (krep, nd.edge.length, w),
                            {"split": krep, "values": vals[:20]})
                if kind == "node-age" and sel in MEAN_AGE:
                    ctx.ev(evn)
                    w = want["mean" if sel == "mean-age" else "median"]
                    ga = getattr(nd, "age", _MISSING)
                    if ga is _MISSING or ga is None or not close(ga, w):
                        bad("%s|set_edge_lengths-wrong|%s" % (op, sel),
                            "node age of %s set to %r, reference %r" % (krep, ga, w),
                            {"split": krep, "values": vals[:20]})

    # ---- K: collapse -------------------------------------------------------------------------------------------
    def _collapse_frame(self):
        for fr in self.frames:
            if fr.op == "collapse":
                return fr
        return None

    def collapse_post(self, fr, sd, args, kw, result, exc):
        ctx = self.ctx
        r = self.ref_of(sd)
        outer = self._collapse_frame() or fr
        tree = fr.data["tree"]
        if exc is not None:
            if exc is self.last_exc:
                return
            if isinstance(exc, ValueError):
                self.last_exc = exc
                if r is None or r.rooted is None or r.mixed or bool(tree.is_rooted) != bool(r.rooted):
                    # documented: the rooting state of the tree differs from that of the counted trees
                    ctx.ev("documented-error:collapse:ValueError")
                    return
                ctx.violation("collapse|raised-on-valid-request|%s" % _ru(r.rooted),
                              "collapse raised %s on a tree with the rooting state of the input trees" % core_brief(exc),
                              {"tree.is_rooted": tree.is_rooted, "inputs": _ru(r.rooted)})
                return
            self.report_exc("collapse_edges_with_less_than_minimum_support", exc)
            return
        if not self.usable(r) or outer.data["pre"] is None:
            return
        thr, _ = self.requested("thr")
        self.judge_collapse(self.key_op("collapse", "thr", fr.thr), r, outer.data["pre"], tree, thr)
        self.mark("judged_cons", tree)

    def outer_collapse_post(self, fr, ta, args, kw, result, exc):
        if exc is not None:
            if exc is not self.last_exc:
                self.report_exc(fr.route, exc)
            return
        tree = fr.data["tree"]
        if self.judged_unchanged(fr, tree) or fr.data["pre"] is None:
            return
        r = self.ref_for(ta, fr)
        if not self.usable(r):
            return
        self.ctx.ev("judged-at-the-outer-boundary")
        self.judge_collapse(fr.route, r, fr.data["pre"], tree, fr.thr)
        self.mark("judged_cons", tree)

    def judge_collapse(self, op, r, pre, tree, thr):
        ctx = self.ctx
        try:
            post = bridge.extract(tree)
        except bridge.ExtractError as e:
            ctx.violation("%s|malformed-tree" % op, str(e))
            return
        rooted = r.rooted
        if frozenset(ref.leaf_taxa(pre)) != self.full:
            ctx.mark_inconclusive("the harness collapsed a target whose leaves are not the namespace's taxa")
            return
        ctx.ev("collapse-checked")
        detail = {"before": ref.to_newick(pre), "after": ref.to_newick(post), "threshold": thr, "rooted": rooted,
                  "trees": [ref.to_newick(s) for s in r.specs[:8]], "weights": r.weights[:8]}
        if sorted(ref.leaf_taxa(post)) != sorted(ref.leaf_taxa(pre)):
            ctx.violation("%s|leaf-set-changed" % op, "leaves differ after collapse", detail)
            return
        P = ref.nontrivial_splits(pre, rooted)
        Q = ref.nontrivial_splits(post, rooted)
        slack = 0.0 if r.exact else 1e-9
        for s in Q - P:
            d = dict(detail, split=key_repr(s, rooted, self.full))
            ctx.violation("%s|new-split-appeared|%s" % (op, _ru(rooted)), "collapse created a split", d)
            break
        for s in P:
            f = r.freq(s)
            d = dict(detail, split=key_repr(s, rooted, self.full), f=f)
            if f >= thr + slack and s not in Q:
                ctx.violation("%s|removed-edge-at-or-above-threshold|%s" % (op, _ru(rooted)),
                              "edge with f=%r removed at threshold %r" % (f, thr), d)
                break
            if f < thr - slack and s in Q:
                ctx.violation("%s|kept-edge-below-threshold|%s" % (op, _ru(rooted)),
                              "edge with f=%r kept at threshold %r" % (f, thr), d)
                break
        if not rooted and len(pre[3]) == 2:
            ctx.note("unrooted-basal-bifurcation-root-to-tip-not-judged")
            return
        if any(len(n[3]) == 1 for n in ref.preorder(pre)):
            ctx.note("collapse-target-with-unary-nodes")
        dpre = dict((n[0], d) for n, d, _ in ref.root_distances(pre) if not n[3])
        dpost = dict((n[0], d) for n, d, _ in ref.root_distances(post) if not n[3])
        for lab, d0 in dpre.items():
            ctx.ev("root-to-tip-checked")
            if not close(d0, dpost.get(lab, float("nan")), rel=1e-9, abs_=1e-9):
                ctx.violation("%s|root-to-tip-distance-changed|%s" % (op, _ru(rooted)),
                              "distance root -> %s was %r, is %r" % (lab, d0, dpost.get(lab)), detail)
                break

    # ---- M: credibility trees -----------------------------------------------------------------------------------------
    def calc_post(self, kind):
        def post(snap, ta, args, kw, result, exc):
            ctx = self.ctx
            if exc is not None:
                self.report_exc("calculate_%s_of_split_supports" % kind, exc)
                return
            scores, idx = result
            r = self.ta_ref(ta)
            if r is None or not scores:
                return
            ctx.ev("scores-checked")
            if idx is None or scores[idx] != max(scores):
                ctx.violation("calculate-%s|returned-index-is-not-an-argmax" % kind,
                              "index %r, scores %r" % (idx, scores[:10]))
            if self.own_call or r.tainted or r.mixed or len(scores) != r.n:
                return
            incl = _arg(args, kw, 0, "include_external_splits", False)
            for i, spec in enumerate(r.specs):
                keys = self._keys_of(spec, r.rooted)
                val = 0.0
                for k in keys:
                    a, b = key_sides(k, r.rooted, self.full)
                    if not incl and min(len(a), len(b)) <= 1 and not (r.rooted and k == self.full):
                        continue      # the library's reading: bipartition-trivial splits are skipped (on rooted
                                      # trees that includes the clade of all taxa but one), the root clade counts
                    f = r.freq(k)
                    if kind == "sum":
                        val += f
                    elif f:
                        val += math.log(f)
                if not close(val, scores[i], rel=1e-9, abs_=1e-9):
                    ctx.note("score-differs-from-reference-formula:%s" % kind)
                    break
        return post

    def collection_scores(self, ta, kind, incl):
        """the scores the collection itself reports (the statement's yardstick), asked for by the monitor."""
        fn = ta.calculate_log_product_of_split_supports if kind == "log-product" else ta.calculate_sum_of_split_supports
        self.own_call += 1
        try:
            scores, idx = fn(include_external_splits=incl)
        finally:
            self.own_call -= 1
        return list(scores)

    def maxtree_post(self, kind):
        def post(fr, ta, args, kw, result, exc):
            ctx = self.ctx
            op = fr.op
            if exc is not None:
                if exc is not self.last_exc:
                    self.report_exc(op, exc)
                return
            r = self.ta_ref(ta)
            if r is None:
                ctx.mark_inconclusive("max-credibility tree of a collection the monitor did not see being built")
                return
            if r.mixed or r.n == 0:
                ctx.note("empty-or-mixed-distribution-not-judged")
                return
            try:
                scores = self.collection_scores(ta, kind, fr.data["incl"])
            except Exception as e:
                self.report_exc("calculate_%s_of_split_supports" % kind, e)
                return
            if len(scores) != r.n:
                ctx.violation("%s|collection-does-not-report-one-score-per-tree" % op,
                              "%d scores for %d trees" % (len(scores), r.n))
                return
            best = max(scores)
            try:
                spec = bridge.extract(result)
            except bridge.ExtractError as ex:
                ctx.violation("%s|malformed-tree" % op, str(ex))
                return
            ctx.ev("maxcred-checked")
            for tag in r.history:
                ctx.ev("maxcred-checked-after:%s" % tag)
            topo = ref.topology(spec, r.rooted)
            winners = [i for i, s in enumerate(scores) if s == best]
            if len(set(repr(sorted(map(repr, t))) for t in r.topos)) > 1 and len(winners) < r.n:
                ctx.ev("maxcred-checked:discriminating")
            if not any(r.topos[i] == topo for i in winners) or sorted(ref.leaf_taxa(spec)) != sorted(self.full):
                ctx.violation("%s|topology-is-not-that-of-an-argmax-input-tree|%s" % (op, _ru(r.rooted)),
                              "returned tree differs from every input tree with the maximal reported score",
                              {"returned": ref.to_newick(spec), "scores": scores[:12], "history": sorted(r.history),
                               "argmax-trees": [ref.to_newick(r.specs[i]) for i in winners[:3]]})
            if bool(result.is_rooted) != bool(r.rooted):
                ctx.violation("%s|rooting-state-differs-from-inputs" % op, "is_rooted=%r" % result.is_rooted)
            self.mark("judged_cons", result)
            if fr.data["summarize"] and id(result) not in fr.judged_ann and self.usable(r):
                ctx.ev("judged-at-the-outer-boundary")
                self.judge_annotations(fr.route, result, r, fr.kw)
        return post

    def tl_maxtree_post(self, kind):
        def post(fr, tl, args, kw, result, exc):
            ctx = self.ctx
            op = fr.op
            if exc is not None:
                self.report_exc(op, exc)
                return
            if len(tl) == 0:
                return
            # the collection that reports the scores: the array the list built for the request
            ta = fr.tas[-1] if fr.tas else None
            try:
                if ta is None or len(ta) != len(tl):
                    self.own_call += 1
                    try:
                        ta = tl.as_tree_array()
                    finally:
                        self.own_call -= 1
                scores = self.collection_scores(ta, kind, fr.data["incl"])
            except Exception as e:
                self.report_exc(op, e)
                return
            if len(scores) != len(tl):
                ctx.violation("%s|collection-does-not-report-one-score-per-tree" % op,
                              "%d scores for %d trees" % (len(scores), len(tl)))
                return
            best = max(scores)
            ctx.ev("maxcred-checked:TreeList")
            try:
                rooted = bool(result.is_rooted)
                topo = ref.topology(bridge.extract(result), rooted)
                wtopos = [ref.topology(bridge.extract(tl[i]), rooted) for i, s in enumerate(scores) if s == best]
            except bridge.ExtractError as ex:
                ctx.violation("%s|malformed-tree" % op, str(ex))
                return
            if topo not in wtopos:
                ctx.violation("%s|returned-tree-is-not-an-argmax-input-tree" % op,
                              "scores %r" % scores[:12])
        return post

    # ---- legacy treesum -------------------------------------------------------------------------------------------------
    def legacy_settings(self, ts):
        e = self.reg_ts.get(id(ts))
        if e is not None and e[0] is ts:
            req = e[1]
        else:
            self.ctx.note("legacy-summarizer-constructed-unobserved")
            req = dict((k, getattr(ts, k)) for k in ("support_as_labels", "support_as_percentages", "add_node_metadata",
                                                     "support_label_decimals") if hasattr(ts, k))
        return {"support_as_labels": req.get("support_as_labels", True),
                "support_as_percentages": req.get("support_as_percentages", False),
                "add_node_metadata": req.get("add_node_metadata", True),
                "support_label_decimals": req.get("support_label_decimals", 4)}

    def legacy_tree_from_splits_post(self, fr, ts, args, kw, result, exc):
        if exc is not None:
            self.report_exc("treesum.tree_from_splits", exc)
            return
        sd = _arg(args, kw, 0, "split_distribution")
        r = self.ref_of(sd)
        if not self.usable(r):
            return
        thr, _ = self.requested("thr")
        op = self.key_op("legacy-tree_from_splits", "thr", fr.thr)
        self.judge_consensus(op, result, r, thr)
        incl = _arg(args, kw, 3, "include_edge_lengths", True)
        self.judge_legacy_support(op, result, r, self.legacy_settings(ts), lengths=incl, only_present=True)
        self.mark("judged_cons", result)

    def legacy_outer_post(self, fr, ts, args, kw, result, exc):
        if exc is not None:
            self.report_exc(fr.route, exc)
            return
        if self.judged_unchanged(fr, result):
            return
        r = fr.refs[-1] if fr.refs else None
        if not self.usable(r):
            return
        self.ctx.ev("judged-at-the-outer-boundary")
        self.judge_consensus(fr.route, result, r, fr.thr)

    def legacy_map_support_post(self, snap, ts, args, kw, result, exc):
        if exc is not None:
            self.report_exc("treesum.map_split_support_to_tree", exc)
            return
        sd = _arg(args, kw, 1, "split_distribution")
        tree = _arg(args, kw, 0, "tree")
        r = self.ref_of(sd)
        if not self.usable(r):
            return
        self.judge_legacy_support("legacy-map_split_support_to_tree", tree, r, self.legacy_settings(ts),
                                  lengths=False, only_present=False)

    def legacy_annotate_post(self, snap, ts, args, kw, result, exc):
        """TreeSummarizer.annotate_nodes_and_edges: length_* / age_* attributes with bound annotations, no support."""
        op = "legacy-annotate_nodes_and_edges"
        if exc is not None:
            self.report_exc(op, exc)
            return
        r = self.ref_of(_arg(args, kw, 1, "split_distribution"))
        if not self.usable(r):
            return
        self.ctx.ev("legacy-annotate-checked")
        self.judge_annotations(op, _arg(args, kw, 0, "tree"), r,
                               {"add_support_as_node_attribute": False, "add_support_as_node_annotation": False})

    @staticmethod
    def legacy_values_pre(ts, args, kw):
        tree = _arg(args, kw, 0, "tree")
        return "target-encoded-beforehand" if getattr(tree, "bipartition_encoding", None) else "target-never-encoded"

    def legacy_values_post(self, kind):
        """TreeSummarizer.summarize_edge_lengths_on_tree / summarize_node_ages_on_tree with the default summarisation
        function (documented: the mean): every edge length / node age of the target whose split has a complete value
        list in the reference equals the mean of that list."""
        op = "legacy-summarize_%s_on_tree" % ("edge_lengths" if kind == "edge-length" else "node_ages")

        def post(snap, ts, args, kw, result, exc):
            ctx = self.ctx
            r = self.ref_of(_arg(args, kw, 1, "split_distribution"))
            tree = _arg(args, kw, 0, "tree")
            if _arg(args, kw, None, "summarization_fn") is not None:
                return
            if r is None or r.n == 0 or r.mixed or r.tainted or kind in r.values_tainted:
                if exc is not None:
                    self.last_exc = exc
                return
            store = r.lengths if kind == "edge-length" else r.ages
            on = (not r.ignore_lengths) if kind == "edge-length" else (not r.ignore_ages and r.rooted)
            if exc is not None:
                if not on or not r.usable_values(store):
                    self.last_exc = exc
                    ctx.ev("documented-error:%s" % op)
                    return
                self.report_exc(op, exc)
                return
            if not on:
                return
            try:
                spec, nodes = bridge.extract(tree, with_nodes=True)
            except bridge.ExtractError as e:
                ctx.violation("%s|malformed-tree" % op, str(e))
                return
            nm = bridge.node_map(nodes)
            cl = ref.clades(spec)
            if cl[-1][1] != self.full or len(ref.leaf_taxa(spec)) != len(self.full):
                ctx.mark_inconclusive("the harness summarised a target whose leaves are not the namespace's taxa")
                return
            per_key = {}
            for s_, c in cl:
                k = split_key(c, self.full, r.rooted)
                per_key[k] = per_key.get(k, 0) + 1
            for s_, c in cl:
                key = split_key(c, self.full, r.rooted)
                vals = store.get(key)
                if per_key[key] > 1 or not vals or any(v is None for v in vals):
                    continue
                nd = nm[id(s_)]
                want = summary_reference(vals)["mean"]
                got = nd.edge.length if kind == "edge-length" else getattr(nd, "age", _MISSING)
                ctx.ev("legacy-value-checked:%s" % kind)
                if got is _MISSING or got is None or not close(got, want):
                    ctx.violation("%s|%s-summary-wrong|mean|%s" % (op, kind, snap),
                                  "%s of %s set to %r, mean of the split's values %r" % (
                                      kind, key_repr(key, r.rooted, self.full), got, want),
                                  {"target": ref.to_newick(spec), "values": vals[:20], "rooted": r.rooted,
                                   "trees": [ref.to_newick(x) for x in r.specs[:8]]})
                    return
        return post

    def judge_legacy_support(self, op, tree, r, st, lengths, only_present):
        ctx = self.ctx
        try:
            spec, nodes = bridge.extract(tree, with_nodes=True)
        except bridge.ExtractError as e:
            ctx.violation("%s|malformed-tree" % op, str(e))
            return
        nm = bridge.node_map(nodes)
        cl = ref.clades(spec)
        if cl[-1][1] != self.full or len(ref.leaf_taxa(spec)) != len(self.full):
            ctx.mark_inconclusive("the harness summarised a target whose leaves are not the namespace's taxa")
            return
        rooted = r.rooted
        rel = 1e-12 if r.exact else 1e-9
        detail = {"target": ref.to_newick(spec), "trees": [ref.to_newick(s) for s in r.specs[:8]],
                  "weights": r.weights[:8], "rooted": rooted, "settings": dict((k, repr(v)) for k, v in st.items())}
        done = set()
        for s, c in cl:
            nd = nm[id(s)]
            key = split_key(c, self.full, rooted)
            if only_present and key not in r.counts:
                continue
            f = r.freq(key)
            exp = f * 100 if st["support_as_percentages"] else f
            ctx.ev("support-checked")
            if st["add_node_metadata"]:
                got = getattr(nd, "support", _MISSING)
                if (got is _MISSING or not close(got, exp, rel=rel, abs_=1e-13)) and "s" not in done:
                    done.add("s")
                    ctx.violation("%s|support-wrong|value" % op,
                                  "support of %s is %r, frequency %r" % (key_repr(key, rooted, self.full), got, exp),
                                  detail)
            if st["support_as_labels"]:
                ctx.ev("support-label-checked")
                dec = st["support_label_decimals"]
                lab = nd.label
                ok = isinstance(lab, str)
                if ok:
                    try:
                        lv = float(lab)
                    except ValueError:
                        ok = False
                if ok:
                    d = dec if dec > 0 else (0 if st["support_as_percentages"] else 4)
                    ok = abs(lv - exp) <= 0.5 * 10 ** (-d) * (1 + 1e-6) + 1e-9
                if not ok and "l" not in done:
                    done.add("l")
                    ctx.violation("%s|support-label-wrong" % op, "label %r for support %r" % (lab, exp), detail)
            if lengths and not r.ignore_lengths and "edge-length" not in r.values_tainted:
                vals = r.lengths.get(key)
                if vals and all(v is not None for v in vals):
                    ctx.ev("summary-stat-checked")
                    want = summary_reference(vals)["mean"]
                    if (nd.edge.length is None or not close(nd.edge.length, want)) and "e" not in done:
                        done.add("e")
                        ctx.violation("%s|edge-length-summary-wrong|mean" % op,
                                      "edge length %r, mean of the split's lengths %r" % (nd.edge.length, want), detail)


def core_brief(exc):
    s = "%s: %s" % (type(exc).__name__, exc)
    return s if len(s) < 200 else s[:200] + "..."
