"""C11 driver, part 1: plumbing shared by all operation groups (announce-and-call, object builders, predictions of
legitimate refusals, document drawing).  See C11.py for the method."""
import io
import os
import shutil
import tempfile
import warnings

from .. import ref, bridge, core
from ..mon.budget import budget, StepBudgetExceeded
from . import _c11_util as U
from . import _c11_docs as DOCS
from ._c11_util import Expect

# logical step budget of ONE container operation (loop back-edges inside library code): STEP_BASE + STEP_PER_TREE per tree
# alive in the world's lists.  The most expensive legitimate operation seen in thousands of histories (reading a NeXML
# document, cloning a whole list) needs < 3 500 steps with < 60 per tree of the lists involved, so the budget is more
# than ten times what any terminating call needs - and small enough that a call which never terminates is cut after a
# fraction of a second of CPU time.
STEP_BASE = 40000
STEP_PER_TREE = 600
STEP_LIMIT = STEP_BASE


class Stop(Exception):
    """the history cannot go on (a violation was reported or the world is unusable)."""


def pick(d, key, fn):
    if key not in d:
        d[key] = fn()
    return d[key]


MATRIX_CLASS = {"dna": "DnaCharacterMatrix", "protein": "ProteinCharacterMatrix", "standard": "StandardCharacterMatrix",
                "continuous": "ContinuousCharacterMatrix"}


def dtype_of(m):
    for k, v in MATRIX_CLASS.items():
        if type(m).__name__ == v:
            return k
    return "dna"


class DriverBase(object):
    """executes operation descriptors (JSON-able dicts; fields that are missing are drawn from the rng and
    written back, so the logged history is complete) on the real objects and announces to the monitor
    what each hooked call is expected to do."""

    def __init__(self, ctx, rng, mon):
        self.ctx, self.rng, self.mon = ctx, rng, mon
        self.w = U.World()
        self.hist = []
        mon.world = self.w
        mon.history = self.hist
        self.uni = U.universe(rng)
        self.tmpdir = None
        self.max_steps = 0

    def cleanup(self):
        if self.tmpdir is not None:
            shutil.rmtree(self.tmpdir, ignore_errors=True)
            self.tmpdir = None

    # ---- plumbing ----------------------------------------------------------------------------
    def call(self, E, fn):
        mon = self.mon
        mon.expect, mon.fired, mon.last_ok, mon.judge_error, mon.consistent = E, False, True, None, True
        self.ctx.ev("op-applied")
        self.ctx.ev("op:%s" % E.op)
        res = exc = None
        limit = STEP_BASE + STEP_PER_TREE * sum(len(x) for x in self.w.model.values())
        b = budget(limit)
        try:
            with warnings.catch_warnings():
                warnings.simplefilter("ignore")
                with b:
                    res = fn()
        except core.CaseTimeout:
            raise
        except StepBudgetExceeded as e:
            mon.expect = None
            # (the place where the budget ran out is an accident of the limit: the key names the operation and its input class)
            mon.viol(E, "does-not-terminate", "exceeded the step budget of %d loop steps (at %s)" % (limit, e.where), world=False)
            raise Stop()
        except Exception as e:
            exc = e
        if b.steps > self.max_steps:
            self.max_steps = b.steps
        if mon.judge_error is not None:
            raise mon.judge_error
        if not mon.fired:
            mon.expect = None
            if exc is not None:
                raise exc
            raise core.HarnessBug("hooked operation %s did not reach its hook" % E.op)
        if not mon.consistent:
            raise Stop()          # closure / frame broken or undocumented exception: later verdicts would only echo this one
        return res, exc

    def run(self, d):
        self.hist.append(d)
        getattr(self, "op_" + d["op"])(d)

    def NS(self, j):
        return self.w.namespaces[j % len(self.w.namespaces)]

    def any_ns(self, d, key="ns", prefer_empty=0.0):
        def f():
            empty = [i for i, x in enumerate(self.w.namespaces) if len(x) == 0]
            if empty and self.rng.random() < prefer_empty:
                return self.rng.choice(empty)
            return self.rng.randrange(len(self.w.namespaces))
        return self.NS(pick(d, key, f))

    def fresh_ns(self, d):
        import dendropy
        ns = dendropy.TaxonNamespace(list(d.get("nslabels", [])), is_case_sensitive=bool(d.get("nscs", False)))
        return self.w.track_ns(ns)

    def build(self, td):
        """tree descriptor -> live free tree, built through the node API in its own namespace."""
        ns = self.fresh_ns(td) if td["ns"] == -1 else self.NS(td["ns"])
        by_label = {}
        for tx in ns:
            by_label.setdefault(tx.label, tx)
        if not ns.is_mutable:
            # nothing can be created in an immutable namespace: the tree is written over its members
            have = [tx.label for tx in ns]
            if not have:
                raise Stop()
            td["labels"] = [l if l in by_label else have[i % len(have)] for i, l in enumerate(td["labels"])]
            td["itax"] = [l for l in td.get("itax", ()) if l in by_label]
        elif not ns.is_case_sensitive and td.setdefault("reuse", self.rng.random() < 0.75):
            # in a case-insensitive namespace a label is usually written onto the member it matches (as a user who
            # looks taxa up would do); otherwise a second member that differs in case only is created on purpose
            low = {}
            for tx in ns:
                low.setdefault(tx.label.lower(), tx)
            for lbl in list(td["labels"]) + list(td.get("itax", ())):
                if lbl not in by_label and lbl.lower() in low:
                    by_label[lbl] = low[lbl.lower()]
        t = bridge.build_tree(U.spec_of(td), ns, rooted=True, taxa_by_label=by_label)
        self.w.add_free(t)
        return t

    def rand_td(self, target_ns, same_p=0.3, **kw):
        rng, w = self.rng, self.w
        r = rng.random()
        others = [i for i, x in enumerate(w.namespaces) if x is not target_ns and (x.is_mutable or len(x) >= 2)]
        if r < same_p and target_ns is not None and (target_ns.is_mutable or len(target_ns) >= 2):
            j = w.ns_index(target_ns)
        elif r < same_p + 0.45 and others:
            j = rng.choice(others)
        else:
            j = -1
        td = U.tree_desc(rng, self.uni, j, **kw)
        if j == -1:
            td["nscs"] = rng.random() < 0.3
            td["nslabels"] = rng.sample(self.uni, rng.randint(0, min(3, len(self.uni))))
        elif not w.namespaces[j].is_mutable and kw.get("distinct"):
            # an array tree over an immutable namespace: distinct members
            have = U.canon_distinct([t.label for t in w.namespaces[j]])
            if len(have) < 2:
                td["ns"] = -1
                td["nscs"], td["nslabels"] = False, []
            else:
                td["labels"] = rng.sample(have, rng.randint(2, min(5, len(have))))
        return td

    def tree_arg(self, d, target_ns, key="t", **kw):
        """a free tree: newly built, or (sometimes) one that was removed from a list earlier."""
        removed = [e[0] for e in self.w.free if e[1] == "removed"]
        if key not in d:
            if removed and self.rng.random() < 0.25:
                d[key] = {"removed": self.rng.randrange(len(removed))}
            else:
                d[key] = self.rand_td(target_ns, **kw)
        td = d[key]
        if "removed" in td:
            if not removed:
                raise Stop()
            return removed[td["removed"] % len(removed)]
        return self.build(td)

    @staticmethod
    def mode(t, ns, strategy="migrate", unify=True):
        if t.taxon_namespace is ns:
            return "same"
        if strategy == "add":
            return "add"
        return "unify" if unify else "distinct"

    def sig(self, op, mode, ns, labels):
        """distinct non-trivial operation classes (for the evidence)."""
        if mode == "same":
            return
        have = [t.label for t in ns] if ns is not None else []
        exact = set(have)
        low = set(x.lower() for x in have)
        cls = "disjoint"
        if any(x in exact for x in labels):
            cls = "overlap-exact"
        if any(x not in exact and x.lower() in low for x in labels):
            cls += "+case-variant"
        self.ctx.nontrivial((op, mode, bool(ns.is_case_sensitive) if ns is not None else None,
                             bool(ns.is_mutable) if ns is not None else None, cls))

    def labels_of(self, t):
        return [x[2] for x in U.walk(t) if x[2] is not None]

    def L(self, d, key="l"):
        if not self.w.lists:
            raise Stop()
        return self.w.lists[pick(d, key, lambda: self.rng.randrange(len(self.w.lists))) % len(self.w.lists)]

    def model(self, lst):
        return list(self.w.model[id(lst)])

    def objs(self, trees):
        return [("obj", t) for t in trees]

    def movable(self, lst):
        """namespace-changing calls are not made on components of a data set in attached mode."""
        return not self.w.in_attached_dataset(lst)

    def other_ns(self, d, cur, key="ns", same_p=0.1):
        def f():
            idx = [i for i, x in enumerate(self.w.namespaces) if x is not cur]
            if not idx or self.rng.random() < same_p:
                return self.w.ns_index(cur)
            return self.rng.choice(idx)
        return self.NS(pick(d, key, f))

    def trim(self):
        """keep the world small: forget the oldest free-standing objects."""
        w = self.w
        while len(w.lists) > 6:
            for lst in w.lists:
                if w.dataset_of(lst) is None:
                    w.forget_list(lst)
                    break
            else:
                break
        while len(w.free) > 10:
            for k, e in enumerate(w.free):
                if e[1] != "removed":
                    del w.free[k]
                    break
            else:
                w.free.pop(0)
                self.ctx.ev("removed-tree-forgotten")
        while len(w.mats) > 5:
            for m in w.mats:
                if w.dataset_of(m) is None:
                    w.mats = [x for x in w.mats if x is not m]
                    break
            else:
                break
        while len(w.arrays) > 4:
            w.arrays.pop(0)

    # ---- predictions of legitimate refusals -----------------------------------------------------
    @staticmethod
    def lacking(ns, labels, cs=None):
        """labels that have no member in ns under its case rule (or under the rule given)."""
        cf = U.canon_fn(bool(ns.is_case_sensitive) if cs is None else bool(cs))
        have = set(cf(t.label) for t in ns)
        return [l for l in labels if cf(l) not in have]

    def allow_imm(self, E):
        from dendropy.utility import error
        E.allowed = tuple(E.allowed) + (error.ImmutableTaxonNamespaceError,)

    def imm_trees(self, E, ns, pairs, memo=None):
        """trees re-mapped in place into ns: ImmutableTaxonNamespaceError is legitimate iff ns is immutable and a
        taxon would have to be created / registered (predicted from labels and identities)."""
        if ns is None or ns.is_mutable:
            return
        mem = set(id(t) for t in ns)
        for t, mode in pairs:
            if mode == "same":
                continue
            for nd, tx, lbl, leaf in U.walk(t):
                if tx is None:
                    continue
                if memo is not None and any(tx is k for k in memo):
                    q = [v for k, v in memo.items() if k is tx][0]
                    if mode == "unify" or id(tx) not in mem:
                        if id(q) not in mem:
                            return self.allow_imm(E)
                        continue
                if mode == "unify":
                    if self.lacking(ns, [lbl]):
                        return self.allow_imm(E)
                elif id(tx) not in mem:
                    return self.allow_imm(E)

    def imm_labels(self, E, ns, labels, cs=None):
        if ns is not None and not ns.is_mutable and self.lacking(ns, labels, cs):
            self.allow_imm(E)

    def imm_clone(self, E, ns, src_ns):
        """copies map EVERY member of the source namespace by label first."""
        if ns is not None and src_ns is not ns:
            self.imm_labels(E, ns, [t.label for t in src_ns])

    # ---- sources -----------------------------------------------------------------------------------
    def source_kw(self, d, text):
        kind = pick(d, "srckind", lambda: self.rng.choice(["data"] * 6 + ["file", "file", "path"]))
        if kind == "file":
            return {"file": io.StringIO(text)}
        if kind == "path":
            return {"path": self.tmpfile(text)}
        return {"data": text}

    def tmpfile(self, text):
        if self.tmpdir is None:
            self.tmpdir = tempfile.mkdtemp(prefix="vf-c11-")
        path = os.path.join(self.tmpdir, "doc%d.txt" % len(os.listdir(self.tmpdir)))
        with open(path, "w", encoding="utf-8") as f:
            f.write(text)
        return path

    def next_row(self):
        self.w.rowno += 1
        return self.w.rowno

    def next_seq(self, dtype="dna"):
        return U.seq_for(self.next_row(), dtype)

    def draw_doc(self, d, kind, dtype=None):
        """descriptor of a document (see _c11_docs).  kind: trees | array | chars | any"""
        if "doc" in d:
            return d["doc"]
        rng, uni = self.rng, self.uni
        schema = rng.choice({"trees": ["newick", "nexus", "nexus", "nexml", "nexml"],
                             "array": ["newick", "nexus", "nexus"],
                             "chars": ["nexus", "nexus", "nexml", "fasta", "phylip", "phylip"],
                             "any": ["newick", "nexus", "nexus", "nexus", "nexml", "nexml", "fasta", "phylip", "phylip"]}[kind])
        doc = {"schema": schema}
        if schema == "newick":
            ncoll, nmat = 1, 0
        elif schema in ("fasta", "phylip"):
            ncoll, nmat = 0, 1
        elif kind in ("trees", "array"):
            ncoll, nmat = rng.choice([1, 1, 2]), rng.choice([0, 0, 0, 1])
        elif kind == "chars":
            ncoll, nmat = rng.choice([0, 0, 1]), rng.choice([1, 1, 2])
        else:
            ncoll, nmat = rng.choice([(0, 1), (1, 0), (1, 1), (1, 1), (2, 1), (1, 2), (2, 0), (0, 2)])
        if kind == "array":
            ncoll, nmat = 1, 0
        if dtype is None:
            dtype = rng.choice(["dna", "dna", "protein", "standard", "continuous"])
        if schema == "fasta" and dtype == "continuous":
            dtype = "dna"
        if schema == "nexus":
            doc["taxa"] = rng.choice(["none", "none", "one", "one", "two"])
            doc["translate"] = rng.random() < 0.3
            doc["translate_mixed"] = doc["translate"] and rng.random() < 0.5   # every second tree names one translated taxon by its full label
            if nmat and doc["taxa"] == "none":
                doc["datablock"] = True       # a matrix needs NTAX: from a TAXA block or from a DATA block
                nmat = 1
            elif nmat == 1 and doc["taxa"] == "one" and rng.random() < 0.3:
                doc["datablock"] = True
            if nmat:
                doc["interleave"] = rng.random() < 0.3
        if schema == "phylip":
            doc["interleave"] = rng.random() < 0.35
            doc["strict"] = rng.random() < 0.3
        spell = {}
        mats = []
        for _ in range(nmat):
            rl = U.canon_distinct(rng.sample(uni, rng.randint(2 if doc.get("datablock") else 1, min(4, len(uni)))))
            rl = [spell.setdefault(x.lower(), x) for x in rl]
            mats.append({"rows": rl, "dtype": dtype, "seqs": [self.next_row() for _ in rl]})
        pool = uni
        if doc.get("datablock") and doc.get("taxa", "none") == "none":
            pool = list(mats[0]["rows"])      # the DATA block defines the taxa of the file
            if len(pool) < 2:
                ncoll = 0
        colls = []
        for _ in range(ncoll):
            tds = U.doc_trees(rng, pool, rng.randint(1, 3), 2, spelling=list(spell.values()))
            for td in tds:
                for x in td["labels"]:
                    spell.setdefault(x.lower(), x)
            colls.append(tds)
        doc["colls"], doc["mats"] = colls, mats
        d["doc"] = doc
        return doc

    def render(self, doc):
        return DOCS.render(doc, lambda td: U.spec_of(td, text=True), U.seq_for)

    def reader_refusals(self, E, R, ns, single=True, prior_ntax=0):
        """documented / recorded refusals of a read into namespace ns (None: a new namespace).
        single: the target is ONE namespace handed to the reader through a factory (TreeList, TreeArray, CharacterMatrix)."""
        from dendropy.dataio import nexusreader
        if ns is None:
            return
        if single and R.schema == "nexus" and R.two_taxa_blocks:
            # a file with several titled TAXA blocks cannot be coerced into one namespace by these routes (the reader
            # refuses: duplicate / unknown block title, or NTAX of the second block): recorded, not judged
            E.allowed = tuple(E.allowed) + (nexusreader.NexusReader.NexusReaderError,)
            E.multi_taxa_refusal = True
        lack = self.lacking(ns, R.labels)
        self.imm_labels(E, ns, R.labels)
        if R.schema == "phylip" and R.kw.get("interleaved") and len(ns) > 0:
            # input class of its own (pages of an interleaved matrix read into a namespace that has members): a refusal of
            # such a file gets its own clause
            E.refusal_clause = "interleaved-phylip-refused-for-populated-namespace"
        decls = R.ntax_decls + prior_ntax
        if R.schema == "nexus" and decls and lack and (len(ns) > 0 or decls > 1 or prior_ntax):
            # NTAX declared in the file (or in an earlier file of the same call) versus members already present:
            # recorded, not judged
            E.allowed = tuple(E.allowed) + (nexusreader.NexusReader.TooManyTaxaError, nexusreader.NexusReader.UndefinedTaxonError)

    def note_refusal(self, exc):
        """recorded-not-judged refusals of readers (see reader_refusals)."""
        from dendropy.utility import error
        if exc is None or not isinstance(exc, error.DataParseError):
            return
        if type(exc).__name__ in ("TooManyTaxaError", "UndefinedTaxonError"):
            self.ctx.note("nexus-ntax-declaration-refused-for-populated-namespace")
        else:
            self.ctx.note("nexus-file-with-several-taxa-blocks-refused-for-single-namespace-target:%s" % type(exc).__name__)

    @staticmethod
    def select(colls, coff, toff):
        """trees a TreeList read delivers for (collection_offset, tree_offset): documented semantics."""
        if coff is None and toff is not None:
            coff = 0
        if coff is None:
            return [t for c in colls for t in c], False
        n = len(colls)
        if coff >= n or coff < -n:
            return None, True
        c = colls[coff]
        if toff is None:
            return list(c), False
        if toff >= len(c):
            return None, True
        return list(c[toff:]), False

    def _memo(self, d, taxa, target, p=0.15):
        """pre-seeded taxon_mapping_memo {old taxon: new taxon}; key = a taxon in use | an unused taxon;
        value = a brand-new Taxon | a member of the target | a member of a third namespace."""
        import dendropy
        if not pick(d, "memo", lambda: self.rng.random() < p):
            return None, None
        used = []
        for tx in taxa:
            if tx is not None and not any(tx is u for u in used):
                used.append(tx)
        keykind = pick(d, "memo_key", lambda: self.rng.choice(["used"] * 4 + ["unused"]))
        if keykind == "unused" or not used:
            d["memo_key"] = "unused"
            p_ = dendropy.Taxon(label="unused")
        else:
            p_ = used[pick(d, "memo_i", lambda: self.rng.randrange(len(used))) % len(used)]
        kind = pick(d, "memo_to", lambda: self.rng.choice(["new", "new", "member", "third"]))
        q = None
        # (a mapping target that is itself one of the taxa being moved would make the outcome depend on the order in which
        # the library walks the object: not a sensible mapping, not generated)
        free = lambda seq: [t for t in seq if not any(t is u for u in used)]
        if kind == "member" and target is not None:
            cand = free(target)
            if cand:
                q = cand[pick(d, "memo_j", lambda: self.rng.randrange(len(cand))) % len(cand)]
        elif kind == "third":
            others = [x for x in self.w.namespaces if x is not target and free(x)]
            if others:
                cand = free(others[pick(d, "memo_o", lambda: self.rng.randrange(len(others))) % len(others)])
                q = cand[pick(d, "memo_j", lambda: self.rng.randrange(len(cand))) % len(cand)]
        if q is None:
            d["memo_to"] = "new"
            q = dendropy.Taxon(label="zeta")
        return {p_: q}, {id(p_): (p_, q)}
