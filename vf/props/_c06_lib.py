"""Library-level workload of C06: histories over a pool of TreeArrays, judged against the serial collection.

One case = one sample (NNI walk around a base tree; optional differing leaf sets, missing lengths, weights incl. 0),
one configuration (ignore/weight flags AND the constructor-only age settings is_force_max_age / taxon_label_age_map /
ultrametricity_precision), one query vector (consensus threshold, edge-length policy, summarize yes/no), k parts built
ONCE through randomly chosen construction routes and re-used by several histories.  A history interleaves
  - merges of the parts in an arrival order with update / extend / += / + (part on the right or on the LEFT of +),
    one operator per history (styles update, extend, iadd, add) or a random operator per step (style mixed), parts
    that are themselves results of a merge, a part merged twice;
  - tree-level operations AFTER merges (add_tree / append / insert at a position / add_trees) with trees held back;
  - WARM queries (frequencies, consensus, scores, summaries) on the master between arrivals and on parts before
    they are merged, so that every final comparison is also reached with warm caches.
The harness tracks the expected tree sequence of every collection.  Judged at the end of a history: the full public
summary equals that of a serial collection of the same trees, and every per-tree query at index i answers for the
tree the history put at i (rows of get_split_bitmask_and_edge_tuple, restore_tree topology + lengths, per-tree
scores, arg-max index) - against the serial collection and, for the restored topology, against the source spec.
Hooks: alignment of the four per-tree lists (lengths AND rows) after every merge / add_tree, size additivity,
'+' returns a new collection, sources unchanged (public state)."""
import itertools

from .. import ref, gen, bridge, core
from ..mon.hooks import Hooks

STYLES = ("update", "extend", "iadd", "add", "mixed", "insert")
ROUTES = ("add_tree", "add_tree", "append", "insert", "add_trees", "from_tree_list", "as_tree_array", "bipartitions-updated", "read")
MIN_FREQS = ("default", None, 0.25, 1.0 / 3, 0.5, 0.5, 0.75, 1.0)


def close(a, b):
    if a == b:
        return True
    if a is None or b is None:
        return False
    return abs(a - b) <= 1e-9 * max(1.0, abs(a), abs(b))


def close_seq(a, b):
    return len(a) == len(b) and all(close(x, y) for x, y in zip(a, b))


# ------------------------------------------------------------------------------------------------ samples
def sample_specs(rng, ntax, ntrees, ultrametric, lengths=("dyadic", "ints", "unit"), names=None, partial=False):
    base = gen.random_spec(rng, ntax, p_poly=0.1, names=names)
    labels = sorted(ref.leaf_taxa(base))
    out = []
    cur = base
    for i in range(ntrees):
        if rng.random() < 0.5:
            cur = gen.nni(cur, rng)
        if rng.random() < 0.1:
            cur = base
        s = ref.copy(cur)
        if partial and ntax >= 5 and rng.random() < 0.5:
            drop = set(rng.sample(labels, rng.randint(1, 2)))
            s = ref.induced(s, set(labels) - drop)
        if ultrametric:
            gen.ultrametric_lengths(s, rng, dyadic=True)
        else:
            gen.decorate_lengths(s, rng, rng.choice(lengths))
        out.append(s)
    return out


def newick_of(spec):
    def f(n):
        t = ""
        if n[3]:
            t = "(" + ",".join(f(c) for c in n[3]) + ")"
        if n[0] is not None:
            t += n[0]
        if n[2] is not None:
            t += ":%r" % float(n[2])
        return t
    return f(spec)


# ------------------------------------------------------------------------------------------------ queries
def tree_sig(tree, rooted):
    """(topology, {split: support}, {split: length}, {split: age annotation}) read from the raw structure."""
    spec, nodes = bridge.extract(tree, with_nodes=True)
    cl = dict((id(n), c) for n, c in ref.clades(spec))
    full = cl[id(spec)]
    sup, lens, ages = {}, {}, {}
    for s, nd in nodes:
        key = cl[id(s)] if rooted else ref.usplit(cl[id(s)], full)
        a = nd.annotations.get_value("support", None)
        if a is not None:
            sup[key] = float(a)
        a = getattr(nd, "age_median", None)
        if isinstance(a, (int, float)):
            ages[key] = float(a)
        if s[2] is not None:
            lens[key] = lens.get(key, 0) + s[2]
    return ref.topology(spec, rooted), sup, lens, ages


def cons_kwargs(q):
    kw = {}
    if q["min_freq"] != "default":
        kw["min_freq"] = q["min_freq"]
    if not q["summarize"]:
        kw["summarize_splits"] = False
    elif q["edges"] is not None:
        kw["set_edge_lengths"] = q["edges"]
    return kw


def summary(ctx, ta, q, where, det, per_tree=True):
    """what a TreeArray answers through its public queries; None + violation when a query fails."""
    sd = ta.split_distribution
    out = {}
    try:
        n = out["n"] = len(ta)
        # FIRST query of every summary, before anything recalculates the frequencies: a target tree summarised directly
        # against the collection (the SumTrees target-tree route).  A star tree over the namespace carries every trivial
        # split, so its per-leaf length / age summaries are a function of the sample alone (seeded change C06d: summary
        # tables kept stale by a shared freshness stamp after further trees had been added one at a time).
        out["target"] = {}
        if n and q.get("full_leaf_sets", True) and len(ta.taxon_namespace) >= 3:
            import dendropy
            star = dendropy.Tree(taxon_namespace=ta.taxon_namespace)
            for t in ta.taxon_namespace:
                star.seed_node.new_child(taxon=t)
            star.is_rooted = bool(ta.is_rooted_trees)
            ta.summarize_splits_on_tree(star)
            ctx.ev("target-tree-summarised-directly")
            for nd in star.seed_node._child_nodes:
                vals = {}
                for holder in (nd, nd.edge):
                    for k, v in vars(holder).items():
                        if (k.startswith("length_") or k.startswith("age_")) and isinstance(v, (int, float)) and not isinstance(v, bool):
                            vals[k] = float(v)
                a = nd.annotations.get_value("support", None)
                if a is not None:
                    vals["support"] = float(a)
                out["target"][nd.taxon.label] = vals
        out["counts"] = dict(sd.split_counts)
        out["freqs"] = dict((s, sd[s]) for s in sd.split_counts)
        out["lengths"] = dict((s, sorted(v)) for s, v in sd.split_edge_lengths.items() if s in sd.split_counts and v)
        out["ages"] = dict((s, sorted(v)) for s, v in sd.split_node_ages.items() if s in sd.split_counts and v)
        if n == 0:
            return out
        rooted = bool(ta.is_rooted_trees)
        ct = ta.consensus_tree(**cons_kwargs(q))
        out["consensus"], out["supports"], out["cons_lengths"], out["cons_ages"] = tree_sig(ct, rooted)
        out["consensus_rooting"] = ct.is_rooted
        scores, idx = ta.calculate_log_product_of_split_supports()
        s2, idx2 = ta.calculate_sum_of_split_supports()
        out["scores"], out["sumscores"], out["argmax"], out["argmax_sum"] = list(scores), list(s2), idx, idx2
        out["mcc_score"], out["msc_score"] = max(scores), max(s2)
        split_sets = [frozenset(ta.get_split_bitmask_and_edge_tuple(i)[0]) for i in range(n)]
        for name, sc, mx in (("mcct", scores, out["mcc_score"]), ("msct", s2, out["msc_score"])):
            best = [i for i, x in enumerate(sc) if close(x, mx)]
            out[name + "_unique_topology"] = len(set(split_sets[i] for i in best)) == 1
            out[name + "_unique_tree"] = len(best) == 1
        kw = {} if q["summarize"] else {"summarize_splits": False}
        if q["summarize"] and q["mcct_edges"]:
            kw["set_edge_lengths"] = q["mcct_edges"]
        out["mcct"], out["mcct_supports"], out["mcct_lengths"], _ = tree_sig(ta.maximum_product_of_split_support_tree(**kw), rooted)
        out["msct"] = tree_sig(ta.maximum_sum_of_split_support_tree(), rooted)[0]
        if per_tree:
            rows = []
            for i in range(n):
                sp, el = ta.get_split_bitmask_and_edge_tuple(i)
                top, _, lens, _ = tree_sig(ta.restore_tree(i), rooted)
                rows.append((sorted(zip(sp, el), key=lambda p: (p[0], repr(p[1]))), top, lens))
            out["rows"] = rows
            if [tuple(x) for x in ta] != [ta.get_split_bitmask_and_edge_tuple(i) for i in range(n)]:
                out["iter_mismatch"] = True
        out["topologies"] = len(ta.topologies())
        out["sbsf"] = sorted(ta.split_bitmask_set_frequencies().values())
        bef = ta.bipartition_encoding_frequencies()
        # with differing leaf sets distinct stored trees can restore to the same bipartition encoding: the table is
        # then not a function of the sample (not part of the statement) - queried, not compared
        out["bef"] = sorted(bef.values()) if q.get("full_leaf_sets", True) else None
    except core.CaseTimeout:
        raise
    except Exception as e:
        ctx.violation("%s|query-fails-after-merge|%s" % (where, core.exc_key(e)),
                      "per-tree / summary query failed: %s" % core.exc_brief(e), det)
        return None
    return out


def compare(ctx, a, b, where, det, seq=None, bpos=None, spec_tops=None, suffix="", light=False):
    """a = serial baseline, b = collection under test holding the trees ``seq`` (indices into the sample);
    bpos[j] = index of tree j in the baseline.  First difference is the witness."""
    def diff(clause, msg, sfx=""):
        ctx.violation("%s|summary-differs|%s%s" % (where, clause, sfx), msg, det)
        return False

    def pdiff(clause, msg):
        ctx.violation("%s|per-tree-query-differs|%s" % (where, clause), msg, det)
        return False
    if a["n"] != b["n"]:
        return diff("tree-count", "%d trees vs %d" % (a["n"], b["n"]))
    if set(a["counts"]) != set(b["counts"]):
        return diff("split-set", "different sets of counted splits")
    for s in a["counts"]:
        if not close(a["counts"][s], b["counts"][s]):
            return diff("split-counts", "count of split %s: %r vs %r" % (bin(s), a["counts"][s], b["counts"][s]))
        if not close(a["freqs"][s], b["freqs"][s]):
            return diff("split-frequencies", "frequency of split %s: %r vs %r" % (bin(s), a["freqs"][s], b["freqs"][s]))
    for k in ("lengths", "ages"):
        sfx = suffix if k == "ages" else ""
        if set(a[k]) != set(b[k]):
            return diff(k + "-keys", "different splits carry %s" % k, sfx)
        for s in a[k]:
            if not close_seq(a[k][s], b[k][s]):
                return diff("split-" + k, "multiset of %s of split %s differs: %r vs %r" % (k, bin(s), a[k][s][:8], b[k][s][:8]), sfx)
    if a["n"] == 0 or light:
        return True
    ta_, tb_ = a.get("target") or {}, b.get("target") or {}
    if ta_ and tb_:
        for lab in ta_:
            va, vb = ta_[lab], tb_.get(lab, {})
            if set(va) != set(vb) or any(not close(va[k], vb[k]) for k in va):
                bad = sorted(k for k in set(va) | set(vb) if k not in va or k not in vb or not close(va[k], vb[k]))
                return diff("target-tree-summaries|%s" % (bad[0].split("_")[0] if bad else "?"),
                            "a target tree summarised directly against the collection gets other values on the edge of %s: %s" %
                            (lab, [(k, va.get(k), vb.get(k)) for k in bad[:3]]))
    if a["consensus"] != b["consensus"]:
        return diff("consensus-topology", "consensus trees differ")
    if a["consensus_rooting"] != b["consensus_rooting"]:
        return diff("consensus-rooting", "consensus rooting %r vs %r" % (a["consensus_rooting"], b["consensus_rooting"]))
    for k, clause in (("supports", "consensus-supports"), ("cons_lengths", "consensus-edge-lengths"), ("cons_ages", "consensus-node-ages")):
        if set(a[k]) != set(b[k]) or any(not close(a[k][s], b[k][s]) for s in a[k]):
            return diff(clause, "%s set on the consensus tree differ" % k)
    if not close(a["mcc_score"], b["mcc_score"]) or not close(a["msc_score"], b["msc_score"]):
        return diff("max-credibility-score", "%r vs %r (sum: %r vs %r)" % (a["mcc_score"], b["mcc_score"], a["msc_score"], b["msc_score"]))
    if not close_seq(sorted(a["scores"]), sorted(b["scores"])) or not close_seq(sorted(a["sumscores"]), sorted(b["sumscores"])):
        return diff("per-tree-scores", "multisets of per-tree scores differ")
    if a["mcct_unique_topology"] and b["mcct_unique_topology"]:
        if a["mcct"] != b["mcct"]:
            return diff("mcct-topology", "maximum credibility topology differs although the maximiser is unique")
        if set(a["mcct_supports"]) != set(b["mcct_supports"]) or any(not close(a["mcct_supports"][s], b["mcct_supports"][s]) for s in a["mcct_supports"]):
            return diff("mcct-supports", "supports on the maximum credibility tree differ")
        if a["mcct_unique_tree"] and b["mcct_unique_tree"]:
            ctx.ev("mcct-edge-lengths-compared")
            if set(a["mcct_lengths"]) != set(b["mcct_lengths"]) or any(not close(a["mcct_lengths"][s], b["mcct_lengths"][s]) for s in a["mcct_lengths"]):
                return diff("mcct-edge-lengths", "edge lengths on the maximum credibility tree differ although one tree is the maximiser")
    if a["msct_unique_topology"] and b["msct_unique_topology"] and a["msct"] != b["msct"]:
        return diff("msct-topology", "maximum sum-of-credibilities topology differs although the maximiser is unique")
    if a["topologies"] != b["topologies"] or not close_seq(a["sbsf"], b["sbsf"]) or (a["bef"] is not None and not close_seq(a["bef"], b["bef"])):
        return diff("topology-frequencies", "topology frequency tables differ")
    # ---- per-tree queries: index i of the collection under test answers for tree seq[i]
    if seq is None or "rows" not in b:
        return True
    if b.get("iter_mismatch"):
        return pdiff("iteration-vs-accessor", "iterating the collection and get_split_bitmask_and_edge_tuple(i) disagree")
    for name, sc, mx in (("argmax", b["scores"], b["mcc_score"]), ("argmax_sum", b["sumscores"], b["msc_score"])):
        i = b[name]
        if i is None or not (0 <= i < len(sc)) or not close(sc[i], mx):
            return pdiff("argmax-index-not-a-maximiser", "%s = %r but scores[%r] is not the highest score" % (name, i, i))
    if b["mcct"] != b["rows"][b["argmax"]][1]:
        return pdiff("mcct-is-not-the-tree-at-argmax", "the maximum credibility tree is not the tree stored at the arg-max index")
    for i, j in enumerate(seq):
        ctx.ev("per-tree-row-compared")
        (pa, ta_, la), (pb, tb, lb) = a["rows"][bpos[j]], b["rows"][i]
        if [p[0] for p in pa] != [p[0] for p in pb]:
            return pdiff("splits-row", "index %d should hold tree #%d: other splits stored there" % (i, j))
        if not all(close(x[1], y[1]) for x, y in zip(pa, pb)):
            return pdiff("edge-lengths-row", "index %d should hold tree #%d: its splits are there with other edge lengths: %r vs %r" % (
                i, j, [p[1] for p in pa][:8], [p[1] for p in pb][:8]))
        if ta_ != tb:
            return pdiff("restored-topology", "restore_tree(%d) is not the topology of tree #%d" % (i, j))
        if set(la) != set(lb) or any(not close(la[s], lb[s]) for s in la):
            return pdiff("restored-edge-lengths", "restore_tree(%d) carries other lengths than the same tree restored from the serial collection" % i)
        if not close(a["scores"][bpos[j]], b["scores"][i]) or not close(a["sumscores"][bpos[j]], b["sumscores"][i]):
            return pdiff("score-row", "score at index %d is not the score of tree #%d" % (i, j))
        if spec_tops is not None and spec_tops[j] is not None:
            if ta_ == spec_tops[j]:
                ctx.ev("restored-topology-compared-with-source-spec")
                if tb != spec_tops[j]:
                    return pdiff("restored-topology-vs-source", "restore_tree(%d) is not the topology of the source tree" % i)
            else:
                ctx.note("serial-restore_tree-differs-from-source-tree(C05)")
    return True


def warm(ctx, ta, q, rng, where, det):
    """queries whose results are thrown away: they only leave caches behind (must not raise)."""
    ctx.ev("warm-query")
    try:
        sd = ta.split_distribution
        sd.split_frequencies
        for s in list(sd.split_counts)[:2]:
            sd[s]
        if len(ta):
            kind = rng.randrange(5)
            if kind == 0:
                kw = cons_kwargs(q)
                if q["summarize"] and rng.random() < 0.5:
                    kw["support_as_percentages"] = True        # the cached decorator must not keep this
                ta.consensus_tree(**kw)
            elif kind == 1:
                ta.calculate_log_product_of_split_supports()
                ta.calculate_sum_of_split_supports()
            elif kind == 2:
                ta.maximum_product_of_split_support_tree()
            elif kind == 3:
                sd.split_edge_length_summaries
                sd.split_node_age_summaries
                ta.topologies()
            else:
                ta.restore_tree(rng.randrange(len(ta)), summarize_splits_on_tree=True)
    except core.CaseTimeout:
        raise
    except Exception as e:
        ctx.violation("%s|query-fails-after-merge|%s" % (where, core.exc_key(e)), "query between two arrivals failed: %s" % core.exc_brief(e), det)
        return False
    return True


# ------------------------------------------------------------------------------------------------ monitors
def install_monitors(ctx, hooks, mon):
    """alignment of the four per-tree lists (the state the property anchors), size additivity, '+' returns a new
    collection.  mon["lost"] collects constructor settings a '+' result does not carry over (diagnosis only: it
    gives the violation that the lost setting causes its own key, it is never a violation by itself)."""
    import dendropy

    def check(ta, tag, det=None):
        ctx.ev("alignment-invariant-checked")
        n = len(ta._tree_split_bitmasks)
        lens = (len(ta._tree_edge_lengths), len(ta._tree_leafset_bitmasks), len(ta._tree_weights))
        if any(x != n for x in lens):
            ctx.violation("%s|per-tree-lists-misaligned" % tag,
                          "split/edge-length/leafset/weight lists have lengths %s" % ((n,) + lens,), det)
            return False
        sd = ta._split_distribution
        if sd.total_trees_counted != n:
            ctx.violation("%s|total_trees_counted-wrong" % tag, "total_trees_counted=%r for %d trees" % (sd.total_trees_counted, n), det)
        if not close(sd.sum_of_tree_weights, sum(ta._tree_weights)):
            ctx.violation("%s|sum_of_tree_weights-wrong" % tag, "sum_of_tree_weights=%r, weights sum to %r" % (sd.sum_of_tree_weights, sum(ta._tree_weights)), det)
        return True

    def rows(ta, lo=0, hi=None):
        return list(zip(ta._tree_split_bitmasks[lo:hi], ta._tree_edge_lengths[lo:hi], ta._tree_leafset_bitmasks[lo:hi], ta._tree_weights[lo:hi]))

    def mk(tag):
        def pre(ta, args, kw):
            other = args[0] if args else kw.get("other", kw.get("tree_array"))
            isarr = isinstance(other, dendropy.TreeArray)
            return {"len": len(ta), "rooting": ta._is_rooted_trees, "olen": len(other) if isarr else None,
                    "orooting": getattr(other, "_is_rooted_trees", None), "other": other if isarr else None,
                    "rows": rows(ta) if isarr else None, "orows": rows(other) if isarr else None}

        def post(snap, ta, args, kw, result, exc):
            det = {"op": tag, "before": dict((k, snap[k]) for k in ("len", "rooting", "olen", "orooting"))}
            if exc is not None or snap["olen"] is None:
                return
            if snap["olen"] == 0 and snap["len"] > 0:
                ctx.ev("empty-after-nonempty-merge")
            if tag == "TreeArray.__add__":
                ctx.ev("plus-result-identity-checked")
                if result is ta or result is snap["other"]:
                    ctx.violation("%s|result-is-one-of-its-operands" % tag, "'+' is documented to create and return a new TreeArray; it returned its %s operand (%d + %d trees)" % (
                        "left" if result is ta else "right", snap["len"], snap["olen"]), det)
                    return
                sdl, sdr = ta._split_distribution, result._split_distribution
                for name in ("is_force_max_age", "taxon_label_age_map", "ultrametricity_precision"):
                    if (getattr(sdl, name, None) or None) != (getattr(sdr, name, None) or None):
                        mon["lost"].add(name)
                        ctx.note("plus-result-does-not-carry-setting:%s" % name)
            target = result if tag == "TreeArray.__add__" else ta
            if not check(target, tag, det):
                return
            if len(target) != snap["len"] + snap["olen"]:
                ctx.violation("%s|size-not-additive" % tag, "%d + %d -> %d" % (snap["len"], snap["olen"], len(target)), det)
            elif rows(target) != snap["rows"] + snap["orows"]:
                ctx.violation("%s|per-tree-lists-misaligned|rows" % tag, "after the merge the per-tree rows are not the rows of the target followed by the rows of the source", det)
        return pre, post
    for name in ("update", "extend", "__iadd__", "__add__"):
        pre, post = mk("TreeArray." + name)
        hooks.install(dendropy.TreeArray, name, pre=pre, post=post)

    def post_add(snap, ta, args, kw, result, exc):
        if exc is None and check(ta, "TreeArray.add_tree"):
            ctx.ev("add_tree-row-checked")
            try:
                index, splits, edge_lengths, weight = result
                row = (ta._tree_split_bitmasks[index], ta._tree_edge_lengths[index], ta._tree_weights[index])
            except Exception:
                ctx.note("add_tree-result-not-(index,splits,lengths,weight)")
                return
            if row != (splits, edge_lengths, weight):
                ctx.violation("TreeArray.add_tree|per-tree-lists-misaligned|row-at-returned-index",
                              "add_tree reports the tree at index %d, the per-tree lists hold other data there" % index, {"index": index, "len": len(ta)})
    hooks.install(dendropy.TreeArray, "add_tree", post=post_add)


# ------------------------------------------------------------------------------------------------ collections
def array_kwargs(rooted, explicit, cfg):
    kw = dict(is_rooted_trees=(rooted if explicit else None), ignore_edge_lengths=cfg["ignore_edge_lengths"],
              ignore_node_ages=cfg["ignore_node_ages"], use_tree_weights=cfg["use_tree_weights"])
    if cfg["is_force_max_age"]:
        kw["is_force_max_age"] = True
    if cfg["taxon_label_age_map"]:
        kw["taxon_label_age_map"] = cfg["taxon_label_age_map"]
    if cfg["ultrametricity_precision"] != "default":
        kw["ultrametricity_precision"] = cfg["ultrametricity_precision"]
    return kw


def new_array(ns, rooted, explicit, cfg):
    import dendropy
    return dendropy.TreeArray(taxon_namespace=ns, **array_kwargs(rooted, explicit, cfg))


def public_state(ta):
    sd = ta.split_distribution
    return (len(ta), dict(sd.split_counts), dict((s, sorted(v)) for s, v in sd.split_edge_lengths.items() if v),
            dict((s, sorted(v)) for s, v in sd.split_node_ages.items() if v))


class Env(object):
    pass


def build_part(env, idxs, explicit, rng):
    """one sub-collection through a randomly chosen construction route -> (TreeArray, expected sequence, route)"""
    import dendropy
    route = rng.choice(ROUTES)
    if route == "read" and (env.partial or env.wmode == "none-some"):
        route = "add_tree"
    trees, ns, rooted, cfg = env.trees, env.ns, env.rooted, env.cfg
    seq = []
    if route in ("from_tree_list", "as_tree_array"):
        tl = dendropy.TreeList(taxon_namespace=ns)
        for j in idxs:
            tl.append(trees[j])
        kw = array_kwargs(rooted, explicit, cfg)
        ta = dendropy.TreeArray.from_tree_list(tl, **kw) if route == "from_tree_list" else tl.as_tree_array(**kw)
        return ta, list(idxs), route
    ta = new_array(ns, rooted, explicit, cfg)
    if route == "add_trees":
        ta.add_trees([trees[j] for j in idxs])
        seq = list(idxs)
    elif route == "read":
        text = "".join("%s%s %s;\n" % ("[&W %r] " % float(env.weights[j]) if env.weights[j] is not None else "", "[&R]" if rooted else "[&U]",
                                      newick_of(env.specs[j])) for j in idxs)
        if text:
            ta.read(data=text, schema="newick", store_tree_weights=True)
        seq = list(idxs)
    else:
        for j in idxs:
            if route == "insert":
                pos = rng.randint(0, len(ta))
                ta.insert(pos, trees[j])
                seq.insert(pos, j)
            elif route == "append":
                ta.append(trees[j])
                seq.append(j)
            elif route == "bipartitions-updated":
                ta.add_tree(trees[j], is_bipartitions_updated=True)     # encoded when the serial collection was built
                seq.append(j)
            else:
                ta.add_tree(trees[j])
                seq.append(j)
    return ta, seq, route


def tree_op(env, master, mseq, j, rng, log):
    t = env.trees[j]
    r = rng.random()
    if r < 0.35:
        pos = rng.randint(0, len(master))
        log.append("insert(%d, #%d)" % (pos, j))
        master.insert(pos, t)
        mseq.insert(pos, j)
        return
    if r < 0.55:
        log.append("append(#%d)" % j)
        master.append(t)
    elif r < 0.8:
        log.append("add_tree(#%d)" % j)
        master.add_tree(t)
    elif r < 0.9:
        log.append("add_trees([#%d])" % j)
        master.add_trees([t])
    else:
        log.append("add_tree(#%d, is_bipartitions_updated=True)" % j)
        master.add_tree(t, is_bipartitions_updated=True)
    mseq.append(j)


def draw_config(rng, quick):
    rooted = rng.random() < 0.5
    age_mode = rng.choice(["off", "off", "ultra", "ultra", "forcemax", "tipdates", "noprec"]) if rooted else "off"
    cfg = {"ignore_edge_lengths": rng.random() < 0.2, "ignore_node_ages": age_mode == "off", "use_tree_weights": rng.random() < 0.7,
           "age_mode": age_mode, "is_force_max_age": age_mode == "forcemax", "taxon_label_age_map": None,
           "ultrametricity_precision": rng.choice([False, -1]) if age_mode in ("tipdates", "noprec") else "default"}
    return rooted, cfg


def run_library(ctx, case, rng):
    import dendropy
    quick = ctx.tier == "quick"
    style = case["style"]
    ntax = rng.choice([3, 4, 4, 5, 5, 6, 6, 8]) if quick else rng.choice([3, 4, 6, 9, 14, 20])
    ntrees = rng.choice([0, 1, 2, 3, 5, 8, 12, 20]) if quick else rng.choice([0, 1, 2, 4, 9, 20, 45, 80])
    rooted, cfg = draw_config(rng, quick)
    ages = cfg["age_mode"]
    partial = ages == "off" and ntax >= 5 and rng.random() < 0.12
    if ages == "off":
        patterns = rng.choice([("dyadic", "ints", "unit"), ("dyadic", "ints", "unit"), ("none",), ("mixed_missing", "zeros", "dyadic")])
    else:
        patterns = ("dyadic", "ints", "unit")
    labels = [gen.tname(i) for i in range(ntax)]
    specs = sample_specs(rng, ntax, ntrees, ages == "ultra", lengths=patterns, names=labels, partial=partial)
    if ages == "tipdates":
        cfg["taxon_label_age_map"] = dict((l, rng.choice([0.25, 0.5, 1.0, 2.0])) for l in labels if rng.random() < 0.6) or {labels[0]: 0.5}
    ns = dendropy.TaxonNamespace(labels)
    wmode = rng.choice(["none", "equal", "random", "dominant", "zero-some", "all-zero", "none-some"])
    env = Env()
    env.specs, env.ns, env.rooted, env.cfg, env.partial, env.wmode = specs, ns, rooted, cfg, partial, wmode
    env.trees, env.weights = [], []
    for i, s in enumerate(specs):
        t = bridge.build_tree(s, ns, rooted)
        w = None
        if wmode == "equal":
            w = 2.0
        elif wmode == "random":
            w = rng.randint(1, 8) / 4.0
        elif wmode == "dominant":
            w = 50.0 if i == 0 else 0.5
        elif wmode == "zero-some":
            w = rng.choice([0.0, 1.0, 0.5])
        elif wmode == "all-zero":
            w = 0.0
        elif wmode == "none-some":
            w = rng.choice([None, 2.0])
        if w is not None:
            t.weight = w
        env.trees.append(t)
        env.weights.append(w)
    trees = env.trees
    # query vector of the case (the same for the baseline and for every collection judged)
    q = {"min_freq": rng.choice(MIN_FREQS), "summarize": rng.random() < 0.85, "edges": None, "mcct_edges": None, "full_leaf_sets": not partial}
    have_lengths = not cfg["ignore_edge_lengths"]
    if q["summarize"]:
        choices = [None, "support", "keep", "clear"] + (["mean-length", "median-length"] if have_lengths else []) + (["mean-age", "median-age"] if ages != "off" else [])
        q["edges"] = rng.choice(choices)
        q["mcct_edges"] = rng.choice([None, "keep"] + (["median-length"] if have_lengths else []))
    spec_tops = [None if (partial and len(ref.leaf_taxa(s)) != ntax) else ref.topology(s, rooted) for s in specs]
    det = {"ntax": ntax, "ntrees": ntrees, "rooted": rooted, "cfg": dict(cfg), "weights": wmode, "style": style, "lengths": patterns,
           "differing_leaf_sets": partial, "queries": dict(q, min_freq=repr(q["min_freq"]))}
    mon = {"lost": set()}
    with Hooks(ctx) as hooks:
        install_monitors(ctx, hooks, mon)
        baselines = {}

        def baseline(seq):
            """serial collection of the multiset of trees in seq (built by add_tree in index order) -> (summary, pos)"""
            key = tuple(sorted(seq))
            if key not in baselines:
                ser = new_array(ns, rooted, True, cfg)
                for j in key:
                    ser.add_tree(trees[j])
                pos = {}
                for p, j in enumerate(key):
                    pos.setdefault(j, p)
                baselines[key] = (summary(ctx, ser, q, "serial", det), pos)
            return baselines[key]
        base, _ = baseline(range(ntrees))
        if base is None:
            return
        # ---- partition: parts built ONCE and re-used by every history: merging must not consume or change its source
        if style == "insert":
            k, late_n = 0, ntrees
        else:
            k = rng.randint(1, 6)
            late_n = rng.choice([0, 0, 1, 2, 3]) if ntrees else 0
            late_n = min(late_n, ntrees)
        order_all = list(range(ntrees))
        rng.shuffle(order_all)
        late = order_all[:late_n]
        early = sorted(order_all[late_n:])
        force_empty = rng.random() < 0.5 and k >= 2
        assign = dict((j, rng.randrange(k - 1 if force_empty else k)) for j in early) if k else {}
        explicit = [rng.random() < 0.5 for _ in range(k)]
        parts = []
        for p in range(k):
            ta, seq, route = build_part(env, [j for j in early if assign[j] == p], explicit[p], rng)
            ctx.ev("part-built:%s" % route)
            parts.append((ta, seq))
        sizes = [len(s) for _, s in parts]
        before_parts = [public_state(p) for p, _ in parts]
        for (p, s), st in zip(parts, before_parts):
            if st[0] != len(s):
                ctx.violation("%s|summary-differs|tree-count" % style, "a sub-collection built from %d trees holds %d" % (len(s), st[0]), det)
                return
        if k <= 3:
            orders = list(itertools.permutations(range(k)))
            if len(orders) > 3 and quick:
                orders = rng.sample(orders, 3)
        else:
            orders = [tuple(rng.sample(range(k), k)) for _ in range(3 if quick else 4)]
        if style == "insert":
            orders = [()]
        for order in orders:
            mon["lost"] = set()
            master_explicit = rng.random() < 0.5
            master = new_array(ns, rooted, master_explicit, cfg)
            mseq = []
            log = []
            pending = list(order)
            if style == "mixed" and pending and rng.random() < 0.15:
                pending.insert(rng.randint(0, len(pending)), rng.choice(pending))     # a partial result that arrives twice
                ctx.ev("part-merged-twice")
            late_left = list(late)
            rng.shuffle(late_left)
            ops_used = set()
            flags = set()
            d2 = dict(det, part_sizes=[sizes[j] for j in order], explicit_rooting=[explicit[j] for j in order],
                      master_explicit_rooting=master_explicit, history=log)
            failed = False
            merged_any = False
            while pending and not failed:
                j = pending.pop(0)
                operand, oseq = parts[j]
                oname = "part%d[%d]" % (j, len(oseq))
                if style in ("mixed", "add") and pending and rng.random() < 0.2:
                    j2 = pending.pop(0)
                    try:
                        operand = operand + parts[j2][0]
                    except core.CaseTimeout:
                        raise
                    except Exception as e:
                        ctx.violation("add|merge-of-compatible-collections-raises|%s" % core.exc_key(e),
                                      "part + part raised %s" % core.exc_brief(e), d2)
                        failed = True
                        break
                    oseq = oseq + parts[j2][1]
                    oname = "(part%d + part%d)[%d]" % (j, j2, len(oseq))
                    flags.add("nested")
                    ctx.ev("result-of-a-merge-merged-again")
                if rng.random() < 0.25:
                    log.append("query %s" % oname)
                    flags.add("warm")
                    if not warm(ctx, operand, q, rng, style, d2):
                        failed = True
                        break
                op = style if style != "mixed" else rng.choice(["update", "extend", "iadd", "add", "radd"])
                if op == "iadd" and style == "mixed" and operand is not master and rng.random() < 0.03 and 0 < len(master) <= 6:
                    pending.insert(0, j)
                    operand, oseq, oname = master, list(mseq), "master"      # a += a
                    ctx.ev("self-merge")
                ops_used.add(op)
                log.append("%s %s" % (op, oname))
                try:
                    if op == "update":
                        master.update(operand)
                    elif op == "extend":
                        master.extend(operand)
                    elif op == "iadd":
                        master += operand
                    elif op == "add":
                        master = master + operand
                    else:
                        master = operand + master
                        ctx.ev("part-on-the-left-of-plus")
                except core.CaseTimeout:
                    raise
                except Exception as e:
                    opn = "add" if op == "radd" else op
                    ctx.violation("%s|merge-of-compatible-collections-raises|%s" % (opn, core.exc_key(e)),
                                  "merging %s (rooting %r) into a collection of %d trees (rooting %r) raised %s" % (
                                      oname, operand._is_rooted_trees, len(master), master._is_rooted_trees, core.exc_brief(e)), d2)
                    failed = True
                    break
                mseq = (oseq + mseq) if op == "radd" else (mseq + oseq)
                merged_any = True
                if rng.random() < 0.3:
                    log.append("query master")
                    flags.add("warm")
                    if not warm(ctx, master, q, rng, style, d2):
                        failed = True
                        break
                while late_left and rng.random() < 0.4 and not failed:
                    failed = not do_tree_op(ctx, env, master, mseq, late_left.pop(), rng, log, style, d2, mon, merged_any, flags)
            while late_left and not failed:
                failed = not do_tree_op(ctx, env, master, mseq, late_left.pop(), rng, log, style, d2, mon, merged_any, flags)
                if style == "insert" and rng.random() < 0.1 and not failed:
                    log.append("query master")
                    flags.add("warm")
                    failed = not warm(ctx, master, q, rng, style, d2)
            if failed:
                continue
            b, bpos = baseline(mseq)
            if b is None:
                continue
            got = summary(ctx, master, q, style, d2)
            if got is None:
                continue
            ctx.ev("merge-compared-with-serial")
            for f in flags:
                ctx.ev("history-compared:%s" % f)
            if len(ops_used) >= 2:
                ctx.ev("history-compared:mixed-operators")
            if q["min_freq"] in (None, 0.25, 1.0 / 3) and got["n"]:
                ctx.ev("consensus-compared-below-half")
            sfx = "|after-+-dropped:%s" % "+".join(sorted(mon["lost"])) if mon["lost"] else ""
            compare(ctx, b, got, style, d2, seq=mseq, bpos=bpos, spec_tops=spec_tops, suffix=sfx)
            for j in range(k):
                ctx.ev("source-unchanged-checked")
                st = public_state(parts[j][0])
                if st != before_parts[j]:
                    ctx.violation("%s|merge-changes-its-source-collection" % style,
                                  "a sub-collection of %d trees answers differently (size / split counts / per-split lengths or ages) after it was merged into another collection" % sizes[j], d2)
                    before_parts[j] = st
            nonempty = [sizes[j] for j in order if sizes[j]]
            seen_nonempty = False
            empty_after = False
            for j in order:
                if sizes[j]:
                    seen_nonempty = True
                elif seen_nonempty:
                    empty_after = True
            if len(nonempty) >= 2 or empty_after or (style == "insert" and ntrees >= 2) or (late and nonempty):
                ctx.nontrivial((style, tuple(log), tuple(sizes[j] for j in order), tuple(explicit[j] for j in order), rooted, master_explicit, ages))
        # ---- the bare SplitDistribution route: one distribution per part (TreeList.split_distribution), merged with
        #      SplitDistribution.update in an arrival order; judged on what a distribution answers
        if k and not late and not any(p in ("none", "mixed_missing") for p in patterns) and rng.random() < 0.35:
            kw = array_kwargs(rooted, True, cfg)
            kw.pop("is_rooted_trees")
            d3 = dict(det, route="TreeList.split_distribution + SplitDistribution.update", part_sizes=sizes)
            try:
                sds = []
                for _, seq in parts:
                    tl = dendropy.TreeList(taxon_namespace=ns)
                    for j in seq:
                        tl.append(trees[j])
                    sds.append(tl.split_distribution(default_edge_length_value=0, **kw))     # TreeArray's default for a missing length
                m = dendropy.SplitDistribution(taxon_namespace=ns, **kw)
                order = rng.sample(range(k), k)
                for j in order:
                    if rng.random() < 0.3:
                        m.split_frequencies
                    m.update(sds[j])
                got = {"n": m.total_trees_counted, "counts": dict(m.split_counts), "freqs": dict((s, m[s]) for s in m.split_counts),
                       "lengths": dict((s, sorted(v)) for s, v in m.split_edge_lengths.items() if s in m.split_counts and v),
                       "ages": dict((s, sorted(v)) for s, v in m.split_node_ages.items() if s in m.split_counts and v)}
            except core.CaseTimeout:
                raise
            except Exception as e:
                ctx.violation("split-distribution|merge-of-compatible-collections-raises|%s" % core.exc_key(e),
                              "building / merging bare split distributions raised %s" % core.exc_brief(e), d3)
            else:
                ctx.ev("split-distribution-merge-compared")
                compare(ctx, base, got, "split-distribution", d3, light=True)
        if case["i"] < 2:
            ctx.sample({"kind": "library", "style": style, "ntrees": ntrees, "part_sizes": sizes, "explicit_rooting": explicit, "cfg": dict(cfg),
                        "rooted": rooted, "queries": det["queries"], "last_history": list(log) if orders else None,
                        "first_tree": ref.to_newick(specs[0]) if specs else None})


def do_tree_op(ctx, env, master, mseq, j, rng, log, style, d2, mon, after_merge, flags):
    try:
        tree_op(env, master, mseq, j, rng, log)
    except core.CaseTimeout:
        raise
    except Exception as e:
        sfx = ""
        if mon["lost"] and type(e).__name__ == "UltrametricityError":
            sfx = "|after-+-dropped:%s" % "+".join(sorted(mon["lost"]))
        ctx.violation("%s|%s|%s%s" % (style, "tree-operation-after-merge-raises" if after_merge else "tree-operation-raises", core.exc_key(e), sfx),
                      "%s on a collection of %d trees raised %s" % (log[-1], len(master), core.exc_brief(e)), d2)
        return False
    if after_merge:
        ctx.ev("tree-added-after-merge")
        flags.add("tree-added-after-merge")
    return True
