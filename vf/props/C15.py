"""C15  Every traversal visits each node or edge exactly once in its defining order.

Monitor = trace recorder: every iterator of Tree and Node is drained into a list of node/edge ids and compared
with a reference sequence computed recursively on the spec (raw child lists) of the same tree:
  pre-order (parent first, siblings left to right) . post-order (children first) . level-order (what a FIFO queue
  gives: non-decreasing depth, left-to-right inside a level) . in-order (binary trees; others must raise the
  documented TypeError) . leaves left to right . age order (a permutation of the same node set with monotone age;
  ties in any order) . ancestors . children
  filtered variants = exactly the subsequence passing the filter (filters returning True/False, truthy non-bool and
  falsy non-False values) . internal-node variants = the non-leaves, the seed (parentless node) optionally excluded .
  each edge iterator = the edges of its node counterpart in the same order . len(tree) = number of leaves .
  apply(before, after, leaf) = bracket-matched reference trace of the subtree of the start node.
Every node of every tree is used as start node for the Node.* family."""
import random

from .. import ref, gen, bridge, core

PROP = "C15"
LEVEL_TEXT = 'Every Tree.* and Node.* iterator and apply() is drained from every start node of every generated tree and compared with reference sequences computed recursively on the raw child lists, for four filter classes (none, bool, truthy non-bool, falsy non-False).'
LEVEL_NOTE = 'Trusted: the recursive reference traversals in the module (a dozen lines each).'
LEVEL = "exploration"
TECHNIQUE = "runtime monitoring: trace recorder over all Tree/Node iterators and apply(), offline comparison with reference traversal sequences"
RULE = ("tree = every shape n<=5 (+ single node, unary root/chains, wide polytomies) and random trees; x every start node x every iterator "
        "kind x filter predicate class; non-trivial = tree with >= 3 nodes; distinct = (ordered tree signature, iterator, filter class)")
REACH = ["_node:Node.preorder_iter", "_node:Node.postorder_iter", "_node:Node.levelorder_iter", "_node:Node.inorder_iter",
         "_node:Node.leaf_iter", "_node:Node.ageorder_iter", "_node:Node.ancestor_iter", "_node:Node.preorder_internal_node_iter",
         "_node:Node.postorder_internal_node_iter", "_node:Node.apply", "_tree:Tree.preorder_edge_iter", "_tree:Tree.postorder_edge_iter",
         "_tree:Tree.preorder_internal_edge_iter", "_tree:Tree.postorder_internal_edge_iter", "_tree:Tree.levelorder_edge_iter",
         "_tree:Tree.leaf_edge_iter", "_tree:Tree.inorder_edge_iter", "_tree:Tree.__len__", "_tree:Tree.apply",
         "_node:Node.child_node_iter", "_tree:Tree.ageorder_node_iter"]
MIN_EVENTS = {"trace-compared": (20000, 500000), "apply-trace-compared": (2000, 50000), "inorder-typeerror-seen": (50, 500)}
ASSUMPTIONS = ["reference sequences are computed on the spec extracted from the raw child lists (vf.bridge.extract)"]


# ---- reference traversals on spec nodes -----------------------------------------------------------
def r_pre(s):
    out = [s]
    for c in s[3]:
        out += r_pre(c)
    return out


def r_post(s):
    out = []
    for c in s[3]:
        out += r_post(c)
    return out + [s]


def r_level(s):
    out, q = [], [s]
    while q:
        n = q.pop(0)
        out.append(n)
        q.extend(n[3])
    return out


def r_in(s):
    if not s[3]:
        return [s]
    if len(s[3]) != 2:
        raise TypeError
    return r_in(s[3][0]) + [s] + r_in(s[3][1])


def r_apply(s):
    if not s[3]:
        return [("l", id(s))]
    out = [("b", id(s))]
    for c in s[3]:
        out += r_apply(c)
    return out + [("a", id(s))]


FILTERS = ("none", "bool", "truthy", "falsy")


def make_filter(kind, marks):
    """marks: set of ids (of live objects) that pass."""
    if kind == "none":
        return None
    if kind == "bool":
        return lambda x: id(x) in marks
    if kind == "truthy":
        return lambda x: ("yes", 1) if id(x) in marks else False
    return lambda x: 1 if id(x) in marks else random.choice([0, "", None, []])


class Checker(object):
    def __init__(self, ctx, tree, detail):
        self.ctx = ctx
        self.tree = tree
        self.spec, pairs = bridge.extract(tree, with_nodes=True)
        self.s2n = dict((id(s), nd) for s, nd in pairs)
        self.n2s = dict((id(nd), s) for s, nd in pairs)
        self.pm = ref.parent_map(self.spec)
        self.detail = detail
        self.newick = ref.to_newick(self.spec)

    def live(self, seq):
        return [id(self.s2n[id(s)]) for s in seq]

    def names(self, ids, edges=False):
        pre = r_pre(self.spec)
        idx = {}
        for i, s in enumerate(pre):
            nd = self.s2n[id(s)]
            idx[id(nd._edge if edges else nd)] = i
        return [idx.get(i, "?") for i in ids]

    def compare(self, what, got_iter, want_ids, filt, edges=False, start=None):
        ctx = self.ctx
        try:
            got = [id(x) for x in got_iter]
        except core.CaseTimeout:
            raise
        except Exception as e:
            ctx.unexpected(what, e, {"tree": self.newick, "filter": filt, "start": start})
            return
        ctx.ev("trace-compared")
        if got != want_ids:
            if sorted(got) == sorted(want_ids):
                clause = "wrong-order"
            elif len(set(got)) != len(got):
                clause = "visits-twice"
            elif set(got) - set(want_ids):
                clause = "visits-extra"
            else:
                clause = "misses"
            ctx.violation("%s|%s|filter=%s" % (what, clause, filt),
                          "visited (pre-order indices) %s, reference %s" % (self.names(got, edges), self.names(want_ids, edges)),
                          {"tree": self.newick, "start": start, "filter": filt})

    # ------------------------------------------------------------------
    def run(self, rng, all_starts=True):
        tree = self.tree
        ctx = self.ctx
        spec = self.spec
        pre = r_pre(spec)
        node_of = lambda s: self.s2n[id(s)]
        edge_id = lambda s: id(node_of(s)._edge)
        nid = lambda s: id(node_of(s))
        marks_n = set(nid(s) for s in pre if rng.random() < 0.5)
        marks_e = set(edge_id(s) for s in pre if rng.random() < 0.5)
        is_seed = lambda s: self.pm[id(s)] is None
        binary = True
        try:
            inorder = r_in(spec)
        except TypeError:
            binary = False
        for filt in FILTERS:
            fn = make_filter(filt, marks_n)
            fe = make_filter(filt, marks_e)
            okn = (lambda s: True) if filt == "none" else (lambda s: nid(s) in marks_n)
            oke = (lambda s: True) if filt == "none" else (lambda s: edge_id(s) in marks_e)
            T = "Tree."
            self.compare(T + "preorder_node_iter", tree.preorder_node_iter(fn), [nid(s) for s in pre if okn(s)], filt)
            self.compare(T + "postorder_node_iter", tree.postorder_node_iter(fn), [nid(s) for s in r_post(spec) if okn(s)], filt)
            self.compare(T + "levelorder_node_iter", tree.levelorder_node_iter(fn), [nid(s) for s in r_level(spec) if okn(s)], filt)
            self.compare(T + "leaf_node_iter", tree.leaf_node_iter(fn), [nid(s) for s in pre if not s[3] and okn(s)], filt)
            self.compare(T + "nodes", tree.nodes(fn), [nid(s) for s in pre if okn(s)], filt)
            for ex in (False, True):
                keep = lambda s: s[3] and not (ex and is_seed(s))
                self.compare(T + "preorder_internal_node_iter", tree.preorder_internal_node_iter(fn, exclude_seed_node=ex),
                             [nid(s) for s in pre if keep(s) and okn(s)], filt + (",exclude_seed" if ex else ""))
                self.compare(T + "postorder_internal_node_iter", tree.postorder_internal_node_iter(fn, exclude_seed_node=ex),
                             [nid(s) for s in r_post(spec) if keep(s) and okn(s)], filt + (",exclude_seed" if ex else ""))
                self.compare(T + "preorder_internal_edge_iter", tree.preorder_internal_edge_iter(fe, exclude_seed_edge=ex),
                             [edge_id(s) for s in pre if keep(s) and oke(s)], filt + (",exclude_seed" if ex else ""), edges=True)
                self.compare(T + "postorder_internal_edge_iter", tree.postorder_internal_edge_iter(fe, exclude_seed_edge=ex),
                             [edge_id(s) for s in r_post(spec) if keep(s) and oke(s)], filt + (",exclude_seed" if ex else ""), edges=True)
            self.compare(T + "preorder_edge_iter", tree.preorder_edge_iter(fe), [edge_id(s) for s in pre if oke(s)], filt, edges=True)
            self.compare(T + "postorder_edge_iter", tree.postorder_edge_iter(fe), [edge_id(s) for s in r_post(spec) if oke(s)], filt, edges=True)
            self.compare(T + "levelorder_edge_iter", tree.levelorder_edge_iter(fe), [edge_id(s) for s in r_level(spec) if oke(s)], filt, edges=True)
            self.compare(T + "leaf_edge_iter", tree.leaf_edge_iter(fe), [edge_id(s) for s in pre if not s[3] and oke(s)], filt, edges=True)
            self.compare(T + "edges", tree.edges(fe), [edge_id(s) for s in pre if oke(s)], filt, edges=True)
            if binary:
                self.compare(T + "inorder_node_iter", tree.inorder_node_iter(fn), [nid(s) for s in inorder if okn(s)], filt)
                self.compare(T + "inorder_edge_iter", tree.inorder_edge_iter(fe), [edge_id(s) for s in inorder if oke(s)], filt, edges=True)
        self.compare("Tree.__iter__", iter(tree), [nid(s) for s in pre], "none")
        self.compare("Tree.leaf_nodes", tree.leaf_nodes(), [nid(s) for s in pre if not s[3]], "none")
        self.compare("Tree.leaf_edges", tree.leaf_edges(), [edge_id(s) for s in pre if not s[3]], "none", edges=True)
        for ex in (False, True):
            self.compare("Tree.internal_nodes", tree.internal_nodes(exclude_seed_node=ex),
                         [nid(s) for s in pre if s[3] and not (ex and is_seed(s))], "none" + (",exclude_seed" if ex else ""))
            self.compare("Tree.internal_edges", tree.internal_edges(exclude_seed_edge=ex),
                         [edge_id(s) for s in pre if s[3] and not (ex and is_seed(s))], "none" + (",exclude_seed" if ex else ""), edges=True)
        if not binary:
            try:
                list(tree.inorder_node_iter())
                ctx.violation("Tree.inorder_node_iter|no-TypeError-on-non-binary-tree", "in-order on a non-binary tree did not raise", {"tree": self.newick})
            except TypeError:
                ctx.ev("inorder-typeerror-seen")
            except Exception as e:
                ctx.unexpected("Tree.inorder_node_iter", e, {"tree": self.newick})
        ctx.ev("trace-compared")
        nl = sum(1 for s in pre if not s[3])
        if len(tree) != nl:
            ctx.violation("Tree.__len__|not-the-number-of-leaves", "len(tree)=%d, %d leaves" % (len(tree), nl), {"tree": self.newick})
        # ---- age order: ages assigned by the harness (arbitrary, with ties)
        ages = {}
        for s in pre:
            node_of(s).age = ages[nid(s)] = rng.choice([0, 0, 1, 2.5, 3, 7])
        for incl in (True, False):
            for desc in (False, True):
                for filt in ("none", "bool"):
                    fn = make_filter(filt, marks_n)
                    want = set(nid(s) for s in pre if (incl or s[3]) and (filt == "none" or nid(s) in marks_n))
                    self.check_age("Tree.ageorder_node_iter", tree.ageorder_node_iter(include_leaves=incl, filter_fn=fn, descending=desc),
                                   want, ages, desc, "%s,leaves=%s,desc=%s" % (filt, incl, desc))
        # ---- Tree.apply
        self.check_apply("Tree.apply", tree, spec)
        # ---- Node family from every start node
        starts = pre if all_starts else rng.sample(pre, min(len(pre), 6))
        for st in starts:
            nd = node_of(st)
            sub = r_pre(st)
            k = pre.index(st)
            for filt in ("none", "bool", "falsy"):
                fn = make_filter(filt, marks_n)
                okn = (lambda s: True) if filt == "none" else (lambda s: nid(s) in marks_n)
                N = "Node."
                self.compare(N + "preorder_iter", nd.preorder_iter(fn), [nid(s) for s in sub if okn(s)], filt, start=k)
                self.compare(N + "postorder_iter", nd.postorder_iter(fn), [nid(s) for s in r_post(st) if okn(s)], filt, start=k)
                self.compare(N + "levelorder_iter", nd.levelorder_iter(fn), [nid(s) for s in r_level(st) if okn(s)], filt, start=k)
                self.compare(N + "leaf_iter", nd.leaf_iter(fn), [nid(s) for s in sub if not s[3] and okn(s)], filt, start=k)
                self.compare(N + "child_node_iter", nd.child_node_iter(fn), [nid(s) for s in st[3] if okn(s)], filt, start=k)
                for ex in (False, True):
                    keep = lambda s: s[3] and not (ex and is_seed(s))
                    self.compare(N + "preorder_internal_node_iter", nd.preorder_internal_node_iter(fn, exclude_seed_node=ex),
                                 [nid(s) for s in sub if keep(s) and okn(s)], filt + (",exclude_seed" if ex else ""), start=k)
                    self.compare(N + "postorder_internal_node_iter", nd.postorder_internal_node_iter(fn, exclude_seed_node=ex),
                                 [nid(s) for s in r_post(st) if keep(s) and okn(s)], filt + (",exclude_seed" if ex else ""), start=k)
                anc = []
                p = self.pm[id(st)]
                while p is not None:
                    anc.append(p)
                    p = self.pm[id(p)]
                for incl in (False, True):
                    seq = ([st] if incl else []) + anc
                    self.compare(N + "ancestor_iter", nd.ancestor_iter(fn, inclusive=incl), [nid(s) for s in seq if okn(s)],
                                 filt + (",inclusive" if incl else ""), start=k)
                try:
                    want = [nid(s) for s in r_in(st) if okn(s)]
                except TypeError:
                    want = None
                if want is not None:
                    self.compare(N + "inorder_iter", nd.inorder_iter(fn), want, filt, start=k)
            self.compare("Node.__iter__", iter(nd), [nid(s) for s in sub], "none", start=k)
            self.compare("Node.leaf_nodes", nd.leaf_nodes(), [nid(s) for s in sub if not s[3]], "none", start=k)
            self.compare("Node.child_nodes", nd.child_nodes(), [nid(s) for s in st[3]], "none", start=k)
            self.compare("Node.child_edge_iter", nd.child_edge_iter(), [edge_id(s) for s in st[3]], "none", edges=True, start=k)
            self.check_age("Node.ageorder_iter", nd.ageorder_iter(), set(nid(s) for s in sub), ages, False, "none", start=k)
            self.check_apply("Node.apply", nd, st, start=k)

    def check_age(self, what, it, want_set, ages, desc, filt, start=None):
        ctx = self.ctx
        try:
            got = [id(x) for x in it]
        except core.CaseTimeout:
            raise
        except Exception as e:
            ctx.unexpected(what, e, {"tree": self.newick, "filter": filt})
            return
        ctx.ev("trace-compared")
        if len(got) != len(set(got)) or set(got) != want_set:
            ctx.violation("%s|not-a-permutation-of-the-node-set" % what, "visited %s" % self.names(got),
                          {"tree": self.newick, "filter": filt, "start": start})
            return
        seq = [ages[i] for i in got]
        mono = all(a >= b for a, b in zip(seq, seq[1:])) if desc else all(a <= b for a, b in zip(seq, seq[1:]))
        if not mono:
            ctx.violation("%s|ages-not-monotone" % what, "ages visited %s (descending=%s)" % (seq, desc),
                          {"tree": self.newick, "filter": filt, "start": start})

    def check_apply(self, what, obj, st, start=None):
        ctx = self.ctx
        trace = []
        try:
            obj.apply(before_fn=lambda n: trace.append(("b", id(n))), after_fn=lambda n: trace.append(("a", id(n))),
                      leaf_fn=lambda n: trace.append(("l", id(n))))
        except core.CaseTimeout:
            raise
        except Exception as e:
            ctx.unexpected(what, e, {"tree": self.newick, "start": start})
            return
        ctx.ev("apply-trace-compared")
        want = [(k, id(self.s2n[i])) for k, i in r_apply(st)]
        if trace != want:
            names = dict((id(self.s2n[id(s)]), i) for i, s in enumerate(r_pre(self.spec)))
            fmt = lambda tr: " ".join("%s:%s" % (k, names.get(i, "?")) for k, i in tr)
            outside = [1 for k, i in trace if i not in set(i2 for _, i2 in want)]
            clause = "callbacks-outside-the-subtree" if outside else "not-bracket-matched"
            ctx.violation("%s|%s" % (what, clause), "trace %s ; reference %s" % (fmt(trace), fmt(want)),
                          {"tree": self.newick, "start": start})
        # partial callbacks (some None) must give the matching sub-trace
        tr2 = []
        try:
            obj.apply(before_fn=None, after_fn=lambda n: tr2.append(("a", id(n))), leaf_fn=None)
            if tr2 != [x for x in want if x[0] == "a"]:
                ctx.violation("%s|after-only-trace-wrong" % what, "after-callbacks differ from the reference", {"tree": self.newick, "start": start})
        except Exception as e:
            ctx.unexpected(what, e, {"tree": self.newick, "start": start})


EXTRA_SHAPES = [
    ref.S("A"),                                                             # single node
    ref.S(None, [ref.S("A")]),                                              # unary root over a leaf
    ref.S(None, [ref.S(None, [ref.S("A"), ref.S("B")])]),                   # unary root
    ref.S(None, [ref.S(None, [ref.S(None, [ref.S("A")])]), ref.S("B")]),    # unary chain
    ref.S(None, [ref.S("T%d" % i) for i in range(9)]),                      # wide polytomy
    ref.S(None, [ref.S(None, [ref.S("T%d" % i) for i in range(5)]), ref.S(None, [ref.S("U%d" % i) for i in range(6)]), ref.S("V")]),
    ref.S(None, [ref.S("A"), ref.S(None, [ref.S("B"), ref.S(None, [ref.S("C"), ref.S("D")])])]),   # witness of apply() at a last child
]


def cases(tier, seed):
    for i in range(len(EXTRA_SHAPES)):
        yield {"kind": "extra", "i": i, "seed": seed}
    for n in range(1, 6):
        for idx in range(len(gen.all_shapes(n))):
            if tier == "quick" and n == 5 and (idx + seed) % 3:
                continue
            yield {"kind": "shape", "n": n, "idx": idx, "seed": seed}
    for i in range(4000 if tier == "quick" else 20000):
        yield {"kind": "random", "i": i, "seed": seed}


def run_case(case, ctx):
    import dendropy
    rng = random.Random("%s/%s" % (case["seed"], sorted((k, str(v)) for k, v in case.items())))
    all_starts = True
    if case["kind"] == "extra":
        spec = ref.copy(EXTRA_SHAPES[case["i"]])
    elif case["kind"] == "shape":
        spec = gen.shape_to_spec(gen.all_shapes(case["n"])[case["idx"]])
        if rng.random() < 0.3:
            spec = gen.insert_unary(spec, rng, 0.3)
        spec = gen.shuffle_children(spec, rng)
    else:
        n = rng.choice([2, 6, 12, 25, 40]) if ctx.tier == "quick" else rng.choice([2, 8, 20, 60, 150, 300])
        spec = gen.random_spec(rng, n, p_poly=rng.choice([0, 0, 0.3, 0.7]), p_unary=rng.choice([0, 0.1, 0.3]),
                               shape=rng.choice([None, None, None, "caterpillar", "star", "balanced"]))
        all_starts = n <= 40
    if rng.random() < 0.3:
        # taxa on internal nodes as well (len(tree) must still count leaves only)
        for k, n in enumerate(ref.preorder(spec)):
            if n[3] and rng.random() < 0.6:
                n[0] = "I%d" % k
    labels = sorted(n[0] for n in ref.preorder(spec) if n[0] is not None)
    ns = dendropy.TaxonNamespace(labels)
    tree = bridge.build_tree(spec, ns, rng.choice([True, False]))
    ch = Checker(ctx, tree, case)
    ch.run(rng, all_starts)
    if ref.n_nodes(spec) >= 3:
        for it in ("pre", "post", "level", "in", "leaf", "age", "internal", "edge", "apply"):
            for f in FILTERS:
                ctx.nontrivial((ref.ordered(spec, lengths=False), it, f))
    if case["kind"] == "extra" or case.get("i", 9) < 2 and case["kind"] == "random":
        ctx.sample({"kind": case["kind"], "tree": ref.to_newick(spec), "iterators": "all Tree.* and Node.* iterators from every start node",
                    "filters": list(FILTERS)})
