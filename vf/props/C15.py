"""C15  Every traversal visits each node or edge exactly once in its defining order.

Monitor = trace recorder: every iterator of Tree and Node (canonical names AND their deprecated aliases) is drained
into a list of node/edge ids and compared with a reference sequence computed ITERATIVELY on the raw child lists of the
same tree (index model in _c15_util.Model; cross-checked once per process against the recursive definitions):
  pre-order (parent first, siblings left to right) . post-order (children first) . level-order (same node set,
  depth never decreases; the left-to-right FIFO order inside a level is recorded, not judged) . in-order (binary
  trees; others must raise the documented TypeError) . leaves left to right . age order (a permutation of the same
  node set with monotone age; ties in any order) . ancestors . children
  filtered variants = exactly the subsequence passing the filter (five predicate classes: none, True/False, truthy
  non-bool, falsy non-False values, and predicate OBJECTS that are themselves falsy) . internal-node variants = the
  non-leaves, the seed (parentless node) optionally excluded . each edge iterator = the edges of its node counterpart
  in the same order . len(tree) = number of leaves . apply(before, after, leaf) = bracket-matched reference trace of
  the subtree of the start node, for every non-empty subset of the three callbacks.
Tree histories: built through the node API; ages assigned by the harness, or never assigned on an exactly ultrametric
tree (the lazy calc_node_ages route); trees edited through the library's mutators / cloned / re-read from Newick before
(and between) the traversals; three directed shapes deeper than the recursion limit.
Every drain is capped (n+1 items) and, for a fixed part of the cases and for every case once anything ran away, runs
under a logical step budget (vf.mon.budget) so that a non-terminating iterator is a violation of 'exactly once'."""
import itertools
import random

from .. import ref, gen, bridge, core
from ..mon import budget as _budget, arbor
from . import _c15_util as U

PROP = "C15"
LEVEL_TEXT = ('Every Tree.* and Node.* iterator (canonical and deprecated alias), child_edge_iter/child_edges and apply() is drained '
              'from every start node of every generated tree and compared with iterative reference sequences computed on the raw '
              'child lists, for five filter classes (none, bool, truthy non-bool, falsy non-False, falsy callable object), age order '
              'over the full include_leaves x descending x filter grid with harness-assigned and lazily computed ages, on fresh, '
              'edited, cloned and re-read trees and on three shapes deeper than the recursion limit; drains are capped and step-budgeted.')
LEVEL_NOTE = 'Trusted: the iterative reference traversals in _c15_util.Model (a dozen lines each; cross-checked against the recursive definitions on all shapes with <= 5 leaves at start-up).'
LEVEL = "exploration"
TECHNIQUE = ("runtime monitoring: trace recorder over all Tree/Node iterators and apply() (capped drains, logical step budget), "
             "offline comparison with reference traversal sequences")
RULE = ("tree = every shape n<=5 (+ single node, unary root/chains, wide polytomies), random trees, and caterpillar / unary chain / polytomy comb "
        "of depth 1500 (thorough: also 2500); history = fresh | 1-3 library edits (child-list mutators, reseed/reroot, prune, collapse, clone, extract, Newick round trip) "
        "| traversed, edited, traversed again; ages = harness-assigned (with ties and 0) | never assigned on a dyadic ultrametric tree | re-assigned; "
        "x every start node x every iterator route x filter predicate class; non-trivial = tree with >= 3 nodes; "
        "distinct = (ordered tree signature, route actually run, filter class)")
REACH = ["_node:Node.preorder_iter", "_node:Node.postorder_iter", "_node:Node.levelorder_iter", "_node:Node.inorder_iter",
         "_node:Node.leaf_iter", "_node:Node.ageorder_iter", "_node:Node.ancestor_iter", "_node:Node.preorder_internal_node_iter",
         "_node:Node.postorder_internal_node_iter", "_node:Node.apply", "_tree:Tree.preorder_edge_iter", "_tree:Tree.postorder_edge_iter",
         "_tree:Tree.preorder_internal_edge_iter", "_tree:Tree.postorder_internal_edge_iter", "_tree:Tree.levelorder_edge_iter",
         "_tree:Tree.leaf_edge_iter", "_tree:Tree.inorder_edge_iter", "_tree:Tree.__len__", "_tree:Tree.apply",
         "_node:Node.child_node_iter", "_tree:Tree.ageorder_node_iter",
         "_tree:Tree.calc_node_ages", "_node:Node.child_edge_iter", "_node:Node.child_edges", "_node:Node.level_order_iter",
         "_node:Node.age_order_iter", "_tree:Tree.level_order_node_iter", "_tree:Tree.leaf_iter", "_tree:Tree.age_order_node_iter",
         "_tree:Tree.level_order_edge_iter", "_node:Node.leaf_nodes", "_node:Node.child_nodes"]
MIN_EVENTS = {"trace-compared": (2000000, 2600000), "apply-trace-compared": (40000, 42000), "inorder-typeerror-seen": (45000, 64000),
              "apply-partial-trace-compared": (50000, 72000), "apply-falsy-callable-compared": (8000, 11000),
              "age-order-compared": (250000, 340000), "age-order-vs-heights-compared": (9000, 22000),
              "lazy-ages-computed-by-first-call": (350, 830), "len-compared": (1200, 3000),
              "drain-under-step-budget": (400000, 490000), "second-traversal-after-edit": (100, 270), "history:edited": (270, 700)}
MIN_EVENTS.update(("edit:" + _name, (20, 60)) for _name in U.EDITS)
ASSUMPTIONS = ["reference sequences are computed on the spec extracted from the raw child lists (vf.bridge.extract)",
               "in-order on a subtree that is not strictly bifurcating must raise TypeError (docstring: 'only valid for strictly-bifurcating trees'; the library raises it explicitly)",
               "level-order is judged as the statement says (same node set, non-decreasing depth); queue order inside a level is recorded only",
               "exclude_seed_node excludes the parentless node of the tree (not the start node of a Node.* traversal), as the library documents",
               "after library edits a tree is only traversed when its raw pointers are still consistent (vf.mon.arbor); otherwise the case is noted and skipped (mutators are other properties' scope)",
               "lazily computed ages are judged on exactly ultrametric dyadic edge lengths only"]

CASE_TIMEOUT = 180       # the deep directed cases need some 5-15 s of CPU; the machine may be shared (the watchdog never decides a verdict)
FILTERS = U.FILTERS
_STATE = {"budget_all": False, "deprecations_silenced": False, "runaways": {}}


class _Runaway(Exception):
    """raised from a harness callback to stop an apply() that made more calls than any traversal can"""


class Checker(object):
    def __init__(self, ctx, tree, detail, budgeted, treetext=None):
        self.ctx = ctx
        self.tree = tree
        self.m = U.Model(tree)
        self.detail = detail
        self.newick = treetext or ref.to_newick(self.m.spec)
        self.sb = None
        self.dead = set()
        self.budgeted = budgeted or _STATE["budget_all"]
        self.cap = self.m.n + 1
        # logical step budget of ONE call: generous enough for any terminating traversal, also a quadratic one (the
        # unchanged library needs about 3 steps per node; its recursive in-order about depth steps per node)
        n = self.m.n
        self.limit = 2000 + 200 * n + 20 * n * n
        self.limit_quadratic = self.limit
        self.seen = set()

    def names(self, ids, edges=False):
        idx = self.m.idx_of_eid if edges else self.m.idx_of_nid
        return [idx.get(i, "?") for i in ids][:60]

    # ---- guarded calls into the library ---------------------------------------------------------
    def guarded(self, what, fn, det, limit=None, expect=None):
        """runs fn() under the (re-armed) logical step budget.  Returns (True, result), ("raised", exc) for an
        exception of class ``expect`` raised by library code, or (False, None) after a report."""
        ctx = self.ctx
        sb = self.sb
        if what in self.dead or _STATE["runaways"].get(what, 0) >= 5:
            # the verdict on this route is given; neither the run-up to the recursion limit nor the wait for the step
            # budget is repeated on the same tree (nor, after 5 runaways of one route, in this process)
            ctx.note("route-not-repeated-after-RecursionError-or-runaway")
            return False, None
        try:
            if sb is not None:
                sb.arm(limit or self.limit)
                ctx.ev("drain-under-step-budget")
            return True, fn()
        except _budget.StepBudgetExceeded as e:
            sb.arm(1 << 60)
            _STATE["budget_all"] = True
            _STATE["runaways"][what] = _STATE["runaways"].get(what, 0) + 1
            self.dead.add(what)
            ctx.violation("%s|does-not-terminate|step-budget" % what,
                          "more than %d loop steps inside the library for a tree of %d nodes (at %s)" % (limit or self.limit, self.m.n, e.where), det)
        except core.CaseTimeout:
            _STATE["budget_all"] = True       # the wall clock never decides: it only switches every later case to the step budget
            raise
        except _Runaway:
            raise
        except RecursionError as e:
            self.dead.add(what)
            ctx.violation("%s|recursion-limit|%s" % (what, U.recursing_function(e)),
                          "%s raised RecursionError on a tree of %d nodes and depth %d" % (what, self.m.n, self.m.max_depth), det)
        except Exception as e:
            if expect is not None and isinstance(e, expect) and core.raised_in_repo(e):
                return "raised", e
            ctx.unexpected(what, e, det)
        return False, None

    def drain(self, what, thunk, filt, start=None, limit=None):
        """list of at most n+1 yielded objects, or None after a report (exception / runaway)."""
        det = {"tree": self.newick, "filter": filt, "start": start}
        cap = self.cap
        ok, got = self.guarded(what, lambda: list(itertools.islice(thunk(), cap)), det, limit)
        if ok is not True:
            return None
        if len(got) >= cap:
            self.ctx.violation("%s|yields-more-items-than-the-tree-has" % what,
                               "still yielding after %d items; the tree has %d nodes" % (len(got), self.m.n), det)
            return None
        return got

    def compare(self, what, thunk, want_ids, filt, edges=False, start=None, limit=None):
        ctx = self.ctx
        got = self.drain(what, thunk, filt, start, limit)
        if got is None:
            return None
        got = [id(x) for x in got]
        ctx.ev("trace-compared")
        self.seen.add((what, filt.split(",")[0]))
        if got != want_ids:
            ctx.violation("%s|%s|filter=%s" % (what, self.clause(got, want_ids), filt),
                          "visited (pre-order indices) %s, reference %s" % (self.names(got, edges), self.names(want_ids, edges)),
                          {"tree": self.newick, "start": start, "filter": filt})
        return got

    @staticmethod
    def clause(got, want):
        if sorted(got) == sorted(want):
            return "wrong-order"
        if len(set(got)) != len(got):
            return "visits-twice"
        if set(got) - set(want):
            return "visits-extra"
        return "misses"

    def compare_level(self, what, thunk, want_idx, ok, filt, edges=False, start=None):
        """level order as the statement defines it: the same set, depth never decreases."""
        ctx = self.ctx
        m = self.m
        got = self.drain(what, thunk, filt, start)
        if got is None:
            return None
        got = [id(x) for x in got]
        ctx.ev("trace-compared")
        self.seen.add((what, filt))
        ids = m.eid if edges else m.nid
        want = [ids[i] for i in want_idx if ok[i]]
        if got == want:
            return got
        det = {"tree": self.newick, "start": start, "filter": filt}
        if sorted(got) != sorted(want):
            ctx.violation("%s|%s|filter=%s" % (what, self.clause(got, want), filt),
                          "visited (pre-order indices) %s, reference %s" % (self.names(got, edges), self.names(want, edges)), det)
            return got
        back = m.idx_of_eid if edges else m.idx_of_nid
        dp = [m.depth[back[x]] for x in got]
        if any(a > b for a, b in zip(dp, dp[1:])):
            ctx.violation("%s|depth-decreases|filter=%s" % (what, filt), "depths visited %s" % dp[:60], det)
        else:
            ctx.note("levelorder-not-queue-order:%s" % what)
        return got

    def expect_typeerror(self, what, thunk, filt, start=None):
        """in-order on a subtree that is not strictly bifurcating"""
        ctx = self.ctx
        det = {"tree": self.newick, "filter": filt, "start": start}
        cap = self.cap
        ok, got = self.guarded(what, lambda: list(itertools.islice(thunk(), cap)), det, self.limit_quadratic, expect=TypeError)
        if ok == "raised":
            ctx.ev("inorder-typeerror-seen")
            self.seen.add((what + "[non-binary]", filt))
        elif ok is True:
            ctx.violation("%s|no-TypeError-on-non-binary-tree" % what,
                          "in-order on a subtree that is not strictly bifurcating did not raise (%d items yielded)" % len(got), det)

    # ---- the routes ----------------------------------------------------------------------------------
    def run(self, rng, all_starts=True, lazy_ages=False, node_filters=2, grid_at_starts=1, n_starts=6, full_root=True):
        """the whole battery; when the case is budgeted one vf.mon.budget block stays open and is re-armed per call"""
        if not self.budgeted:
            return self._run(rng, all_starts, lazy_ages, node_filters, grid_at_starts, n_starts, full_root)
        self.sb = U.StepBudget()
        self.sb.open()
        try:
            return self._run(rng, all_starts, lazy_ages, node_filters, grid_at_starts, n_starts, full_root)
        finally:
            self.sb.close()
            self.sb = None

    def _run(self, rng, all_starts, lazy_ages, node_filters, grid_at_starts, n_starts, full_root):
        tree = self.tree
        ctx = self.ctx
        m = self.m
        n = m.n
        C = self.compare
        nid, eid, leaf = m.nid, m.eid, m.leaf
        marks_n = set(x for x in nid if rng.random() < 0.5)
        marks_e = set(x for x in eid if rng.random() < 0.5)
        all_ok = [True] * n
        okn_m = [x in marks_n for x in nid]
        oke_m = [x in marks_e for x in eid]
        pre = m.pre(0)
        post = m.post
        level = m.level(0)
        inorder = m.inorder(0)
        ages = None
        if lazy_ages:
            ages = self.lazy_age_block(rng, marks_n, okn_m)
        T = "Tree."
        for filt in FILTERS:
            fn = U.make_filter(filt, marks_n, rng)
            fe = U.make_filter(filt, marks_e, rng)
            okn = all_ok if filt == "none" else okn_m
            oke = all_ok if filt == "none" else oke_m
            N = lambda seq: [nid[i] for i in seq if okn[i]]
            E = lambda seq: [eid[i] for i in seq if oke[i]]
            C(T + "preorder_node_iter", lambda: tree.preorder_node_iter(fn), N(pre), filt)
            C(T + "postorder_node_iter", lambda: tree.postorder_node_iter(filter_fn=fn), N(post), filt)
            self.compare_level(T + "levelorder_node_iter", lambda: tree.levelorder_node_iter(fn), level, okn, filt)
            self.compare_level(T + "level_order_node_iter", lambda: tree.level_order_node_iter(fn), level, okn, filt)
            C(T + "leaf_node_iter", lambda: tree.leaf_node_iter(fn), [nid[i] for i in pre if leaf[i] and okn[i]], filt)
            C(T + "leaf_iter", lambda: tree.leaf_iter(filter_fn=fn), [nid[i] for i in pre if leaf[i] and okn[i]], filt)
            C(T + "nodes", lambda: tree.nodes(fn), N(pre), filt)
            for ex in (False, True):
                keep = [not leaf[i] and not (ex and i == 0) for i in range(n)]
                f2 = filt + (",exclude_seed" if ex else "")
                C(T + "preorder_internal_node_iter", lambda: tree.preorder_internal_node_iter(fn, exclude_seed_node=ex),
                  [nid[i] for i in pre if keep[i] and okn[i]], f2)
                C(T + "postorder_internal_node_iter", lambda: tree.postorder_internal_node_iter(fn, exclude_seed_node=ex),
                  [nid[i] for i in post if keep[i] and okn[i]], f2)
                C(T + "preorder_internal_edge_iter", lambda: tree.preorder_internal_edge_iter(fe, exclude_seed_edge=ex),
                  [eid[i] for i in pre if keep[i] and oke[i]], f2, edges=True)
                C(T + "postorder_internal_edge_iter", lambda: tree.postorder_internal_edge_iter(fe, exclude_seed_edge=ex),
                  [eid[i] for i in post if keep[i] and oke[i]], f2, edges=True)
            C(T + "preorder_edge_iter", lambda: tree.preorder_edge_iter(fe), E(pre), filt, edges=True)
            C(T + "postorder_edge_iter", lambda: tree.postorder_edge_iter(fe), E(post), filt, edges=True)
            for alias in ("levelorder_edge_iter", "level_order_edge_iter"):
                got = self.compare_level(T + alias, lambda: getattr(tree, alias)(fe), level, oke, filt, edges=True)
                if got is not None:
                    # the statement's edge clause: the edges of the nodes the node counterpart yields, in the same order
                    fcp = None if fe is None else (lambda nd: fe(nd._edge))
                    cp = self.drain(T + "levelorder_node_iter", lambda: tree.levelorder_node_iter(fcp), filt)
                    if cp is not None and got != [id(nd._edge) for nd in cp]:
                        ctx.violation("%s%s|differs-from-node-counterpart|filter=%s" % (T, alias, filt),
                                      "edges %s, edges of the nodes of levelorder_node_iter %s" % (
                                          self.names(got, True), self.names([id(nd._edge) for nd in cp], True)),
                                      {"tree": self.newick, "filter": filt})
            C(T + "leaf_edge_iter", lambda: tree.leaf_edge_iter(fe), [eid[i] for i in pre if leaf[i] and oke[i]], filt, edges=True)
            C(T + "edges", lambda: tree.edges(fe), E(pre), filt, edges=True)
            if inorder is not None:
                C(T + "inorder_node_iter", lambda: tree.inorder_node_iter(fn), N(inorder), filt, limit=self.limit_quadratic)
                C(T + "inorder_edge_iter", lambda: tree.inorder_edge_iter(fe), E(inorder), filt, edges=True, limit=self.limit_quadratic)
            else:
                self.expect_typeerror(T + "inorder_node_iter", lambda: tree.inorder_node_iter(fn), filt)
                self.expect_typeerror(T + "inorder_edge_iter", lambda: tree.inorder_edge_iter(fe), filt)
        C("Tree.__iter__", lambda: iter(tree), [nid[i] for i in pre], "none")
        C("Tree.leaf_nodes", lambda: tree.leaf_nodes(), [nid[i] for i in pre if leaf[i]], "none")
        C("Tree.leaf_edges", lambda: tree.leaf_edges(), [eid[i] for i in pre if leaf[i]], "none", edges=True)
        for ex in (False, True):
            f2 = "none" + (",exclude_seed" if ex else "")
            C("Tree.internal_nodes", lambda: tree.internal_nodes(exclude_seed_node=ex),
              [nid[i] for i in pre if not leaf[i] and not (ex and i == 0)], f2)
            C("Tree.internal_edges", lambda: tree.internal_edges(exclude_seed_edge=ex),
              [eid[i] for i in pre if not leaf[i] and not (ex and i == 0)], f2, edges=True)
        self.check_len()
        # ---- age order: ages assigned by the harness (arbitrary, with ties and zeros)
        ages = self.assign_ages(rng)
        self.age_grid_tree(rng, ages, marks_n, okn_m, "assigned")
        # ---- Tree.apply: every non-empty callback subset
        self.check_apply("Tree.apply", tree, 0, rng, full=True)
        # ---- Node family from every start node
        starts = list(pre) if all_starts else sorted(set(rng.sample(range(n), min(n, n_starts)) + [0]))
        others = [f for f in FILTERS if f != "none"]
        for k in starts:
            nd = m.nodes[k]
            sub = m.pre(k)
            subpost = m.postorder(k)
            sublevel = m.level(k)
            subin = m.inorder(k)
            anc = m.ancestors(k)
            full = (k == 0 and full_root) or node_filters >= len(others)
            for filt in ["none"] + (others if full else rng.sample(others, node_filters)):
                fn = U.make_filter(filt, marks_n, rng)
                fe = U.make_filter(filt, marks_e, rng)
                okn = all_ok if filt == "none" else okn_m
                oke = all_ok if filt == "none" else oke_m
                P = "Node."
                C(P + "preorder_iter", lambda: nd.preorder_iter(fn), [nid[i] for i in sub if okn[i]], filt, start=k)
                C(P + "postorder_iter", lambda: nd.postorder_iter(fn), [nid[i] for i in subpost if okn[i]], filt, start=k)
                self.compare_level(P + "levelorder_iter", lambda: nd.levelorder_iter(fn), sublevel, okn, filt, start=k)
                self.compare_level(P + "level_order_iter", lambda: nd.level_order_iter(filter_fn=fn), sublevel, okn, filt, start=k)
                C(P + "leaf_iter", lambda: nd.leaf_iter(fn), [nid[i] for i in sub if leaf[i] and okn[i]], filt, start=k)
                C(P + "child_node_iter", lambda: nd.child_node_iter(fn), [nid[i] for i in m.kids[k] if okn[i]], filt, start=k)
                C(P + "child_edge_iter", lambda: nd.child_edge_iter(fe), [eid[i] for i in m.kids[k] if oke[i]], filt, edges=True, start=k)
                for ex in (False, True):
                    f2 = filt + (",exclude_seed" if ex else "")
                    C(P + "preorder_internal_node_iter", lambda: nd.preorder_internal_node_iter(fn, exclude_seed_node=ex),
                      [nid[i] for i in sub if not leaf[i] and not (ex and i == 0) and okn[i]], f2, start=k)
                    C(P + "postorder_internal_node_iter", lambda: nd.postorder_internal_node_iter(fn, exclude_seed_node=ex),
                      [nid[i] for i in subpost if not leaf[i] and not (ex and i == 0) and okn[i]], f2, start=k)
                for incl in (False, True):
                    seq = ([k] if incl else []) + anc
                    C(P + "ancestor_iter", lambda: nd.ancestor_iter(fn, inclusive=incl), [nid[i] for i in seq if okn[i]],
                      filt + (",inclusive" if incl else ""), start=k)
                if subin is not None:
                    C(P + "inorder_iter", lambda: nd.inorder_iter(fn), [nid[i] for i in subin if okn[i]], filt, start=k,
                      limit=self.limit_quadratic)
                else:
                    self.expect_typeerror(P + "inorder_iter", lambda: nd.inorder_iter(fn), filt, start=k)
                # age order of the subtree: own filter application, own parameter order
                grid = [(i, d) for i in (True, False) for d in (False, True)]
                for incl, desc in (grid if full else rng.sample(grid, grid_at_starts)):
                    want = set(nid[i] for i in sub if (incl or not leaf[i]) and okn[i])
                    tag = "%s,leaves=%s,desc=%s" % (filt, incl, desc)
                    style = rng.randrange(3)
                    if style == 0:
                        self.check_age(P + "ageorder_iter", lambda: nd.ageorder_iter(fn, incl, desc), want, ages, desc, tag, filt, k)
                    elif style == 1:
                        self.check_age(P + "ageorder_iter", lambda: nd.ageorder_iter(filter_fn=fn, include_leaves=incl, descending=desc),
                                       want, ages, desc, tag, filt, k)
                    else:
                        self.check_age(P + "age_order_iter", lambda: nd.age_order_iter(incl, fn, desc), want, ages, desc, tag, filt, k)
            C("Node.__iter__", lambda: iter(nd), [nid[i] for i in sub], "none", start=k)
            C("Node.leaf_nodes", lambda: nd.leaf_nodes(), [nid[i] for i in sub if leaf[i]], "none", start=k)
            C("Node.child_nodes", lambda: nd.child_nodes(), [nid[i] for i in m.kids[k]], "none", start=k)
            C("Node.child_edges", lambda: nd.child_edges(), [eid[i] for i in m.kids[k]], "none", edges=True, start=k)
            self.check_age("Node.ageorder_iter", lambda: nd.ageorder_iter(), set(nid[i] for i in sub), ages, False, "defaults", "none", k)
            self.check_age("Node.age_order_iter", lambda: nd.age_order_iter(), set(nid[i] for i in sub), ages, False, "defaults", "none", k)
            self.check_apply("Node.apply", nd, k, rng, full=(k == 0 and full_root))
        # ---- ages assigned a second time: the same tree queried again must follow the new ages
        if rng.random() < 0.3:
            ages = self.assign_ages(rng)
            self.age_grid_tree(rng, ages, marks_n, okn_m, "re-assigned", sample=4)

    # ---- len --------------------------------------------------------------------------------------
    def check_len(self):
        ctx = self.ctx
        m = self.m
        nl = sum(1 for x in m.leaf if x)
        det = {"tree": self.newick}
        ok, got = self.guarded("Tree.__len__", lambda: len(self.tree), det)
        if ok is not True:
            return
        ctx.ev("trace-compared")
        ctx.ev("len-compared")
        self.seen.add(("Tree.__len__", "none"))
        if got != nl:
            ctx.violation("Tree.__len__|not-the-number-of-leaves", "len(tree)=%d, %d leaves" % (got, nl), det)

    # ---- age order ----------------------------------------------------------------------------------
    def assign_ages(self, rng):
        ages = {}
        for nd in self.m.nodes:
            nd.age = ages[id(nd)] = rng.choice([0, 0, 1, 2.5, 3, 7])
        return ages

    def lazy_age_block(self, rng, marks_n, okn_m):
        """ages never assigned, edge lengths exactly ultrametric: the first Tree.ageorder_node_iter call has to compute
        them (calc_node_ages); the order is judged against the ages read back AND against the heights the lengths give."""
        ctx = self.ctx
        m = self.m
        heights = m.heights()
        if heights is None or any(nd.age is not None for nd in m.nodes):
            raise core.HarnessBug("lazy-age case without exact ultrametric lengths / with ages already set")
        hmap = dict((m.nid[i], heights[i]) for i in range(m.n))
        first = [True]

        def readback():
            if first[0]:
                first[0] = False
                ctx.ev("lazy-ages-computed-by-first-call")
            return dict((id(nd), nd.age) for nd in m.nodes)
        self.age_grid_tree(rng, readback, marks_n, okn_m, "never-assigned", heights=hmap)
        ages = readback()
        # Node level on the lazily computed ages (root and a few other starts)
        for k in sorted(set([0] + [rng.randrange(m.n) for _ in range(3)])):
            nd = m.nodes[k]
            for desc in (False, True):
                self.check_age("Node.ageorder_iter", lambda: nd.ageorder_iter(descending=desc), set(m.nid[i] for i in m.pre(k)),
                               ages, desc, "none,ages=never-assigned,desc=%s" % desc, "none", k, heights=hmap)
        return ages

    def age_grid_tree(self, rng, ages, marks_n, okn_m, history, heights=None, sample=None):
        tree = self.tree
        m = self.m
        combos = [(incl, desc, filt) for incl in (True, False) for desc in (False, True) for filt in FILTERS]
        if sample:
            combos = rng.sample(combos, sample)
        for incl, desc, filt in combos:
            fn = U.make_filter(filt, marks_n, rng)
            want = set(m.nid[i] for i in range(m.n) if (incl or not m.leaf[i]) and (filt == "none" or okn_m[i]))
            tag = "%s,leaves=%s,desc=%s,ages=%s" % (filt, incl, desc, history)
            style = rng.randrange(3)           # keyword / positional (Tree order: include_leaves, filter_fn, descending) / deprecated alias
            if style == 0:
                self.check_age("Tree.ageorder_node_iter", lambda: tree.ageorder_node_iter(include_leaves=incl, filter_fn=fn, descending=desc),
                               want, ages, desc, tag, filt, heights=heights)
            elif style == 1:
                self.check_age("Tree.ageorder_node_iter", lambda: tree.ageorder_node_iter(incl, fn, desc),
                               want, ages, desc, tag + ",positional", filt, heights=heights)
            else:
                self.check_age("Tree.age_order_node_iter", lambda: tree.age_order_node_iter(incl, fn, desc),
                               want, ages, desc, tag, filt, heights=heights)
        self.check_age("Tree.ageorder_node_iter", lambda: tree.ageorder_node_iter(), set(m.nid), ages, False,
                       "defaults,ages=%s" % history, "none", heights=heights)

    def check_age(self, what, thunk, want_set, ages, desc, tag, filt, start=None, heights=None):
        ctx = self.ctx
        got = self.drain(what, thunk, tag, start)
        if got is None:
            return
        if callable(ages):
            ages = ages()                 # read back AFTER the call that may have had to compute them
        got = [id(x) for x in got]
        ctx.ev("trace-compared")
        ctx.ev("age-order-compared")
        self.seen.add((what, filt))
        det = {"tree": self.newick, "filter": tag, "start": start}
        if len(got) != len(set(got)) or set(got) != want_set:
            ctx.violation("%s|not-a-permutation-of-the-node-set|filter=%s" % (what, filt), "visited %s, reference set %s" % (
                self.names(got), sorted(self.names(want_set))), det)
            return
        seq = [ages.get(i) for i in got]
        if any(a is None for a in seq):
            ctx.violation("%s|age-missing-after-traversal" % what, "a visited node has age None after an age-order traversal that returned normally", det)
            return
        mono = all(a >= b for a, b in zip(seq, seq[1:])) if desc else all(a <= b for a, b in zip(seq, seq[1:]))
        if not mono:
            ctx.violation("%s|ages-not-monotone" % what, "ages visited %s (descending=%s)" % (seq[:60], desc), det)
        if heights is not None:
            ctx.ev("age-order-vs-heights-compared")
            hs = [heights[i] for i in got]
            mono = all(a >= b for a, b in zip(hs, hs[1:])) if desc else all(a <= b for a, b in zip(hs, hs[1:]))
            if not mono:
                ctx.violation("%s|ages-not-monotone|vs-heights-from-edge-lengths" % what,
                              "heights (sum of edge lengths to the tips) of the visited nodes %s (descending=%s), age attributes %s" % (hs[:60], desc, seq[:60]), det)

    # ---- apply ----------------------------------------------------------------------------------------
    APPLY_SUBSETS = ("b", "a", "l", "ba", "bl", "al")

    def run_apply(self, what, obj, make, tags, det):
        """calls obj.apply with callbacks for the tags in ``tags``; returns the trace or None after a report."""
        ctx = self.ctx
        trace = []
        count = [0]
        cap = 3 * self.m.n + 3

        def guard():
            count[0] += 1
            if count[0] > cap:
                raise _Runaway()
        kw = {}
        for tag, name in (("b", "before_fn"), ("a", "after_fn"), ("l", "leaf_fn")):
            kw[name] = make(tag, trace, guard) if tag in tags else None
        try:
            ok, _ = self.guarded(what, lambda: obj.apply(**kw), det)
        except _Runaway:
            ctx.violation("%s|does-not-terminate|more-callbacks-than-3n" % what, "more than %d callback invocations on a tree of %d nodes" % (cap, self.m.n), det)
            return None
        return trace if ok is True else None

    def check_apply(self, what, obj, k, rng, full=False):
        ctx = self.ctx
        m = self.m
        det = {"tree": self.newick, "start": k}
        want = [(t, m.nid[i]) for t, i in m.apply_trace(k)]
        plain = lambda tag, trace, guard: (lambda nd: (guard(), trace.append((tag, id(nd)))))
        fmt = lambda tr: " ".join("%s:%s" % (t, m.idx_of_nid.get(i, "?")) for t, i in tr[:80])
        trace = self.run_apply(what, obj, plain, "bal", det)
        if trace is not None:
            ctx.ev("apply-trace-compared")
            self.seen.add((what, "callbacks=all"))
            if trace != want:
                inside = set(i for _, i in want)
                outside = [1 for t, i in trace if i not in inside]
                clause = "callbacks-outside-the-subtree" if outside else "not-bracket-matched"
                ctx.violation("%s|%s" % (what, clause), "trace %s ; reference %s" % (fmt(trace), fmt(want)), det)
        # partial callbacks (some None) must give the matching sub-trace
        for tags in (self.APPLY_SUBSETS if full else rng.sample(self.APPLY_SUBSETS, 1)):
            tr2 = self.run_apply(what, obj, plain, tags, det)
            if tr2 is None:
                continue
            ctx.ev("apply-partial-trace-compared")
            self.seen.add((what, "callbacks=" + tags))
            if tr2 != [x for x in want if x[0] in tags]:
                ctx.violation("%s|partial-trace-wrong|callbacks=%s" % (what, tags),
                              "trace %s ; reference %s" % (fmt(tr2), fmt([x for x in want if x[0] in tags])), det)
        # callback OBJECTS that are falsy are callbacks all the same
        if full or rng.random() < 0.15:
            tr3 = self.run_apply(what, obj, U.FalsyCallback, "bal", det)
            if tr3 is not None:
                ctx.ev("apply-falsy-callable-compared")
                self.seen.add((what, "callbacks=falsy-callable"))
                if tr3 != want:
                    ctx.violation("%s|not-bracket-matched|callbacks=falsy-callable" % what, "trace %s ; reference %s" % (fmt(tr3), fmt(want)), det)


EXTRA_SHAPES = [
    ref.S("A"),                                                             # single node
    ref.S(None, [ref.S("A")]),                                              # unary root over a leaf
    ref.S(None, [ref.S(None, [ref.S("A"), ref.S("B")])]),                   # unary root
    ref.S(None, [ref.S(None, [ref.S(None, [ref.S("A")])]), ref.S("B")]),    # unary chain
    ref.S(None, [ref.S("T%d" % i) for i in range(9)]),                      # wide polytomy
    ref.S(None, [ref.S(None, [ref.S("T%d" % i) for i in range(5)]), ref.S(None, [ref.S("U%d" % i) for i in range(6)]), ref.S("V")]),
    ref.S(None, [ref.S("A"), ref.S(None, [ref.S("B"), ref.S(None, [ref.S("C"), ref.S("D")])])]),   # witness of apply() at a last child
]
DEEP_DEPTH = {"quick": (1500,), "thorough": (1500, 2500)}


def cases(tier, seed):
    for depth in DEEP_DEPTH[tier]:
        for kind in U.DEEP_KINDS:
            yield {"kind": "deep", "shape": kind, "depth": depth, "seed": seed}
    for i in range(len(EXTRA_SHAPES)):
        yield {"kind": "extra", "i": i, "seed": seed}
    for n in range(1, 6):
        for idx in range(len(gen.all_shapes(n))):
            if tier == "quick" and n == 5 and (idx + seed) % 3:
                continue
            yield {"kind": "shape", "n": n, "idx": idx, "seed": seed}
    for i in range(2400 if tier == "quick" else 6000):
        yield {"kind": "random", "i": i, "seed": seed}


def shard_setup(ctx):
    U.selftest(EXTRA_SHAPES)


def _silence_deprecations():
    if not _STATE["deprecations_silenced"]:
        from dendropy.utility import deprecate
        deprecate.configure_deprecation_warning_behavior("ignore")
        _STATE["deprecations_silenced"] = True


def run_case(case, ctx):
    try:
        _run_case(case, ctx)
    except core.CaseTimeout:
        _STATE["budget_all"] = True
        raise


def _run_case(case, ctx):
    import dendropy
    U.selftest(EXTRA_SHAPES)
    _silence_deprecations()
    rng = random.Random("%s/%s" % (case["seed"], sorted((k, str(v)) for k, v in case.items())))
    all_starts = True
    treetext = None
    kind = case["kind"]
    if kind == "deep":
        spec = U.deep_spec(case["shape"], case["depth"])
        all_starts = False
        treetext = "<%s of depth %d>" % (case["shape"], case["depth"])
    elif kind == "extra":
        spec = ref.copy(EXTRA_SHAPES[case["i"]])
    elif kind == "shape":
        spec = gen.shape_to_spec(gen.all_shapes(case["n"])[case["idx"]])
        if rng.random() < 0.3:
            spec = gen.insert_unary(spec, rng, 0.3)
        spec = gen.shuffle_children(spec, rng)
    else:
        n = rng.choice([2, 6, 12, 25, 40]) if ctx.tier == "quick" else rng.choice([2, 8, 20, 60, 150, 300])
        spec = gen.random_spec(rng, n, p_poly=rng.choice([0, 0, 0.3, 0.7]), p_unary=rng.choice([0, 0.1, 0.3]),
                               shape=rng.choice([None, None, None, "caterpillar", "star", "balanced"]))
        all_starts = n <= 40
    if kind != "deep" and rng.random() < 0.3:
        # taxa on internal nodes as well (len(tree) must still count leaves only)
        for k, n in enumerate(ref.preorder(spec)):
            if n[3] and rng.random() < 0.6:
                n[0] = "I%d" % k
    history = "fresh"
    r = rng.random()
    if kind == "deep":
        history = "lazy-ages" if case["shape"] != "unary-chain" else "fresh"
    elif r < 0.3:
        history = "lazy-ages"
    elif r < 0.55:
        history = "edited"
    elif r < 0.65:
        history = "traversed-edited-traversed"
    if history == "lazy-ages":
        gen.ultrametric_lengths(spec, rng, dyadic=True)
    labels = sorted(n[0] for n in ref.preorder(spec) if n[0] is not None)
    ns = dendropy.TaxonNamespace(labels)
    tree = bridge.build_tree(spec, ns, rng.choice([True, False]))
    # budgeted: all directed and exhaustive-shape cases and every 6th random case; every case once anything ran away
    budgeted = kind != "random" or case["i"] % 6 == 0
    nf = 2
    counter = [0]
    edits = []
    if history == "edited":
        tree = _edit(ctx, tree, rng, counter, edits, rng.randint(1, 3))
        if tree is None:
            return
    ctx.ev("history:" + history)
    ch = Checker(ctx, tree, case, budgeted, treetext)
    deep = kind == "deep"
    ch.run(rng, all_starts, lazy_ages=(history == "lazy-ages"), node_filters=nf, n_starts=3 if deep else 6, full_root=not deep)
    seen = ch.seen
    n_nodes = ch.m.n
    if history == "traversed-edited-traversed":
        tree2 = _edit(ctx, tree, rng, counter, edits, 1)
        if tree2 is not None:
            ch2 = Checker(ctx, tree2, case, budgeted)
            ch2.run(rng, all_starts, node_filters=nf)
            seen = seen | ch2.seen
            ctx.ev("second-traversal-after-edit")
    if n_nodes >= 3:
        # ordered shape signature = the pre-order sequence of out-degrees (built without recursion)
        sig = treetext or core.short_hash(",".join(str(len(k)) for k in ch.m.kids))
        for what, filt in seen:
            ctx.nontrivial((sig, what, filt))
    if kind in ("extra", "deep") or case.get("i", 9) < 2 and kind == "random":
        ctx.sample({"kind": kind, "tree": treetext or ref.to_newick(spec), "history": history, "edits": edits,
                    "iterators": "all Tree.* and Node.* iterators from every start node", "filters": list(FILTERS)})


def _edit(ctx, tree, rng, counter, edits, k):
    """k library edits; returns the tree to traverse, or None when the result is not a well-formed tree any more
    (recorded, not judged: the mutators belong to other properties)."""
    size = len(U.raw_nodes(tree)) + 3
    for _ in range(k):
        name = rng.choice(U.EDITS)
        try:
            # the mutators, the Newick writer/reader, clone ... iterate over the tree themselves: a runaway iterator must not
            # hang here, outside the judged calls (recorded, the verdict comes from the judged calls)
            with _budget.budget(100000 + 50 * size * size):
                t2 = U.apply_edit(name, tree, rng, counter)
        except _budget.StepBudgetExceeded:
            _STATE["budget_all"] = True
            ctx.note("edit-exceeded-step-budget:%s" % name)
            return None
        except core.CaseTimeout:
            raise
        except Exception as e:
            ctx.note("edit-raised:%s:%s" % (name, type(e).__name__))
            t2 = tree
            name += "(raised %s)" % type(e).__name__
        if t2 is None:
            ctx.note("edit-not-applicable:%s" % name)
            continue
        tree = t2
        edits.append(name)
        ctx.ev("edit:" + name.split("(")[0])
    try:
        probs = arbor.check(tree, iterators=False)
    except Exception as e:
        probs = ["arborescence walker raised %s" % type(e).__name__]
    if probs:
        ctx.note("edited-tree-not-well-formed:%s:%s" % ("+".join(edits[-k:]), probs[0]))
        return None
    return tree
