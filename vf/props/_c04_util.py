"""Private helpers of the C04 check: definitions of the four distances on reference
split -> length maps (taken from vf.ref.split_lengths), re-drawing generators on specs,
and structural edits applied to *live* trees through the plain node API (the edits are
not under test here: after every edit the reference re-reads the live structure)."""
import math

from .. import ref, gen

GRID = 1024.0          # lengths that are multiples of 1/1024 below 1024 make every sum / square exact in a double


# ------------------------------------------------------------------------------------------
# definitions
def split_maps(spec, rooted):
    """(split -> summed length, some non-root edge has no length)"""
    return ref.split_lengths(spec, rooted)


def judgeable(spec):
    """the quantifier is over trees whose leaves carry distinct taxa"""
    seen = set()
    for lf in ref.leaves(spec):
        if lf[0] is None or lf[0] in seen:
            return False
        seen.add(lf[0])
    return len(seen) >= 1


def on_grid(*maps):
    for m in maps:
        for v in m.values():
            if isinstance(v, bool):
                return False
            if isinstance(v, int):
                if abs(v) >= GRID:
                    return False
                continue
            if not isinstance(v, float) or v != v or abs(v) >= GRID or not (v * GRID).is_integer():
                return False
    return True


def spec_on_grid(spec):
    return on_grid(dict((i, n[2]) for i, n in enumerate(ref.preorder(spec)) if n[2] is not None))


def expected(m1, m2):
    """all four distances by their split-set definitions"""
    s1, s2 = set(m1), set(m2)
    fp = len(s2 - s1)          # in the comparison (second) tree, not in the reference (first) tree
    fn = len(s1 - s2)
    l1 = 0
    l2 = 0
    for s in s1 | s2:
        d = m1.get(s, 0) - m2.get(s, 0)
        l1 += abs(d)
        l2 += d * d
    return {"sd": fp + fn, "fpfn": (fp, fn), "wrf": l1, "euclid": math.sqrt(l2), "missing": frozenset(s1 - s2)}


def close(a, b, exact):
    if exact:
        return a == b
    return abs(a - b) <= 1e-9 * max(abs(a), abs(b)) + 1e-12


# ------------------------------------------------------------------------------------------
# re-drawings (all leave the split -> summed length map of the tree unchanged)
def internal_indices(spec):
    return [k for k, nd in enumerate(ref.preorder(spec)) if nd[3]]


def reroot_on_edge(spec, rng):
    """unrooted re-drawing: new bifurcating seed in the middle of a random edge"""
    s = ref.copy(spec)
    nodes = list(ref.preorder(s))
    if len(nodes) < 2:
        return s
    pm = ref.parent_map(s)
    x = rng.choice(nodes[1:])
    p = pm[id(x)]
    ln = x[2]
    if ln is None:
        a = b = None
    elif isinstance(ln, int):
        a = ln // 2
        b = ln - a
    else:
        a = math.floor(ln * 4) / 8.0 if spec_on_grid(spec) else ln / 2.0
        b = ln - a
    u = ref.S(None, [x], b)
    x[2] = a
    p[3][p[3].index(x)] = u
    k = [i for i, nd in enumerate(ref.preorder(s)) if nd is u][0]
    return ref.reroot(s, k)


def drop_taxonless_leaves(spec):
    """re-seeding a tree whose old seed was unary leaves the old seed behind as a childless node without taxon;
    its edge induces the split {all | nothing}, i.e. it belongs to the root edge: remove it, keep its length there"""
    while True:
        pm = ref.parent_map(spec)
        bad = [n for n in ref.preorder(spec) if not n[3] and n[0] is None and n is not spec]
        if not bad:
            return spec
        for n in bad:
            pm[id(n)][3].remove(n)
            if n[2] is not None:
                spec[2] = n[2] if spec[2] is None else spec[2] + n[2]


def redraw(spec, rng, rooted, kind):
    """kind in child-order | unary | reseed | reseed-edge | mixed"""
    return drop_taxonless_leaves(_redraw(spec, rng, rooted, kind))


def _redraw(spec, rng, rooted, kind):
    if kind == "child-order":
        return gen.shuffle_children(spec, rng)
    if kind == "unary":
        return gen.insert_unary(spec, rng, 0.35)
    if kind == "reseed" and not rooted:
        ii = internal_indices(spec)
        if ii:
            return ref.reroot(spec, rng.choice(ii))
        return ref.copy(spec)
    if kind == "reseed-edge" and not rooted:
        return reroot_on_edge(spec, rng)
    if kind == "mixed":
        v = gen.shuffle_children(spec, rng)
        if not rooted and rng.random() < 0.7:
            v = _redraw(v, rng, rooted, rng.choice(["reseed", "reseed-edge"]))
        if rng.random() < 0.5:
            v = gen.insert_unary(v, rng, 0.25)
        return v
    return gen.shuffle_children(spec, rng)


def redraw_kinds(rooted):
    return ("child-order", "unary", "mixed") if rooted else ("child-order", "unary", "reseed", "reseed-edge", "mixed")


# ------------------------------------------------------------------------------------------
# structural edits on live trees (journal workload)
def live_nodes(tree):
    out = []
    stack = [tree._seed_node]
    while stack:
        nd = stack.pop()
        out.append(nd)
        stack.extend(reversed(nd._child_nodes))
    return out


def _below(nd):
    out = set()
    stack = [nd]
    while stack:
        x = stack.pop()
        out.add(id(x))
        stack.extend(x._child_nodes)
    return out


def _newlen(rng):
    return rng.randint(0, 64) / 8.0


def edit_length(tree, rng):
    nodes = live_nodes(tree)
    nd = rng.choice(nodes[1:]) if len(nodes) > 1 else nodes[0]
    nd.edge.length = _newlen(rng)
    return "length"


def edit_collapse(tree, rng):
    cands = [nd for nd in live_nodes(tree)[1:] if nd._child_nodes]
    if not cands:
        return None
    nd = rng.choice(cands)
    parent = nd._parent_node
    pos = parent._child_nodes.index(nd)
    kids = list(nd._child_nodes)
    parent.remove_child(nd)
    for k in kids:
        nd.remove_child(k)
    for off, k in enumerate(kids):
        parent.insert_child(pos + off, k)
    return "collapse"


def edit_spr(tree, rng, on_edge):
    """prune a subtree and regraft it: as an extra child of an internal node, or on a new node
    that subdivides an edge.  The pruned node's parent keeps >= 1 child (it may become unary)."""
    import dendropy
    nodes = live_nodes(tree)
    for _ in range(20):
        if len(nodes) < 4:
            return None
        x = rng.choice(nodes[1:])
        px = x._parent_node
        if len(px._child_nodes) < 2:
            continue
        below = _below(x)
        if on_edge:
            targets = [n for n in nodes[1:] if id(n) not in below and n is not x]
        else:
            targets = [n for n in nodes if id(n) not in below and n is not px and n._child_nodes]
        if not targets:
            continue
        t = rng.choice(targets)
        px.remove_child(x)
        if on_edge:
            pt = t._parent_node
            pos = pt._child_nodes.index(t)
            u = dendropy.Node(edge_length=_newlen(rng))
            pt.remove_child(t)
            pt.insert_child(pos, u)
            u.add_child(t)
            u.add_child(x)
            return "spr-edge"
        t.add_child(x)
        return "spr-child"
    return None


def edit_nni(tree, rng):
    cands = [c for c in live_nodes(tree)[1:] if len(c._child_nodes) >= 2 and len(c._parent_node._child_nodes) >= 2]
    if not cands:
        return None
    c = rng.choice(cands)
    p = c._parent_node
    sib = rng.choice([x for x in p._child_nodes if x is not c])
    gc = rng.choice(c._child_nodes)
    i = p._child_nodes.index(sib)
    j = c._child_nodes.index(gc)
    p.remove_child(sib)
    c.remove_child(gc)
    p.insert_child(i, gc)
    c.insert_child(j, sib)
    return "nni"


def edit_insert_unary(tree, rng):
    import dendropy
    nodes = live_nodes(tree)
    if len(nodes) < 2:
        return None
    x = rng.choice(nodes[1:])
    p = x._parent_node
    pos = p._child_nodes.index(x)
    u = dendropy.Node(edge_length=_newlen(rng))
    p.remove_child(x)
    p.insert_child(pos, u)
    u.add_child(x)
    return "unary"


def edit_resolve(tree, rng):
    """group two children of a polytomy under a new internal node"""
    import dendropy
    cands = [n for n in live_nodes(tree) if len(n._child_nodes) >= 3]
    if not cands:
        return None
    p = rng.choice(cands)
    a, b = rng.sample(list(p._child_nodes), 2)
    pos = p._child_nodes.index(a)
    u = dendropy.Node(edge_length=_newlen(rng))
    p.remove_child(a)
    p.remove_child(b)
    p.insert_child(min(pos, len(p._child_nodes)), u)
    u.add_child(a)
    u.add_child(b)
    return "resolve"


EDITS = ("length", "collapse", "spr-child", "spr-edge", "nni", "unary", "resolve")


def apply_edit(tree, rng, kind):
    if kind == "length":
        return edit_length(tree, rng)
    if kind == "collapse":
        return edit_collapse(tree, rng)
    if kind == "spr-child":
        return edit_spr(tree, rng, False)
    if kind == "spr-edge":
        return edit_spr(tree, rng, True)
    if kind == "nni":
        return edit_nni(tree, rng)
    if kind == "unary":
        return edit_insert_unary(tree, rng)
    if kind == "resolve":
        return edit_resolve(tree, rng)
    raise ValueError(kind)
