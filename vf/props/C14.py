"""C14  Path distances and common ancestors are exact, and NJ / UPGMA invert them.

Runtime monitors (hooks on the real functions; every hook re-extracts a DendroPy-free spec from the raw
child lists of the live tree it is handed, so the oracle is advanced in lock-step with whatever the
library did to the tree before):

  PhylogeneticDistanceMatrix.compile_from_tree   post: every entry of the finished matrix is read back through
      the public accessors and compared with vf.ref.leaf_paths on the spec: path length (None counts 0), number
      of edges, node where the path turns; symmetry; zero self distance; set of mapped taxa; distances() lists;
      the matrix refers to the tree's own taxon namespace.  One-leaf trees: zero self distance only.
  NodeDistanceMatrix.compile_from_tree           post: same three quantities for pairs of *nodes* (a node is its
      own ancestor), oracle = ancestor chains on the spec (extra route of the first clause; both constructors;
      every accessor x option combination on a few pairs).
  Tree.mrca                                      post: the returned node must be the deepest node of the tree (as
      it is at return) whose leaves include the whole query; None when a queried taxon is not on the tree.
      Judged only when a refresh was requested (is_bipartitions_updated=False) or the pre-hook verified that
      every edge's leafset bitmask equals the taxa below it (encoding current); otherwise recorded only.
      The query arrives as list / tuple / set / frozenset / dict view / one-shot iterator / generator of taxa or
      labels (also in the other case on a case-insensitive namespace) or as a bitmask (also with the bit of a
      taxon that is not on the tree); the driver tells the hook which taxa a one-shot argument stands for.
  treemeasure.patristic_distance                 post: result == path length on the spec extracted BEFORE the call.
  nj_tree / upgma_tree                           post: judged by what they must reproduce when the workload declared
      the input as the distances of a known generating tree S (additive by construction); both values of
      is_weighted_edge_distances (edge counts = distances of S with unit lengths):
      (1) leaf set, (2) path matrix of the result == path matrix of S, (3) every split (UPGMA: rooted clade) of S
      with positive summed length present with that length, (4) every other split of the result has ~zero length,
      (5) the result lives in the matrix's taxon namespace and its leaves carry the matrix's own Taxon objects,
      (6) UPGMA: is_rooted is True (a tree whose root counts); NJ: not flagged rooted,
      (7) (1)-(4) again after result.encode_bipartitions() - the first use of the tree must not change it.
      Tie- and polytomy-agnostic; zero-length internal edges of S count as contracted.  NJ verdicts only when S has
      positive internal edge lengths (the statement's proviso); other inputs are driven and recorded.
  mean_pairwise_distance / mean_nearest_taxon_distance, distances(), sum_of_distances()
      compared in the driver with the docstring formulas evaluated on the oracle entries
      (all four weighted/normalised settings, taxon filters);  __call__ / distance / patristic_distance /
      path_edge_count under EVERY weighted x normalised combination their signatures allow.
  write_csv / from_csv                           sink and source are independent dimensions (text buffer, path, open
      text file - all nine combinations); the text is parsed with CPython's csv module and its header, row names and
      every cell (diagonal, both triangles) are compared with the oracle table; the matrix read back has the oracle's
      entries and the namespace / Taxon objects it was given; from_csv is also fed a table the harness wrote itself
      (reader judged without the writer); the matrix read back is usable (summaries, a second write) and feeds
      NJ / UPGMA like the original - also for the edge-count and the normalised table.  A share of the trees carries
      labels a delimited table must quote (delimiters, quotes, line feed, digits only, unicode).

Soundness limits actually implemented
  * every leaf carries a distinct taxon and no internal node carries one (compile_from_tree asserts this);
  * Tree.mrca: no start_node, no duplicate labels, non-empty queries; 'never encoded + default arguments' and
    'stale + default arguments' are recorded, not judged (statement: "encoding is current or a refresh is requested");
    for unrooted trees the refresh may collapse the basal bifurcation - the answer is judged on the tree as returned;
  * NJ only from additive input (distances of S, or its edge counts = distances of S with unit lengths), no negative
    lengths, verdict only with positive internal edge lengths; UPGMA only when S is ultrametric (all tips equidistant
    from the root to 1e-12 relative); result lengths are compared at 1e-9 relative to the largest distance (NJ's
    1/(2(n-2)) factor rounds even on dyadic input);
  * matrix entries: exact equality when all lengths are integer multiples of one power of two (ints, dyadic fractions,
    either scaled by 2**+-40), 1e-9 relative to the sum of |edge lengths| otherwise - no absolute floor;
  * negative edge lengths are generated for the matrix / node matrix / patristic_distance / summary clauses only;
  * normalised values: 'tree length' is the library's documented Tree.length() (all edges, root edge included),
    'number of edges' is one per node (every DendroPy node owns an edge); skipped when the tree length is 0;
    normalised summaries are the raw summary divided by the constant ("the results are normalized");
  * write_csv normalises by tree length BY DEFAULT: the round trip is compared with normalisation off and, separately,
    the default output against d / tree length; CSV without any labels is not generated (write_csv emits rows in set
    order, so an unlabelled table cannot be matched to taxa by anyone); row-names-only and column-names-only are;
    labels: no leading/trailing white space (from_csv trims by documentation), no carriage return (text-mode files
    translate it), not empty, distinct without regard to case (a fresh namespace is case-insensitive);
  * summaries with fewer than two admitted taxa are not generated (NullAssemblageException is the documented outcome);
  * path_edges (is_store_path_edges=True) is used as a workload variation; its edge lists are recorded, not judged;
  * a one-leaf tree whose root is the leaf yields a matrix that maps no taxon: recorded, not judged (no pair exists);
  * UPGMA's size-weighted averaging cannot be observed under this property: on ultrametric input all cross-cluster
    distances are equal, so every averaging rule gives the same tree (canaries/C14-x-... documents this).

Mechanisms found on the unchanged tree (smallest witnesses are the first DIRECTED cases)
  treemeasure.patristic_distance|path-length|unrooted-basal-bifurcation-with-one-missing-length
      the refresh inside Tree.mrca collapses the basal bifurcation of an unrooted tree; Tree.collapse_basal_bifurcation
      adds the deleted edge's length inside try/except and silently drops it when the kept edge has no length.
  write_csv|requested-delimiter-not-used
      write_csv passes its **csv_writer_kwargs dict as the positional *dialect* of csv.writer: delimiter etc. are ignored.
  csv-matrix|*   (distances-list / sum_of_distances / mean_pairwise_distance / write_csv)
      compile_from_dict (from_csv) fills neither the set of distinct taxon pairs nor the zero diagonal.
  Tree.mrca|raises-on-one-shot-iterable|taxon_labels|TypeError
      Tree.mrca(taxon_labels=<iterator>) hands the iterator to get_taxa and then calls len() on it.
"""
import atexit
import io
import itertools
import os
import random
import shutil
import tempfile
import warnings

from .. import ref, gen, bridge, core
from ..mon.hooks import Hooks
from ..mon import arbor
from . import _c14_util as U
from . import _c14_csv as C

PROP = "C14"
LEVEL = "exploration"
TECHNIQUE = ("runtime monitoring: post-hooks on PhylogeneticDistanceMatrix / NodeDistanceMatrix compilation, Tree.mrca, "
             "treemeasure.patristic_distance, nj_tree, upgma_tree compare every observed result with a path / ancestor "
             "oracle on a DendroPy-free spec; NJ / UPGMA judged by reproduction of the generating tree (topology, lengths, "
             "taxon identity, rooting, stability under the first bipartition encoding); CSV text judged cell by cell "
             "with CPython's csv module, reader and writer also separately")
LEVEL_TEXT = ("Hooks around the real distance-matrix, MRCA, NJ and UPGMA functions compare every observed result with path "
              "lengths, edge counts and common ancestors computed on DendroPy-free specs extracted from the live trees; NJ / UPGMA "
              "results (from patristic distances and from edge counts) are judged by whether they reproduce the generating tree "
              "over the matrix's own taxa; CSV tables are judged as text and as matrices read back through every sink / source "
              "route. The property held on the executions listed in the evidence file, nothing more.")
LEVEL_NOTE = ("Trusted: vf/ref.py (leaf_paths, clades, split_lengths), vf/props/_c14_util.py, vf/props/_c14_csv.py, the comparison "
              "code of vf/props/C14.py, TaxonNamespace.taxon_bitmask (C10), CPython csv. Coverage is what the workload reached: all "
              "shapes n <= 5, random trees <= 15 (quick) / <= 80 (thorough) leaves.")
RULE = ("cases = directed witnesses | every rooted multifurcating shape n<=4 x rooting (rooted, unrooted, a third also unspecified) "
        "x 10 length patterns (incl. negative lengths), n=5: half of the shapes x 1 pattern (quick) / every shape x rooting x 3-4 "
        "patterns (thorough); a share padded with unary nodes to equal leaf depth "
        "| random trees (polytomies, unifurcations, 10 length patterns, 8% rescaled by 2**+-40, 3 namespace layouts, 3 rootings) "
        "driven through a history matrix -> accessors x options -> the same matrix object re-compiled from another tree and "
        "asked again -> queries (every argument kind) -> encode -> SPR -> refresh -> "
        "leaf cut off / grafted -> refresh | additive matrices from random trees with positive dyadic / float "
        "lengths -> NJ (distances and edge counts) | ultrametric trees -> UPGMA; equal-depth trees with non-clock-like lengths -> "
        "UPGMA on edge counts | CSV round trips: 7 option variants x 9 sink/source routes, 60% with labels that need quoting, "
        "plus harness-written tables.  non-trivial = tree with >= 3 leaves and >= 1 internal "
        "edge; distinct = distinct (canonical tree with lengths, rooting, namespace layout, battery)")
REACH = ["phylogeneticdistance:PhylogeneticDistanceMatrix.compile_from_tree",
         "phylogeneticdistance:PhylogeneticDistanceMatrix._mirror_lookups",
         "phylogeneticdistance:PhylogeneticDistanceMatrix.compile_from_dict",
         "phylogeneticdistance:NodeDistanceMatrix.compile_from_tree",
         "phylogeneticdistance:NodeDistanceMatrix.from_tree",
         "phylogeneticdistance:PhylogeneticDistanceMatrix.nj_tree",
         "phylogeneticdistance:PhylogeneticDistanceMatrix.upgma_tree",
         "phylogeneticdistance:PhylogeneticDistanceMatrix.write_csv",
         "phylogeneticdistance:PhylogeneticDistanceMatrix.from_csv",
         "phylogeneticdistance:PhylogeneticDistanceMatrix.distance",
         "phylogeneticdistance:PhylogeneticDistanceMatrix._calculate_mean_pairwise_distance",
         "phylogeneticdistance:PhylogeneticDistanceMatrix._calculate_mean_nearest_taxon_distance",
         "container:DataTable.from_csv", "container:DataTable._from_csv_file",
         "_tree:Tree.mrca", "_tree:Tree.encode_bipartitions", "treemeasure:patristic_distance"]
MIN_EVENTS = {"pdm-entry-judged": (100000, 5000000), "ndm-entry-judged": (100000, 1000000),
              "mrca-judged": (50000, 500000), "tm-judged": (6000, 60000),
              "summary-judged": (20000, 200000), "nj-judged": (2000, 20000), "upgma-judged": (500, 5000),
              "csv-entry-judged": (15000, 150000), "hook:Tree.mrca:return": (50000, 500000),
              "hook:PhylogeneticDistanceMatrix.compile_from_tree:return": (2000, 20000),
              "matrix-recompiled-from-another-tree": (100, 2000), "recompiled-matrix-requeried": (100, 2000),
              # identity / option / route / history dimensions (each one decides a clause of its own)
              "pdm-identity-judged": (8000, 28000), "accessor-judged": (17000, 55000),
              "accessor-option-judged": (200000, 600000), "ndm-accessor-judged": (6500, 14000),
              "cluster-identity-judged": (12000, 40000),
              "cluster-judged:nj_tree:steps": (1800, 6000), "cluster-judged:upgma_tree:steps": (2000, 5000),
              "cluster-judged:upgma_tree:weighted": (2000, 7000),
              "cluster-after-encode-judged:nj_tree": (4000, 13000), "cluster-after-encode-judged:upgma_tree": (4000, 12000),
              "cluster-from-csv-matrix:normalized": (200, 700), "cluster-from-csv-matrix:steps": (250, 750),
              "csv-text-cell-judged": (80000, 250000), "csv-namespace-identity-judged": (1700, 5000),
              "csv-harness-table-judged": (1700, 5000), "csv-harness-table-source:file": (450, 1500),
              "csv-harness-table-source:path": (450, 1500),
              "csv-route:stringio->stringio": (400, 1000), "csv-route:stringio->path": (200, 600),
              "csv-route:stringio->file": (200, 600), "csv-route:path->stringio": (200, 600),
              "csv-route:file->stringio": (200, 600), "csv-route:path->path": (120, 450), "csv-route:path->file": (120, 450),
              "csv-route:file->path": (120, 450), "csv-route:file->file": (120, 450),
              "mrca-after-leafset-change:cut": (800, 2400), "mrca-after-leafset-change:graft": (1000, 3000),
              "mrca-argument:taxa:iterator": (7500, 35000), "mrca-argument:taxa:generator": (7500, 35000),
              "mrca-argument:taxa:dict-keys": (7500, 35000), "mrca-argument:taxon_labels:dict-keys": (7500, 35000),
              "mrca-argument:taxon_labels:other-case": (7000, 32000),
              "mrca-judged:absent-taxon:leafset_bitmask": (1500, 4500), "mrca-judged:rooting-unspecified": (15000, 45000),
              "workload:lengths-rescaled-by-2^40": (200, 750), "workload:lengths-rescaled-by-2^-40": (200, 750),
              "workload:negative-lengths": (250, 700), "workload:odd-labels": (600, 1800),
              "workload:ultrametric-with-zero-height-cherries": (150, 550),
              "workload:rooting-unspecified": (550, 1800)}
# (on the library as first found every Tree.mrca call with a one-shot iterable of LABELS raised - finding
#  Tree.mrca|raises-on-one-shot-iterable|taxon_labels|TypeError; the minima below presuppose the repaired Tree.mrca)
MIN_EVENTS.update({"mrca-argument:taxon_labels:iterator": (7500, 35000), "mrca-argument:taxon_labels:generator": (7500, 35000)})
ASSUMPTIONS = ["reference path lengths / edge counts / common ancestors come from a DendroPy-free spec read from the raw child lists "
               "(vf.bridge.extract) at the moment of each hooked call",
               "TaxonNamespace.taxon_bitmask is taken as the given taxon->bit assignment (its stability is C10)",
               "normalisation constants follow the library's documented conventions (Tree.length incl. root edge; one edge per node); "
               "normalised summaries are the raw summary divided by the constant",
               "float comparisons: exact when all lengths are integer multiples of one power of two, 1e-9 relative to the sum of "
               "|edge lengths| otherwise (no absolute floor); reconstruction lengths always 1e-9 relative to the largest distance",
               "CSV text is parsed with CPython's csv module under the requested delimiter; files are opened with newline='' by the harness",
               "a one-shot iterable handed to Tree.mrca stands for the taxa the driver declared through a side channel"]
CASE_TIMEOUT = 120

PATTERNS = ("none", "unit", "ints", "zeros", "dyadic", "float", "mixed_missing", "ultrametric", "ultrametric_float", "signed")
NSCFG = ("exact", "larger", "shuffled")


# =================================================================================================
class View(object):
    """DendroPy-free spec of a live tree at one quiescent point + the way back to live objects."""

    def __init__(self, tree):
        self.tree = tree
        self.spec, pairs = bridge.extract(tree, with_nodes=True)
        self.pairs = pairs
        self.live = bridge.node_map(pairs)
        self.taxon = {}
        self.problem = None
        for s, nd in pairs:
            if not s[3]:
                if nd.taxon is None:
                    self.problem = "leaf without taxon"
                elif s[0] in self.taxon:
                    self.problem = "taxon on two leaves"
                else:
                    self.taxon[s[0]] = nd.taxon
            elif nd.taxon is not None:
                self.problem = "taxon on an internal node"
        self.labels = sorted(self.taxon)
        self.n_nodes = len(pairs)
        self._lazy = {}

    def _get(self, name, fn):
        if name not in self._lazy:
            self._lazy[name] = fn()
        return self._lazy[name]

    @property
    def exact(self):
        return self._get("exact", lambda: U.is_exact_spec(self.spec))

    @property
    def total(self):
        return self._get("total", lambda: ref.total_length(self.spec, include_root_edge=True))

    @property
    def scale(self):
        """magnitude rounding errors are proportional to: sum of |edge length|"""
        return self._get("scale", lambda: U.abs_total(self.spec))

    def factor(self, weighted, norm):
        """documented normalisation constant (None: division by zero, not judged)."""
        if not norm:
            return 1.0
        return (self.total if weighted else float(self.n_nodes)) or None

    def vscale(self, weighted, norm):
        """magnitude of the entries under a setting (for relative comparison)."""
        if weighted:
            return self.scale / abs(self.total) if norm else self.scale
        return 1.0 if norm else float(self.n_nodes)


def encoding_is_current(tree, view):
    """'the bipartition encoding is current', decided without the library: every edge's stored leafset
    bitmask equals the OR of the namespace bits of the leaf taxa below it."""
    ns = tree.taxon_namespace
    bits = {}
    for lbl, t in view.taxon.items():
        bits[lbl] = ns.taxon_bitmask(t)
    for s, c in ref.clades(view.spec):
        nd = view.live[id(s)]
        b = nd._edge._bipartition if nd._edge is not None else None
        if b is None:
            return False
        m = 0
        for x in c:
            m |= bits[x]
        if b._leafset_bitmask != m:
            return False
    return True


ONE_SHOT = ("iterator", "generator")


class Monitor(object):
    def __init__(self, ctx, rng):
        self.ctx = ctx
        self.rng = rng
        self.expect = None          # set by the driver right before nj_tree / upgma_tree
        self.query = None           # set by the driver right before Tree.mrca: the taxa the argument stands for
        self.pair_cap = 700 if ctx.tier == "quick" else 2500

    def install(self, hooks):
        import dendropy
        from dendropy.calculate import phylogeneticdistance as pd, treemeasure
        P = pd.PhylogeneticDistanceMatrix
        hooks.install(P, "compile_from_tree", pre=self.pre_tree, post=self.post_pdm)
        hooks.install(pd.NodeDistanceMatrix, "compile_from_tree", pre=self.pre_tree, post=self.post_ndm)
        hooks.install(dendropy.Tree, "mrca", pre=self.pre_mrca, post=self.post_mrca)
        hooks.install(treemeasure, "patristic_distance", pre=self.pre_tm, post=self.post_tm)
        hooks.install(P, "nj_tree", post=self.post_nj)
        hooks.install(P, "upgma_tree", post=self.post_upgma)
        for name in ("patristic_distance", "path_edge_count", "mrca", "distance", "distances", "sum_of_distances",
                     "mean_pairwise_distance", "mean_nearest_taxon_distance", "write_csv", "from_csv"):
            hooks.install(P, name)          # event log (calls / returns / raises)

    # ------------------------------------------------------------------ matrices
    def pre_tree(self, obj, args, kw):
        tree = args[0] if args else kw.get("tree")
        try:
            return View(tree)
        except bridge.ExtractError:
            return None

    def post_pdm(self, view, pdm, args, kw, result, exc):
        ctx = self.ctx
        if view is None or view.problem:
            # the workload builds only admissible trees: this must not happen
            ctx.note("compile_from_tree-on-inadmissible-tree-not-judged")
            ctx.mark_inconclusive("a tree handed to PhylogeneticDistanceMatrix.compile_from_tree was not admissible (%s)" % (
                view.problem if view is not None else "child lists are not a tree"))
            return
        det = {"tree": ref.to_newick(view.spec)}
        if exc is not None:
            if not isinstance(exc, core.CaseTimeout):
                ctx.unexpected("compile_from_tree", exc, det)
            return
        judge_pdm(ctx, pdm, view, self.rng, self.pair_cap, det)

    def post_ndm(self, view, ndm, args, kw, result, exc):
        ctx = self.ctx
        if view is None:
            ctx.note("NodeDistanceMatrix.compile_from_tree-on-inadmissible-tree-not-judged")
            ctx.mark_inconclusive("a tree handed to NodeDistanceMatrix.compile_from_tree could not be read as a tree")
            return
        det = {"tree": ref.to_newick(view.spec)}
        if exc is not None:
            if not isinstance(exc, core.CaseTimeout):
                ctx.unexpected("NodeDistanceMatrix.compile_from_tree", exc, det)
            return
        nodes, chain = U.node_tables(view.spec)
        allp = len(nodes) * len(nodes)
        if allp <= self.pair_cap:
            pairs = [(a, b) for a in nodes for b in nodes]
        else:
            pairs = [(self.rng.choice(nodes), self.rng.choice(nodes)) for _ in range(self.pair_cap)]
        scale = view.scale
        for a, b in pairs:
            la, lb = view.live[id(a)], view.live[id(b)]
            L, E, N = U.node_pair(chain, a, b)
            ctx.ev("ndm-entry-judged")
            try:
                d = ndm.patristic_distance(la, lb)
                k = ndm.path_edge_count(la, lb)
                m = ndm.mrca(la, lb)
                d2 = ndm.distance(lb, la)
            except Exception as e:
                ctx.violation("ndm|entry-missing|%s" % type(e).__name__,
                              "NodeDistanceMatrix has no entry for a pair of nodes of its tree", det)
                return
            what = None
            if not U.same(d, L, view.exact, scale):
                what = ("ndm|path-length", "node distance %r, path on the tree %r" % (d, L))
            elif not U.same(d2, L, view.exact, scale):
                what = ("ndm|asymmetric", "distance(b,a) %r, path on the tree %r" % (d2, L))
            elif k != E or isinstance(k, bool):
                what = ("ndm|edge-count", "edge count %r, edges on the path %r" % (k, E))
            elif m is not view.live[id(N)]:
                what = ("ndm|mrca", "mrca is not the node where the path turns")
            if what:
                det2 = dict(det, a=_desc(a), b=_desc(b))
                ctx.violation(what[0], what[1], det2)
                return
        # the same two quantities through every accessor / option combination, on a few pairs of distinct nodes
        for _ in range(3):
            a, b = self.rng.choice(nodes), self.rng.choice(nodes)
            if a is b:
                continue
            L, E, N = U.node_pair(chain, a, b)
            bad = judge_option_product(ctx, ndm, view.live[id(a)], view.live[id(b)], L, E, view, "ndm", dict(det, a=_desc(a), b=_desc(b)))
            ctx.ev("ndm-accessor-judged")
            if bad:
                return

    # ------------------------------------------------------------------ Tree.mrca
    def pre_mrca(self, tree, args, kw):
        decl, self.query = self.query, None
        if args or "start_node" in kw:
            return None
        if "leafset_bitmask" in kw:
            route = "leafset_bitmask"
        elif kw.get("taxa") is not None:
            route = "taxa"
        elif "taxon_labels" in kw:
            route = "taxon_labels"
        else:
            return None
        ns = tree.taxon_namespace
        if decl is not None and decl["route"] == route:
            # the driver declared which taxa the argument stands for (one-shot iterables cannot be read twice)
            q = list(decl["taxa"])
            kind = decl["kind"]
        elif route == "taxa":
            q = kw["taxa"]
            if not isinstance(q, (list, tuple, set, frozenset)):
                return None
            kind = type(q).__name__
            q = list(q)
        elif route == "taxon_labels":
            labs = kw["taxon_labels"]
            if not isinstance(labs, (list, tuple)) or len(set(labs)) != len(labs):
                return None
            by = {}
            for t in ns:
                by.setdefault(t.label, []).append(t)
            if any(len(by.get(x, ())) != 1 for x in labs):
                return None
            kind = type(labs).__name__
            q = [by[x][0] for x in labs]
        else:
            mask = kw["leafset_bitmask"]
            q = []
            rest = mask
            for t in ns:
                b = ns.taxon_bitmask(t)
                if mask & b:
                    q.append(t)
                    rest &= ~b
            if rest or not isinstance(mask, int):
                return None
            kind = "int"
        if not q:
            return None
        try:
            view = View(tree)
        except bridge.ExtractError:
            return None
        if view.problem:
            return None
        refresh = not kw.get("is_bipartitions_updated", True)
        if refresh:
            mode = "refresh"
        elif encoding_is_current(tree, view):
            mode = "current"
        else:
            b = tree._seed_node._edge._bipartition
            mode = "never-encoded" if (b is None or not b._leafset_bitmask) else "stale"
        return {"route": route, "kind": kind, "q": q, "mode": mode, "before": ref.to_newick(view.spec), "rooted": tree._is_rooted}

    def post_mrca(self, snap, tree, args, kw, result, exc):
        ctx = self.ctx
        if snap is None:
            ctx.note("Tree.mrca-call-outside-judged-domain")
            return
        mode, route = snap["mode"], snap["route"]
        det = {"tree_before": snap["before"], "query": sorted(t.label for t in snap["q"]), "route": route, "mode": mode,
               "argument": snap["kind"], "rooted_flag": snap["rooted"]}
        judged = mode in ("refresh", "current")
        if exc is not None:
            if isinstance(exc, core.CaseTimeout):
                return
            if not judged:
                ctx.note("Tree.mrca-%s-default-raises" % mode)
            elif snap["kind"] in ONE_SHOT and core.raised_in_repo(exc):
                # own mechanism key: the query is given as a documented 'Iterable' that can be walked only once
                ctx.violation("Tree.mrca|raises-on-one-shot-iterable|%s|%s" % (route, type(exc).__name__),
                              "Tree.mrca(%s=<%s>) raised %s; the docstring admits any iterable" % (route, snap["kind"], core.exc_brief(exc)), det)
            else:
                ctx.unexpected("Tree.mrca", exc, det)
            return
        try:
            view = View(tree)
        except bridge.ExtractError as e:
            ctx.violation("Tree.mrca|malformed-tree", str(e), det)
            return
        det["tree_at_return"] = ref.to_newick(view.spec)
        on_tree = all(view.taxon.get(t.label) is t for t in snap["q"])
        if on_tree:
            want = U.deepest_containing(view.spec, [t.label for t in snap["q"]])
            want_live = view.live[id(want)]
        else:
            want, want_live = None, None
        ok = result is want_live
        if not judged:
            ctx.note("Tree.mrca-%s-default-%s" % (mode, "agrees" if ok else "disagrees"))
            return
        ctx.ev("mrca-judged")
        ctx.ev("mrca-judged:%s:%s" % (mode, route))
        ctx.ev("mrca-argument:%s:%s" % (route, snap["kind"]))
        if not on_tree:
            ctx.ev("mrca-judged:absent-taxon:%s" % route)
        if snap["rooted"] is None:
            ctx.ev("mrca-judged:rooting-unspecified")
        if ok:
            return
        if not on_tree:
            ctx.violation("Tree.mrca|taxon-not-on-tree-but-node-returned|%s|%s" % (route, mode),
                          "a queried taxon is on no leaf of the tree, yet a node was returned", det)
            return
        if result is None:
            got = None
        else:
            got = None
            for s, nd in view.pairs:
                if nd is result:
                    got = _desc(s)
            if got is None:
                got = "<node not in the tree>"
        det["returned"] = got
        det["deepest_common_ancestor"] = _desc(want)
        ctx.violation("Tree.mrca|not-the-deepest-common-ancestor|%s|%s" % (route, mode),
                      "returned node is not the deepest node whose leaves include the whole query", det)

    # ------------------------------------------------------------------ treemeasure.patristic_distance
    def pre_tm(self, obj, args, kw):
        if len(args) < 3:
            return None
        tree, t1, t2 = args[:3]
        try:
            view = View(tree)
        except bridge.ExtractError:
            return None
        if view.problem or view.taxon.get(t1.label) is not t1 or view.taxon.get(t2.label) is not t2:
            return None
        upd = kw.get("is_bipartitions_updated", args[3] if len(args) > 3 else False)
        if upd and not encoding_is_current(tree, view):
            return None
        want = 0 if t1 is t2 else U.pair_path(view.spec, t1.label, t2.label)[0]
        disc = "rooted" if tree._is_rooted else "unrooted"
        if not tree._is_rooted and len(view.spec[3]) == 2:
            a, b = view.spec[3]
            # which basal edge the refresh would merge into which (Tree.collapse_basal_bifurcation)
            if len(b[3]) >= 2:
                keep, dele = a, b
            elif len(a[3]) >= 2:
                keep, dele = b, a
            else:
                keep = dele = None
            if keep is not None and keep[2] is None and dele[2] is not None and not upd:
                disc = "unrooted-basal-bifurcation-with-one-missing-length"
        return {"want": want, "view": view, "disc": disc, "pair": [t1.label, t2.label], "refresh": not upd}

    def post_tm(self, snap, obj, args, kw, result, exc):
        ctx = self.ctx
        if snap is None:
            ctx.note("treemeasure.patristic_distance-call-outside-judged-domain")
            return
        view = snap["view"]
        det = {"tree": ref.to_newick(view.spec), "pair": snap["pair"], "refresh": snap["refresh"]}
        if exc is not None:
            if not isinstance(exc, core.CaseTimeout):
                ctx.unexpected("treemeasure.patristic_distance", exc, det)
            return
        ctx.ev("tm-judged")
        if not U.same(result, snap["want"], view.exact, view.scale):
            try:
                det["tree_at_return"] = ref.to_newick(bridge.extract(args[0]))
            except bridge.ExtractError:
                pass
            ctx.violation("treemeasure.patristic_distance|path-length|%s" % snap["disc"],
                          "returned %r, the path between the two leaves has length %r" % (result, snap["want"]), det)

    # ------------------------------------------------------------------ NJ / UPGMA
    def _post_cluster(self, op, rooted, pdm, result, exc):
        ctx = self.ctx
        exp, self.expect = self.expect, None
        if exp is None or exp["op"] != op:
            ctx.note("%s-without-declared-generating-tree-not-judged" % op)
            return
        S = exp["S"]
        judged = exp["judged"]
        wtag = "weighted" if exp["weighted"] else "steps"
        det = {"generating_tree": ref.to_newick(S), "input": exp["tag"], "distances": wtag}
        if exc is not None:
            if not isinstance(exc, core.CaseTimeout):
                ctx.unexpected(op, exc, det)
            return
        probs = arbor.check(result, iterators=False)
        if probs:
            ctx.violation("%s|malformed-tree" % op, "; ".join(probs), det)
            return
        try:
            R, rpairs = bridge.extract(result, with_nodes=True)
        except bridge.ExtractError as e:
            ctx.violation("%s|malformed-tree" % op, str(e), det)
            return
        det["result"] = ref.to_newick(R)
        bad = U.judge_reconstruction(S, R, rooted)
        if not judged:
            # input outside "positive internal edge lengths": recorded, never a verdict
            ctx.note("%s-on-degenerate-input-%s" % (op, "reproduces-the-tree" if not bad else "differs"))
        else:
            ctx.ev("nj-judged" if op == "nj_tree" else "upgma-judged")
            ctx.ev("cluster-judged:%s:%s" % (op, wtag))
            if bad:
                ctx.violation("%s|%s" % (op, bad[0]), bad[1], det)
        # the result is a tree over the matrix's taxa: same namespace object, the very Taxon objects of the matrix
        ctx.ev("cluster-identity-judged")
        identity_ok = True
        if result.taxon_namespace is not pdm.taxon_namespace:
            identity_ok = False
            ctx.violation("%s|result-namespace-is-not-the-matrix-namespace" % op,
                          "the tree returned does not live in the taxon namespace of the matrix it was built from", det)
        mapped = set(id(t) for t in pdm.taxon_iter())
        if any((not s[3]) and id(nd.taxon) not in mapped for s, nd in rpairs):
            identity_ok = False
            ctx.violation("%s|result-leaf-taxon-is-not-a-matrix-taxon" % op,
                          "a leaf of the tree returned carries a Taxon object that is not one of the matrix's taxa", det)
        # rooted tree (UPGMA) / unrooted tree (NJ)
        flag = result.is_rooted
        if rooted and flag is not True:
            ctx.violation("upgma_tree|result-not-rooted", "UPGMA tree has is_rooted = %r: its root is not part of the tree" % (flag,), det)
        elif not rooted and flag:
            ctx.violation("nj_tree|result-flagged-rooted", "NJ tree has is_rooted = %r although NJ determines no root" % (flag,), det)
        # ... and stays the generating tree when it is used: the first bipartition encoding must not change it
        if judged and not bad and identity_ok and exp.get("after_encode", True):
            try:
                result.encode_bipartitions()
            except core.CaseTimeout:
                raise
            except Exception as e:
                ctx.unexpected("%s-result.encode_bipartitions" % op, e, det)
                return
            try:
                R2 = bridge.extract(result)
            except bridge.ExtractError as e:
                ctx.violation("%s|after-encode|malformed-tree" % op, str(e), det)
                return
            ctx.ev("cluster-after-encode-judged")
            ctx.ev("cluster-after-encode-judged:%s" % op)
            bad2 = U.judge_reconstruction(S, R2, rooted)
            if bad2:
                ctx.violation("%s|after-encode|%s" % (op, bad2[0]),
                              "after result.encode_bipartitions(): " + bad2[1], dict(det, result_after_encode=ref.to_newick(R2)))

    def post_nj(self, snap, pdm, args, kw, result, exc):
        self._post_cluster("nj_tree", False, pdm, result, exc)

    def post_upgma(self, snap, pdm, args, kw, result, exc):
        self._post_cluster("upgma_tree", True, pdm, result, exc)


def judge_option_product(ctx, m, x, y, L, E, view, prefix, det):
    """every accessor of a distance matrix x every weighted / normalised combination its signature allows,
    for one pair (x, y) with oracle path length L and edge count E.  Returns True after a violation."""
    calls = [("__call__", "weighted", False, lambda: m(x, y))]
    for nm in (False, True):
        calls.append(("patristic_distance", "weighted", nm, lambda nm=nm: m.patristic_distance(x, y, is_normalize_by_tree_size=nm)))
        calls.append(("path_edge_count", "steps", nm, lambda nm=nm: m.path_edge_count(x, y, is_normalize_by_tree_size=nm)))
        for w in (True, False):
            calls.append(("distance", "weighted" if w else "steps", nm,
                          lambda w=w, nm=nm: m.distance(x, y, is_weighted_edge_distances=w, is_normalize_by_tree_size=nm)))
    for name, wt, nm, fn in calls:
        weighted = wt == "weighted"
        fac = view.factor(weighted, nm)
        if fac is None:
            ctx.note("normalisation-by-zero-tree-length-skipped")
            continue
        want = (L if weighted else E) / fac if nm else (L if weighted else E)
        tag = "%s|%s%s" % (name, wt, "|normalized" if nm else "")
        try:
            got = fn()
        except core.CaseTimeout:
            raise
        except Exception as e:
            ctx.violation("%s|accessor|raises|%s" % (prefix, type(e).__name__),
                          "%s raised %s for a pair of the tree" % (tag, core.exc_brief(e)), det)
            return True
        ctx.ev("accessor-option-judged")
        ex = (view.exact or not weighted) and not nm
        if not U.same(got, want, ex, view.vscale(weighted, nm)):
            ctx.violation("%s|accessor|%s" % (prefix, tag), "%s returned %r, oracle %r" % (tag, got, want), det)
            return True
    return False


def _desc(s):
    """JSON-able description of a spec node: the leaf taxa below it (+ depth marker for unary chains)."""
    lv = sorted(n[0] for n in ref.leaves(s) if n[0] is not None)
    return {"clade": lv if len(lv) <= 12 else lv[:12] + ["..."], "outdegree": len(s[3])}


# =================================================================================================
def judge_pdm(ctx, pdm, view, rng, cap, det):
    """oracle for a finished PhylogeneticDistanceMatrix of view's tree (public accessors only)."""
    labels = view.labels
    ctx.ev("pdm-identity-judged")
    if pdm.taxon_namespace is not view.tree.taxon_namespace:
        ctx.violation("pdm|namespace-is-not-the-tree-namespace",
                      "the matrix compiled from a tree does not refer to that tree's taxon namespace", det)
        return False
    mapped = set(pdm.taxon_iter())
    if len(labels) < 2:
        # no pair of leaf taxa: only "zero self-distance" can be asked, through the accessors
        ctx.note("matrix-of-a-tree-with-fewer-than-2-leaves")
        for a in labels:
            ta = view.taxon[a]
            ctx.ev("pdm-single-leaf-judged")
            try:
                d, k = pdm.patristic_distance(ta, ta), pdm.path_edge_count(ta, ta)
            except Exception as e:
                ctx.violation("pdm|entry-missing|%s" % type(e).__name__, "self distance of the only leaf taxon cannot be read", det)
                return False
            if d != 0 or k != 0 or isinstance(d, bool) or isinstance(k, bool):
                ctx.violation("pdm|self-distance-not-zero", "self distance %r / %r steps" % (d, k), det)
                return False
            if mapped != set(view.taxon.values()):
                ctx.note("single-leaf-tree-matrix-does-not-map-its-leaf-taxon")
        return True
    paths = ref.leaf_paths(view.spec)
    leafnode = U.leaf_by_label(view.spec)
    if mapped != set(view.taxon.values()):
        ctx.violation("pdm|mapped-taxa-are-not-the-leaf-taxa", "matrix maps %d taxa, tree has %d leaf taxa" % (len(mapped), len(labels)), det)
        return False
    try:
        if set(pdm) != mapped:
            ctx.note("pdm-iteration-differs-from-taxon_iter")
    except Exception as e:
        ctx.note("pdm-iteration-raises-%s" % type(e).__name__)
    if len(labels) ** 2 <= cap:
        pairs = [(a, b) for a in labels for b in labels]
    else:
        pairs = [(rng.choice(labels), rng.choice(labels)) for _ in range(cap)]
    scale = view.scale
    for a, b in pairs:
        ta, tb = view.taxon[a], view.taxon[b]
        if a == b:
            L, E, N = 0, 0, leafnode[a]
        else:
            L, E, N = paths[(a, b)]
        ctx.ev("pdm-entry-judged")
        try:
            d, k, m = pdm.patristic_distance(ta, tb), pdm.path_edge_count(ta, tb), pdm.mrca(ta, tb)
            d2, k2, m2 = pdm.patristic_distance(tb, ta), pdm.path_edge_count(tb, ta), pdm.mrca(tb, ta)
        except Exception as e:
            ctx.violation("pdm|entry-missing|%s" % type(e).__name__, "matrix has no entry for a pair of leaf taxa of its tree",
                          dict(det, pair=[a, b]))
            return False
        what = None
        if a == b and (d != 0 or k != 0):
            what = ("pdm|self-distance-not-zero", "self distance %r / %r steps" % (d, k))
        elif not U.same(d, L, view.exact, scale):
            what = ("pdm|path-length", "matrix says %r, the path on the tree has length %r" % (d, L))
        elif k != E or isinstance(k, bool):
            what = ("pdm|edge-count", "matrix says %r edges, the path on the tree has %r" % (k, E))
        elif m is not view.live[id(N)]:
            what = ("pdm|mrca", "matrix mrca is not the node where the path turns (%s)" % (_desc(N),))
        elif d2 != d or k2 != k or m2 is not m:
            what = ("pdm|asymmetric", "entry (a,b) = (%r, %r), entry (b,a) = (%r, %r)" % (d, k, d2, k2))
        if what:
            ctx.violation(what[0], what[1], dict(det, pair=[a, b]))
            return False
    # distances(): one value per unordered pair
    und = list(itertools.combinations(labels, 2))
    if len(und) > 4 * cap:
        ctx.note("distances-list-of-a-large-matrix-not-judged")
    else:
        for weighted in (True, False):
            for norm in (False, True):
                fac = view.factor(weighted, norm)
                if fac is None:
                    ctx.note("normalisation-by-zero-tree-length-skipped")
                    continue
                want = sorted(paths[p][0 if weighted else 1] / fac for p in und)
                try:
                    got = sorted(pdm.distances(is_weighted_edge_distances=weighted, is_normalize_by_tree_size=norm))
                except Exception as e:
                    ctx.unexpected("pdm.distances", e, det)
                    return False
                ctx.ev("pdm-distances-list-judged")
                ex = (view.exact or not weighted) and not norm
                vs = view.vscale(weighted, norm)
                if len(got) != len(want) or any(not U.same(x, y, ex, vs) for x, y in zip(got, want)):
                    ctx.violation("pdm|distances-list-is-not-the-entries|%s%s" % ("weighted" if weighted else "steps", "|normalized" if norm else ""),
                                  "distances() returned %d values %s..., one per unordered pair would be %d values %s..." % (
                                      len(got), got[:4], len(want), want[:4]), det)
                    return False
    return True


def oracle_tables(view, weighted):
    """raw entries {(a,b): path length | edge count} from the oracle."""
    paths = ref.leaf_paths(view.spec)
    return dict((k, v[0 if weighted else 1]) for k, v in paths.items())


def mpd(entries, subset):
    vals = [entries[p] for p in itertools.combinations(sorted(subset), 2)]
    return sum(vals) / len(vals)


def mntd(entries, subset):
    subset = sorted(subset)
    vals = [min(entries[(a, b)] for b in subset if b != a) for a in subset]
    return sum(vals) / len(vals)


def judge_summaries(ctx, pdm, taxon_of, entries_for, factor_for, labels, rng, exact, scale_for, det, prefix, settings, nfilters):
    """mean_pairwise_distance / mean_nearest_taxon_distance / sum_of_distances against the docstring formulas:
    the average of the (raw) entries, and with is_normalize_by_tree_size "the results are normalized", i.e. that
    average divided by the tree length / number of edges (the order matters for the nearest taxon when the tree
    length is negative).  taxon_of: label -> Taxon of *this* matrix; entries_for(weighted) -> raw oracle entries;
    factor_for(weighted, norm) -> divisor or None; scale_for(weighted, norm) -> magnitude of the results."""
    if len(labels) < 2:
        ctx.note("summaries-of-a-matrix-with-fewer-than-2-taxa-not-generated")
        return
    subsets = [None]
    for _ in range(nfilters):
        k = rng.randint(2, len(labels))
        subsets.append(frozenset(rng.sample(labels, k)))
    for weighted, norm in settings:
        fac = factor_for(weighted, norm)
        if fac is None:
            ctx.note("normalisation-by-zero-tree-length-skipped")
            continue
        entries = entries_for(weighted)
        tag = "%s%s" % ("weighted" if weighted else "steps", "|normalized" if norm else "")
        ex = exact and not norm
        scale = scale_for(weighted, norm)
        for sub in subsets:
            members = list(labels) if sub is None else sorted(sub)
            if sub is None:
                ff = None
            else:
                adm = set(taxon_of[x] for x in sub)
                ff = (lambda t, adm=adm: t in adm)
            for name, fn in (("mean_pairwise_distance", mpd), ("mean_nearest_taxon_distance", mntd)):
                want = fn(entries, members) / fac if norm else fn(entries, members)
                d2 = dict(det, filter=None if sub is None else members, setting=tag)
                try:
                    got = getattr(pdm, name)(filter_fn=ff, is_weighted_edge_distances=weighted, is_normalize_by_tree_size=norm)
                except core.CaseTimeout:
                    raise
                except Exception as e:
                    ctx.violation("%s|%s|raises|%s" % (prefix, name, type(e).__name__),
                                  "%s raised %s on a matrix with %d taxa" % (name, core.exc_brief(e), len(labels)), d2)
                    continue
                ctx.ev("summary-judged")
                if not U.same(got, want, ex, scale):
                    ctx.violation("%s|%s|not-the-stated-average|%s" % (prefix, name, tag),
                                  "%s returned %r, the stated average of the entries is %r" % (name, got, want), d2)
        want = sum(entries[p] for p in itertools.combinations(labels, 2))
        if norm:
            want = want / fac
        try:
            got = pdm.sum_of_distances(is_weighted_edge_distances=weighted, is_normalize_by_tree_size=norm)
        except core.CaseTimeout:
            raise
        except Exception as e:
            ctx.violation("%s|sum_of_distances|raises|%s" % (prefix, type(e).__name__), core.exc_brief(e), det)
            continue
        ctx.ev("summary-judged")
        if not U.same(got, want, False, scale * len(labels) ** 2):
            ctx.violation("%s|sum_of_distances|not-the-sum-of-entries|%s" % (prefix, tag),
                          "sum_of_distances returned %r, the entries sum to %r" % (got, want), det)


def judge_accessors(ctx, pdm, view, rng, det, npairs):
    """__call__ / distance / patristic_distance / path_edge_count under every weighted x normalised combination
    their signatures allow, on a sample of pairs (the hooks count these calls)."""
    labels = view.labels
    if len(labels) < 2:
        return
    paths = ref.leaf_paths(view.spec)
    for _ in range(npairs):
        a, b = rng.sample(labels, 2)
        ta, tb = view.taxon[a], view.taxon[b]
        L, E, N = paths[(a, b)]
        ctx.ev("accessor-judged")
        if judge_option_product(ctx, pdm, ta, tb, L, E, view, "pdm", dict(det, pair=[a, b])):
            return
        try:
            m = pdm.mrca(ta, tb)
        except core.CaseTimeout:
            raise
        except Exception as e:
            ctx.violation("pdm|accessor|raises|%s" % type(e).__name__, "mrca raised %s for a pair of leaf taxa of the tree" % core.exc_brief(e),
                          dict(det, pair=[a, b]))
            return
        if m is not view.live[id(N)]:
            ctx.violation("pdm|mrca", "matrix mrca is not the node where the path turns", dict(det, pair=[a, b]))
            return


# =================================================================================================
def make_ns(labels, cfg, rng):
    import dendropy
    labels = list(labels)
    if cfg == "exact":
        return dendropy.TaxonNamespace(labels)
    if cfg == "larger":
        h = len(labels) // 2
        return dendropy.TaxonNamespace(["X0"] + labels[:h] + ["X1", "X2"] + labels[h:] + ["X3"])
    if cfg == "shuffled":
        sh = labels[:]
        rng.shuffle(sh)
        return dendropy.TaxonNamespace(sh)
    raise ValueError(cfg)


def apply_pattern(spec, rng, pat):
    if pat == "ultrametric":
        gen.ultrametric_lengths(spec, rng, dyadic=True)
    elif pat == "ultrametric_float":
        gen.ultrametric_lengths(spec, rng, dyadic=False)
    elif pat == "signed":
        # negative lengths are lengths too (matrix / node matrix / patristic_distance / summaries are sign-agnostic);
        # ints or dyadic fractions, so every sum is exact
        dy = rng.random() < 0.5
        for n in ref.preorder(spec):
            if n is spec and rng.random() >= 0.2:
                n[2] = None
            else:
                n[2] = (rng.randint(-24, 40) / 8.0) if dy else rng.randint(-3, 5)
    else:
        gen.decorate_lengths(spec, rng, pat, root_length=(rng.random() < 0.2))
    return spec


def maybe_rescale(ctx, spec, rng, p=0.08):
    """the same tree in another unit: every length times 2**40 or 2**-40 (exactness is preserved)."""
    if rng.random() >= p:
        return spec
    f = rng.choice([2.0 ** 40, 2.0 ** -40])
    for n in ref.preorder(spec):
        if n[2] is not None:
            n[2] = n[2] * f
    ctx.ev("workload:lengths-rescaled-by-2^%d" % (40 if f > 1 else -40))
    return spec


def nj_admissible(spec):
    return len(ref.leaf_taxa(spec)) >= 2 and not U.has_negative(spec)


def upgma_admissible(spec):
    return len(ref.leaf_taxa(spec)) >= 2 and not U.has_negative(spec) and U.is_ultrametric(spec)


def do_nj(ctx, mon, pdm, E, tag, weighted=True, after_encode=True):
    """E: the tree whose path lengths are the matrix's distances (weighted=False: the library is asked to use
    the edge counts instead = path lengths of E with unit lengths).  A verdict only when E has positive internal
    edge lengths (the statement's proviso); otherwise the outcome is recorded."""
    if not weighted:
        E = U.unit_copy(E)
    mon.expect = {"op": "nj_tree", "S": E, "tag": tag, "weighted": weighted, "judged": U.positive_internal(E),
                  "after_encode": after_encode}
    try:
        if weighted:
            return pdm.nj_tree()
        return pdm.nj_tree(is_weighted_edge_distances=False)
    except core.CaseTimeout:
        raise
    except Exception:
        return None        # reported by the hook
    finally:
        mon.expect = None


def do_upgma(ctx, mon, pdm, E, tag, weighted=True):
    """E ultrametric (weighted=False: E with unit lengths must be: all leaves equally many edges below the root)."""
    if not weighted:
        E = U.unit_copy(E)
    mon.expect = {"op": "upgma_tree", "S": E, "tag": tag, "weighted": weighted, "judged": True}
    try:
        if weighted:
            return pdm.upgma_tree()
        return pdm.upgma_tree(is_weighted_edge_distances=False)
    except core.CaseTimeout:
        raise
    except Exception:
        return None
    finally:
        mon.expect = None


def cluster_battery(ctx, mon, pdm, spec, rng, parts, tag, p_steps):
    """NJ / UPGMA from a matrix compiled from a tree: patristic distances and, as the other value of the
    is_weighted_edge_distances option, edge counts."""
    n = len(ref.leaf_taxa(spec))
    if n < 2:
        return
    if "nj" in parts:
        if nj_admissible(spec):
            do_nj(ctx, mon, pdm, spec, tag, after_encode=rng.random() < 0.5)
        if rng.random() < p_steps:
            do_nj(ctx, mon, pdm, spec, "edge counts of the tree", weighted=False, after_encode=rng.random() < 0.5)
    if "upgma" in parts:
        if upgma_admissible(spec):
            do_upgma(ctx, mon, pdm, spec, tag)
        if U.is_ultrametric(U.unit_copy(spec)):
            do_upgma(ctx, mon, pdm, spec, "edge counts of the tree", weighted=False)


# ------------------------------------------------------------------------------------------------- CSV
IO_KINDS = ("stringio", "path", "file")
IO_MOSTLY_MEMORY = ("stringio", "stringio", "stringio", "path", "file")     # outside the CSV cases
IO_COMBOS = [(a, b) for a in IO_KINDS for b in IO_KINDS]
CSV_VARIANTS = ("plain", "normalized", "steps", "tab", "semicolon", "rownames-only", "colnames-only")


_SCRATCH = {"dir": None, "n": 0}


def _scratch_file():
    """a fresh file name inside this process's scratch directory (tempfile.mkdtemp, removed by shard_teardown / at exit)."""
    if _SCRATCH["dir"] is None or not os.path.isdir(_SCRATCH["dir"]):
        _SCRATCH["dir"] = tempfile.mkdtemp(prefix="vf-c14-")
        atexit.register(shutil.rmtree, _SCRATCH["dir"], True)
    _SCRATCH["n"] += 1
    return os.path.join(_SCRATCH["dir"], "t%d.csv" % _SCRATCH["n"])


def shard_teardown(ctx):
    if _SCRATCH["dir"] is not None:
        shutil.rmtree(_SCRATCH["dir"], ignore_errors=True)
        _SCRATCH["dir"] = None


def _unlink(path):
    try:
        os.unlink(path)
    except OSError:
        pass


def _csv_write(ctx, pdm, sink, wkw, det):
    """write_csv into a text buffer / a path / an open text file; returns the text written (None: failed, reported)."""
    if sink == "stringio":
        buf = io.StringIO(newline="")
        ok, r = core.call(ctx, "write_csv[to text buffer]", pdm.write_csv, buf, detail=det, **wkw)
        return buf.getvalue() if ok else None
    path = _scratch_file()
    try:
        if sink == "path":
            ok, r = core.call(ctx, "write_csv[to path]", pdm.write_csv, path, detail=det, **wkw)
        else:
            with open(path, "w", newline="") as f:
                ok, r = core.call(ctx, "write_csv[to open file]", pdm.write_csv, f, detail=det, **wkw)
        if not ok:
            return None
        with open(path, newline="") as f:
            return f.read()
    finally:
        _unlink(path)


def _csv_read(ctx, text, source, kw, det):
    """from_csv from a text buffer / a path / an open text file holding exactly ``text``."""
    import dendropy
    P = dendropy.PhylogeneticDistanceMatrix
    if source == "stringio":
        return core.call(ctx, "from_csv[text buffer]", P.from_csv, io.StringIO(text, newline=""), detail=det, **kw)
    path = _scratch_file()
    try:
        with open(path, "w", newline="") as f:
            f.write(text)
        if source == "path":
            return core.call(ctx, "from_csv[path]", P.from_csv, path, detail=det, **kw)
        with open(path, newline="") as f:
            return core.call(ctx, "from_csv[open file]", P.from_csv, f, detail=det, **kw)
    finally:
        _unlink(path)


def judge_read_matrix(ctx, p2, labels, table, given_ns, taxon_of, exact, scale, det, prefix, tag):
    """a matrix read from a table: its taxa are the table's labels (the given namespace's own Taxon objects when one
    was given) and every entry - both orders, diagonal included - is the table's.  Returns label -> Taxon or None."""
    if given_ns is not None:
        ctx.ev("csv-namespace-identity-judged")
        if p2.taxon_namespace is not given_ns:
            ctx.violation("%s|namespace-is-not-the-one-given" % prefix, "from_csv(taxon_namespace=ns) returned a matrix over another namespace", det)
            return None
    tx2 = dict((t.label, t) for t in p2.taxon_iter())
    if sorted(tx2) != labels or (given_ns is not None and any(tx2[x] is not taxon_of[x] for x in labels)):
        ctx.violation("%s|taxa-differ" % prefix, "matrix read maps %r, the table lists %r" % (sorted(tx2)[:8], labels[:8]), det)
        return None
    for a in labels:
        for b in labels:
            ctx.ev("csv-entry-judged")
            try:
                got = p2.patristic_distance(tx2[a], tx2[b])
            except Exception as e:
                ctx.violation("%s|entry-missing|%s" % (prefix, type(e).__name__), "no entry for a pair of taxa of the table", dict(det, pair=[a, b]))
                return None
            if not U.same(got, table[(a, b)], exact, scale):
                ctx.violation(tag, "entry read %r, the table says %r" % (got, table[(a, b)]), dict(det, pair=[a, b]))
                return None
    return tx2


def csv_roundtrip(ctx, mon, pdm, view, rng, variant, det, cluster=True, io_combo=None, harness=True):
    """write_csv -> text (judged cell by cell) -> from_csv (judged entry by entry); sink and source are independent
    dimensions (text buffer / path / open file); from_csv is also fed a table the harness wrote from the oracle;
    then the matrix read back is used like any other (summaries, second write, NJ / UPGMA)."""
    labels = view.labels
    if len(labels) < 2:
        ctx.note("csv-of-a-matrix-with-fewer-than-2-taxa-not-generated")
        return
    if variant == "path":                     # older descriptors
        variant, io_combo = "plain", ("path", "path")
    sink, source = io_combo or (rng.choice(IO_MOSTLY_MEMORY), rng.choice(IO_MOSTLY_MEMORY))
    paths = ref.leaf_paths(view.spec)
    weighted = variant != "steps"
    norm = variant == "normalized"
    fac = view.factor(weighted, norm)
    if fac is None:
        ctx.note("normalisation-by-zero-tree-length-skipped")
        return
    wkw = {}
    rkw = {}
    if variant == "tab":
        wkw["delimiter"] = rkw["delimiter"] = "\t"
    elif variant == "semicolon":
        wkw["delimiter"] = rkw["delimiter"] = ";"
    elif variant == "rownames-only":
        wkw["is_first_row_column_names"] = rkw["is_first_row_column_names"] = False
    elif variant == "colnames-only":
        wkw["is_first_column_row_names"] = rkw["is_first_column_row_names"] = False
    if variant != "normalized":            # "normalized" uses write_csv's defaults
        wkw["is_normalize_by_tree_size"] = False
    if not weighted:
        wkw["is_weighted_edge_distances"] = False
    delim = wkw.get("delimiter", ",")
    header = wkw.get("is_first_row_column_names", True)
    rownames = wkw.get("is_first_column_row_names", True)
    det = dict(det, csv_variant=variant, sink=sink, source=source)
    table = C.oracle_table(paths, labels, weighted, fac)
    ex = (view.exact or not weighted) and not norm
    scale = view.vscale(weighted, norm)
    tag = "%s%s" % ("weighted" if weighted else "steps", "|normalized" if norm else "")
    text = _csv_write(ctx, pdm, sink, wkw, det)
    if text is None:
        return
    ctx.ev("csv-route:%s->%s" % (sink, source))
    if not C.judge_text(ctx, text, labels, table, header, rownames, delim, "delimiter" in wkw, ex, scale, tag, det):
        return
    same_ns = rng.random() < 0.5
    kw = dict(rkw)
    if same_ns:
        kw["taxon_namespace"] = pdm.taxon_namespace
    ok, p2 = _csv_read(ctx, text, source, kw, det)
    if not ok:
        return
    tx2 = judge_read_matrix(ctx, p2, labels, table, pdm.taxon_namespace if same_ns else None, view.taxon, ex, scale, det,
                            "from_csv", "csv|roundtrip-entry-differs|%s" % variant)
    if tx2 is None:
        return
    if harness:
        # the reader on its own: a table written by the harness (CPython csv.writer) from the oracle, rows in another order
        order = labels[:]
        rng.shuffle(order)
        text_h = C.harness_table(order, table, delim, header, rownames)
        src_h = rng.choice(IO_KINDS if io_combo else IO_MOSTLY_MEMORY)
        same_h = rng.random() < 0.5
        kw_h = dict(rkw)
        if same_h:
            kw_h["taxon_namespace"] = pdm.taxon_namespace
        det_h = dict(det, source=src_h, table="written by the harness")
        ok, p4 = _csv_read(ctx, text_h, src_h, kw_h, det_h)
        if ok:
            ctx.ev("csv-harness-table-judged")
            ctx.ev("csv-harness-table-source:%s" % src_h)
            judge_read_matrix(ctx, p4, labels, table, pdm.taxon_namespace if same_h else None, view.taxon, ex, scale, det_h,
                              "from_csv|harness-table", "from_csv|harness-table|entry-differs|%s" % variant)
    want = dict((k, v) for k, v in table.items() if k[0] != k[1])
    # the matrix read back must be usable like the original: summaries over its entries, a second write
    judge_summaries(ctx, p2, tx2, lambda wgt: want, lambda wgt, nrm: 1.0, labels, rng, ex, lambda wgt, nrm: scale, det, "csv-matrix",
                    [(True, False)], 3)
    try:
        got = sorted(p2.distances())
    except Exception as e:
        ctx.unexpected("csv-matrix.distances", e, det)
        got = None
    if got is not None:
        ws = sorted(want[p] for p in itertools.combinations(labels, 2))
        ctx.ev("summary-judged")
        if len(got) != len(ws) or any(not U.same(x, y, ex, scale) for x, y in zip(got, ws)):
            ctx.violation("csv-matrix|distances-list-is-not-the-entries",
                          "distances() of the matrix read back returned %d values, it has %d distinct pairs" % (len(got), len(ws)), det)
    buf2 = io.StringIO(newline="")
    try:
        p2.write_csv(buf2, is_normalize_by_tree_size=False)
        text2 = buf2.getvalue()
    except core.CaseTimeout:
        raise
    except Exception as e:
        # not a clause of the statement by itself: reported as what it is, an exception of a driven operation
        ctx.unexpected("csv-matrix.write_csv", e, det)
        text2 = None
    if text2 is not None:
        ok, p3 = _csv_read(ctx, text2, "stringio", {}, det)
        if ok:
            tx3 = dict((t.label, t) for t in p3.taxon_iter())
            ctx.ev("csv-second-generation-judged")
            for a, b in itertools.combinations(labels, 2):
                if sorted(tx3) != labels or not U.same(p3.patristic_distance(tx3[a], tx3[b]), want[(a, b)], ex, scale):
                    ctx.violation("csv|second-generation-entry-differs", "entry differs after two round trips", dict(det, pair=[a, b]))
                    break
    if cluster:
        # NJ / UPGMA from the matrix read back: it holds the distances of S, of S with unit lengths ("steps"),
        # or of S in the unit 'tree length' ("normalized")
        E = None
        if variant == "steps":
            E = U.unit_copy(view.spec)
        elif not U.has_negative(view.spec):
            E = U.scaled_copy(view.spec, 1.0 / fac) if norm else view.spec
        if E is None:
            ctx.note("csv-matrix-of-a-tree-with-negative-lengths-not-clustered")
            return
        tagc = "matrix read back from CSV (%s)" % variant
        if nj_admissible(E):
            do_nj(ctx, mon, p2, E, tagc, after_encode=rng.random() < 0.5)
            ctx.ev("cluster-from-csv-matrix:%s" % ("steps" if variant == "steps" else "normalized" if norm else "raw"))
        if upgma_admissible(E):
            do_upgma(ctx, mon, p2, E, tagc)


# ------------------------------------------------------------------------------------------------- mrca workload
def subsets_for(view, rng, exhaustive, k):
    labels = view.labels
    if exhaustive and len(labels) <= 5:
        out = []
        for r in range(1, len(labels) + 1):
            out.extend(itertools.combinations(labels, r))
        return [list(x) for x in out]
    out = [list(labels), [rng.choice(labels)]]
    clades = [sorted(c) for _, c in ref.clades(view.spec) if len(c) >= 2]
    for _ in range(k):
        mode = rng.random()
        if mode < 0.35 and len(labels) >= 2:
            out.append(rng.sample(labels, 2))
        elif mode < 0.7 and clades:
            c = rng.choice(clades)
            out.append(rng.sample(c, rng.randint(2, len(c))))
        else:
            out.append(rng.sample(labels, rng.randint(1, len(labels))))
    return out


TAXA_KINDS = ("list", "list", "tuple", "set", "frozenset", "iterator", "generator", "dict-keys")
LABEL_KINDS = ("list", "list", "tuple", "set", "iterator", "generator", "dict-keys", "other-case")


def _container(kind, items):
    items = list(items)
    if kind in ("list", "other-case"):
        return items
    if kind == "tuple":
        return tuple(items)
    if kind == "set":
        return set(items)
    if kind == "frozenset":
        return frozenset(items)
    if kind == "iterator":
        return iter(items)
    if kind == "generator":
        return (x for x in items)
    if kind == "dict-keys":
        return dict.fromkeys(items).keys()
    raise ValueError(kind)


def _other_case(ns, labels):
    """the same labels in the other case, when the namespace matches labels case-insensitively (its default)
    and that is unambiguous; None otherwise."""
    if getattr(ns, "is_case_sensitive", True):
        return None
    out = [x.swapcase() for x in labels]
    if any((not x.isascii()) or y == x for x, y in zip(labels, out)):
        return None
    return out


def mrca_call(mon, tree, route, taxa, kind, kw):
    """one Tree.mrca call; the hook judges, the side channel tells it which taxa the argument stands for."""
    ns = tree.taxon_namespace
    if route == "taxa":
        arg = {"taxa": _container(kind, taxa)}
    elif route == "taxon_labels":
        labs = [t.label for t in taxa]
        if kind == "other-case":
            alt = _other_case(ns, labs)
            if alt is None:
                kind = "list"
            else:
                labs = alt
        arg = {"taxon_labels": _container(kind, labs)}
    else:
        m = 0
        for t in taxa:
            m |= ns.taxon_bitmask(t)
        arg = {"leafset_bitmask": m}
        kind = "int"
    mon.query = {"route": route, "taxa": list(taxa), "kind": kind}
    try:
        tree.mrca(**dict(arg, **kw))
    except core.CaseTimeout:
        raise
    except Exception:
        pass      # reported by the hook (every call made here is inside the judged domain)
    finally:
        mon.query = None


ROUTES = ("taxa", "taxon_labels", "leafset_bitmask")


def mrca_queries(ctx, mon, tree, view, rng, exhaustive, k, refresh, absent=True):
    """issue Tree.mrca through the three routes and every kind of argument; the hook judges."""
    ns = tree.taxon_namespace
    kw = {"is_bipartitions_updated": False} if refresh else {}
    if refresh == "explicit-true":
        kw = {"is_bipartitions_updated": True}
    for q in subsets_for(view, rng, exhaustive, k):
        rng.shuffle(q)
        taxa = [view.taxon[x] for x in q]
        routes = ROUTES if exhaustive else (rng.choice(ROUTES),)
        for route in routes:
            kind = rng.choice(TAXA_KINDS if route == "taxa" else LABEL_KINDS)
            mrca_call(mon, tree, route, taxa, kind, kw)
    if absent:
        extra = [t for t in ns if view.taxon.get(t.label) is not t]
        if extra:
            x = rng.choice(extra)
            q = [view.taxon[l] for l in rng.sample(view.labels, min(len(view.labels), rng.randint(0, 2)))] + [x]
            route = rng.choice(ROUTES)
            mrca_call(mon, tree, route, q, rng.choice(TAXA_KINDS if route == "taxa" else LABEL_KINDS), kw)


def live_spr(tree, rng):
    """prune-and-regraft on the live tree through the node API, leaving any bipartition encoding stale."""
    spec, pairs = bridge.extract(tree, with_nodes=True)
    nodes = [nd for s, nd in pairs]
    if len(nodes) < 4:
        return False
    for _ in range(20):
        x = rng.choice(nodes[1:])
        p = x._parent_node
        if len(p._child_nodes) < 2:
            continue
        below = set()
        stack = [x]
        while stack:
            n = stack.pop()
            below.add(id(n))
            stack.extend(n._child_nodes)
        targets = [n for n in nodes if id(n) not in below and n is not p and n._child_nodes]
        if not targets:
            continue
        p.remove_child(x)
        rng.choice(targets).add_child(x)
        return True
    return False


def live_leafset_change(tree, rng):
    """change the LEAF SET of the live tree through the node API (any bipartition encoding becomes stale and
    refers to another set of taxa): cut a leaf off, or hang a new leaf carrying a taxon that was not on the tree."""
    import dendropy
    spec, pairs = bridge.extract(tree, with_nodes=True)
    ns = tree.taxon_namespace
    on = set(id(nd.taxon) for s, nd in pairs if nd.taxon is not None)
    nleaves = sum(1 for s, nd in pairs if not s[3])
    cut = [nd for s, nd in pairs if not s[3] and nd._parent_node is not None and len(nd._parent_node._child_nodes) >= 2]
    internal = [nd for s, nd in pairs if s[3]]
    if rng.random() < 0.5 and cut and nleaves >= 3:
        x = rng.choice(cut)
        x._parent_node.remove_child(x)
        return "cut"
    if internal:
        spare = [t for t in ns if id(t) not in on]
        t = rng.choice(spare) if spare else ns.new_taxon(label="Ygraft%d" % len(ns))
        rng.choice(internal).add_child(dendropy.Node(taxon=t, edge_length=rng.choice([None, 1, 2.5])))
        return "graft"
    return None


def _encode(ctx, t, **flags):
    """encode_bipartitions as a step of the history; a failure is not a clause of this property but the clauses that
    depend on it cannot be decided: recorded and the case marked."""
    try:
        t.encode_bipartitions(**flags)
        return True
    except core.CaseTimeout:
        raise
    except Exception as e:
        ctx.note("encode_bipartitions-raised-%s" % type(e).__name__)
        ctx.mark_inconclusive("encode_bipartitions(%s) raised %s on a well-formed tree: common-ancestor clauses on a current "
                              "encoding not decided for this tree" % (sorted(flags), core.exc_brief(e)))
        return False


# ------------------------------------------------------------------------------------------------- one tree, full battery
def run_tree(ctx, mon, spec, rooted, rng, nscfg, exhaustive, parts, label):
    import dendropy
    from dendropy.calculate import treemeasure
    from dendropy.calculate import phylogeneticdistance as pd
    labels = sorted(ref.leaf_taxa(spec))
    n = len(labels)
    det = {"tree": ref.to_newick(spec), "rooted_flag": rooted, "namespace": nscfg}
    if n >= 3 and any(nd[3] and nd is not spec for nd in ref.preorder(spec)):
        ctx.nontrivial((label, ref.canon(spec), rooted, nscfg, sorted(parts)))
    if rooted is None:
        ctx.ev("workload:rooting-unspecified")
    if U.has_negative(spec):
        ctx.ev("workload:negative-lengths")

    def fresh():
        return bridge.build_tree(spec, make_ns(labels, nscfg, random.Random(7)), rooted)

    tree = fresh()
    view = View(tree)
    # ---- 1. the matrix (hook judges every entry) + accessors + summaries
    if "pdm" in parts:
        try:
            if rng.random() < 0.25:
                pdm = tree.phylogenetic_distance_matrix(is_store_path_edges=True)
                note_path_edges(ctx, pdm, view, rng)
            elif rng.random() < 0.3:
                pdm = dendropy.PhylogeneticDistanceMatrix.from_tree(tree)
            elif rng.random() < 0.1:
                pdm = treemeasure.PatristicDistanceMatrix(tree)       # deprecated alias, same compile_from_tree
            else:
                pdm = tree.phylogenetic_distance_matrix()
        except core.CaseTimeout:
            raise
        except Exception:
            pdm = None        # reported by the hook
        if pdm is not None and n >= 2:
            judge_accessors(ctx, pdm, view, rng, det, 4 if exhaustive else 6)
            judge_summaries(ctx, pdm, view.taxon, lambda w: oracle_tables(view, w), view.factor, view.labels, rng, view.exact,
                            view.vscale, det, "pdm", [(True, False), (False, False), (True, True), (False, True)],
                            3 if exhaustive else 2)
            cluster_battery(ctx, mon, pdm, spec, rng, parts, "matrix of the tree", 1.0 if exhaustive else 0.3)
            if "csv" in parts:
                combos = parts.get("csv_io")
                for i, variant in enumerate(parts["csv"]):
                    csv_roundtrip(ctx, mon, pdm, view, rng, variant, det,
                                  io_combo=tuple(combos[i % len(combos)]) if combos else None)
            if n >= 3 and rng.random() < (0.5 if exhaustive else 0.3):
                # re-compile the SAME matrix object from another tree over the same namespace: nothing of the
                # first tree may survive (the hook judges the mapped taxa and every entry against the new tree)
                keep = rng.sample(labels, rng.randint(2, n - 1))
                t2 = bridge.build_tree(ref.induced(spec, keep, suppress=rng.random() < 0.5), tree.taxon_namespace, rooted)
                order = [(t2, "shrunk")]
                if rng.random() < 0.5:
                    order.append((tree, "grown-back"))        # ... and back to the larger leaf set
                for tgt, how in order:
                    try:
                        pdm.compile_from_tree(tgt)
                        ctx.ev("matrix-recompiled-from-another-tree")
                    except core.CaseTimeout:
                        raise
                    except Exception:
                        break     # reported by the hook
                    # the object was queried (accessors, summaries, clusterings) under the previous compilation:
                    # whatever those calls remembered must not answer for the new one
                    v2 = View(tgt)
                    if len(v2.labels) >= 2:
                        d2 = dict(det, recompiled=how, recompiled_from=v2.labels)
                        judge_accessors(ctx, pdm, v2, rng, d2, 2)
                        judge_summaries(ctx, pdm, v2.taxon, lambda w, v2=v2: oracle_tables(v2, w), v2.factor, v2.labels, rng,
                                        v2.exact, v2.vscale, d2, "pdm|recompiled-object",
                                        [(True, False), (False, False), (True, True), (False, True)], 1)
                        ctx.ev("recompiled-matrix-requeried")
    # ---- 2. node distance matrix (both constructors)
    if "ndm" in parts:
        try:
            if rng.random() < 0.5:
                tree.node_distance_matrix()
            else:
                pd.NodeDistanceMatrix.from_tree(tree)
        except core.CaseTimeout:
            raise
        except Exception:
            pass              # reported by the hook
    # ---- 3. common ancestors: refresh on a never-encoded tree, then current encodings, then stale + refresh
    if "mrca" in parts and n >= 1:
        k = 8 if ctx.tier == "quick" else 14
        t = fresh()
        mrca_queries(ctx, mon, t, View(t), rng, exhaustive, k, refresh=True)
        t = fresh()
        mrca_queries(ctx, mon, t, View(t), rng, False, 2, refresh=False, absent=False)     # never encoded, default: recorded only
        for flags in ({}, {"suppress_unifurcations": False, "collapse_unrooted_basal_bifurcation": False},
                      {"suppress_unifurcations": False}):
            if not exhaustive and rng.random() < 0.5:
                continue
            t = fresh()
            if not _encode(ctx, t, **flags):
                continue
            mrca_queries(ctx, mon, t, View(t), rng, exhaustive, k, refresh=rng.choice([False, False, "explicit-true"]))
            if live_spr(t, rng):
                v2 = View(t)
                mrca_queries(ctx, mon, t, v2, rng, False, 2, refresh=False, absent=False)  # stale, default: recorded only
                mrca_queries(ctx, mon, t, v2, rng, False, k, refresh=True)
                # the matrix of the mutated tree (hook re-extracts): hidden state must not leak into it
                if rng.random() < 0.5:
                    try:
                        t.phylogenetic_distance_matrix()
                    except core.CaseTimeout:
                        raise
                    except Exception:
                        pass
            if rng.random() < 0.4:
                # the leaf set itself changes under a (now stale) encoding; a refresh must bring the answer back
                how = live_leafset_change(t, rng)
                if how:
                    v3 = View(t)
                    if v3.problem:
                        ctx.mark_inconclusive("harness: leaf-set change left an inadmissible tree (%s)" % v3.problem)
                    else:
                        ctx.ev("mrca-after-leafset-change:%s" % how)
                        mrca_queries(ctx, mon, t, v3, rng, False, 2, refresh=False, absent=False)   # stale, default: recorded only
                        mrca_queries(ctx, mon, t, v3, rng, False, k // 2, refresh=True)
    # ---- 4. treemeasure.patristic_distance (mutates unrooted trees: fresh tree per group of calls)
    if "tm" in parts and n >= 1:
        t = fresh()
        v = View(t)
        prs = list(itertools.combinations(labels, 2))
        if not exhaustive and len(prs) > 6:
            prs = rng.sample(prs, 6)
        prs.append((labels[0], labels[0]))
        for i, (a, b) in enumerate(prs):
            if exhaustive and i and not rooted:
                t = fresh()             # the refresh restructures unrooted trees; every pair also sees the original
                v = View(t)
            try:
                treemeasure.patristic_distance(t, v.taxon[a], v.taxon[b])
            except core.CaseTimeout:
                raise
            except Exception:
                pass          # reported by the hook
        t = fresh()
        if _encode(ctx, t, suppress_unifurcations=False):
            v = View(t)
            for a, b in prs[:4]:
                if a in v.taxon and b in v.taxon:
                    try:
                        treemeasure.patristic_distance(t, v.taxon[a], v.taxon[b], is_bipartitions_updated=True)
                    except core.CaseTimeout:
                        raise
                    except Exception:
                        pass


def note_path_edges(ctx, pdm, view, rng):
    """recorded, not judged: stored path edges add up to the distance."""
    if len(view.labels) < 2:
        return
    a, b = rng.sample(view.labels, 2)
    try:
        es = pdm.path_edges(view.taxon[a], view.taxon[b])
        L, E, N = ref.leaf_paths(view.spec)[(a, b)]
        ok = len(es) == E and U.close(sum((e.length or 0) for e in es), L, view.scale)
        ctx.note("path_edges-%s" % ("consistent" if ok else "inconsistent"))
    except Exception as e:
        ctx.note("path_edges-raised-%s" % type(e).__name__)


# =================================================================================================
def _lf(taxon, length=None):
    return [taxon, None, length, []]


def _nd(children, length=None):
    return [None, None, length, children]


DIRECTED = [
    # smallest witnesses of the mechanisms found on the unchanged tree (always first)
    {"kind": "spec", "name": "tm-unrooted-basal-bifurcation-missing-length",
     "spec": _nd([_nd([_lf("a", 1), _lf("b", 1)], None), _nd([_lf("c", 1), _lf("d", 1)], 3)]), "rooted": False, "parts": ["tm", "pdm", "mrca"]},
    {"kind": "spec", "name": "csv-delimiter", "spec": _nd([_lf("a", 1), _lf("b", 2), _lf("c", 4)]), "rooted": True,
     "parts": ["pdm"], "csv": ["tab", "semicolon"]},
    {"kind": "spec", "name": "csv-matrix-usable", "spec": _nd([_nd([_lf("a", 1), _lf("b", 1)], 2), _nd([_lf("c", 1), _lf("d", 1)], 2)]),
     "rooted": True, "parts": ["pdm", "nj", "upgma"], "csv": ["plain", "path"]},
    # sanity anchors
    {"kind": "spec", "name": "quartet-nj", "spec": _nd([_nd([_lf("a", 1), _lf("b", 2)], 3), _lf("c", 4), _lf("d", 5)]), "rooted": False,
     "parts": ["pdm", "nj", "ndm", "mrca", "tm"], "csv": ["plain", "normalized", "steps"]},
    {"kind": "spec", "name": "unary-chain", "spec": _nd([_nd([_nd([_lf("a", 1)], 2), _lf("b", 2)], 1), _nd([_lf("c", 4)], None)]), "rooted": True,
     "parts": ["pdm", "nj", "ndm", "mrca", "tm"], "csv": ["plain"]},
    # every leaf two edges below the root, lengths not clock-like: UPGMA on the EDGE COUNTS must give the tree with unit
    # lengths (on the patristic distances it is outside the statement and is not called)
    {"kind": "spec", "name": "upgma-on-edge-counts", "spec": _nd([_nd([_lf("a", 1), _lf("b", 3)], 2), _nd([_lf("c", 2), _lf("d", 5)], 1)]),
     "rooted": True, "parts": ["pdm", "nj", "upgma"]},
    # labels that a delimited table must quote, through every sink x source combination
    {"kind": "spec", "name": "csv-labels-and-routes",
     "spec": _nd([_nd([_lf("a,b", 1), _lf("c;d", 2)], 1), _lf("i\nj", 4), _lf("\"q", 3), _lf("e\tf", 2)]), "rooted": True,
     "parts": ["pdm"], "csv": ["plain", "semicolon", "tab", "plain", "rownames-only", "colnames-only", "plain", "steps", "normalized"],
     "csv_io": [list(x) for x in IO_COMBOS]},
    {"kind": "spec", "name": "negative-lengths", "spec": _nd([_nd([_lf("a", -1), _lf("b", 2)], -2), _lf("c", 3), _lf("d", -0.5)]), "rooted": None,
     "parts": ["pdm", "ndm", "mrca", "tm"]},
]


def cases(tier, seed):
    for d in DIRECTED:
        yield dict(d, seed=seed)
    nmax = 4 if tier == "quick" else 5
    for n in range(1, nmax + 1):
        shapes = gen.all_shapes(n)
        for idx in range(len(shapes)):
            for pi, pat in enumerate(PATTERNS):
                if n == 5 and (idx + pi + seed) % 3 != 0:
                    continue
                for rooted in (True, False, None):
                    if rooted is None and (idx + pi + seed) % 3 != 1:
                        continue          # rooting left unspecified (Tree() default): a third of the combinations
                    yield {"kind": "shape", "n": n, "idx": idx, "rooted": rooted, "pat": pat, "seed": seed}
    if tier == "quick":
        shapes = gen.all_shapes(5)
        for idx in range(len(shapes)):
            if (idx + seed) % 2 == 0:
                yield {"kind": "shape", "n": 5, "idx": idx, "rooted": (True, False, None, True, False)[idx % 5],
                       "pat": PATTERNS[(idx // 5) % len(PATTERNS)], "seed": seed}
    nrand, nnj, nup, ncsv = (5000, 4000, 2000, 1000) if tier == "quick" else (16000, 16000, 7000, 4000)
    rest = []
    for kind, k in (("random", nrand), ("nj", nnj), ("upgma", nup), ("csv", ncsv)):
        rest.extend({"kind": kind, "i": i, "seed": seed} for i in range(k))
    # deterministic shuffle: every shard (i % nshards) sees every kind in proportion, whatever the shard count
    random.Random("C14-order/%s/%s" % (tier, seed)).shuffle(rest)
    for c in rest:
        yield c


def _listify(x):
    return [_listify(y) if isinstance(y, (list, tuple)) else y for y in x] if isinstance(x, (list, tuple)) else x


def run_case(case, ctx):
    rng = random.Random("%s/%s" % (case["seed"], sorted((k, str(v)) for k, v in case.items())))
    with warnings.catch_warnings():
        warnings.simplefilter("ignore")
        from dendropy.utility import deprecate
        deprecate.configure_deprecation_warning_behavior("ignore")   # the deprecated PatristicDistanceMatrix alias is one route
        with Hooks(ctx) as hooks:
            mon = Monitor(ctx, rng)
            mon.install(hooks)
            _run(case, ctx, mon, rng)


def _parts(names, csv=None, csv_io=None):
    p = dict((k, True) for k in names)
    if csv:
        p["csv"] = list(csv)
    if csv_io:
        p["csv_io"] = list(csv_io)
    return p


def _rooting(rng):
    return rng.choice((True, True, False, False, None))


def _run(case, ctx, mon, rng):
    kind = case["kind"]
    quick = ctx.tier == "quick"
    if kind == "spec":
        spec = ref.copy(_listify(case["spec"]))
        run_tree(ctx, mon, spec, case["rooted"], rng, "exact", True, _parts(case["parts"], case.get("csv"), case.get("csv_io")), case["name"])
        ctx.sample({"kind": "directed", "name": case["name"], "tree": ref.to_newick(spec), "rooted": case["rooted"]})
    elif kind == "shape":
        spec = gen.shape_to_spec(gen.all_shapes(case["n"])[case["idx"]])
        r = rng.random()
        if r < 0.2:
            spec = U.pad_to_equal_depth(spec)          # all leaves equally many edges below the root: UPGMA on edge counts applies
        elif r < 0.45:
            spec = gen.insert_unary(spec, rng, 0.3)
        apply_pattern(spec, rng, case["pat"])
        maybe_rescale(ctx, spec, rng)
        csvv = [rng.choice(CSV_VARIANTS)] if rng.random() < 0.5 else None
        if csvv and rng.random() < 0.4:
            spec, _ = C.relabel(spec, rng)
            ctx.ev("workload:odd-labels")
        run_tree(ctx, mon, spec, case["rooted"], rng, rng.choice(NSCFG), True,
                 _parts(["pdm", "ndm", "mrca", "tm", "nj", "upgma"], csvv), "shape")
        if case["idx"] == 1 and case["pat"] == "ints" and case["n"] == 4:
            ctx.sample({"kind": "shape", "tree": ref.to_newick(spec), "rooted": case["rooted"],
                        "battery": "matrix (all entries), accessors x options, summaries, NDM, mrca (all subsets x 3 routes x modes), "
                                   "patristic_distance (all pairs), NJ (distances and edge counts), UPGMA where ultrametric"})
    elif kind == "random":
        n = rng.choice([2, 3, 5, 8, 12, 15]) if quick else rng.choice([2, 3, 6, 10, 20, 40, 60, 80])
        spec = gen.random_spec(rng, n, p_poly=rng.choice([0, 0.3, 0.6]), p_unary=rng.choice([0, 0, 0.15]),
                               shape=rng.choice([None, None, None, "caterpillar", "star", "balanced"]))
        if rng.random() < 0.1:
            spec = U.pad_to_equal_depth(spec)
        apply_pattern(spec, rng, rng.choice(PATTERNS))
        maybe_rescale(ctx, spec, rng)
        rooted = _rooting(rng)
        names = ["pdm", "mrca", "tm", "nj", "upgma"]
        if n <= 30:
            names.append("ndm")
        csvv = [rng.choice(CSV_VARIANTS)] if (n <= 20 and rng.random() < 0.3) else None
        if csvv and rng.random() < 0.4:
            spec, _ = C.relabel(spec, rng)
            ctx.ev("workload:odd-labels")
        run_tree(ctx, mon, spec, rooted, rng, rng.choice(NSCFG), False, _parts(names, csvv), "random")
        if case["i"] < 2:
            ctx.sample({"kind": "random", "tree": ref.to_newick(spec), "rooted": rooted})
    elif kind in ("nj", "upgma", "csv"):
        if kind == "csv":
            n = rng.choice([2, 3, 4, 6, 9])
        else:
            n = rng.choice([2, 3, 4, 5, 7, 10, 15]) if quick else rng.choice([3, 4, 6, 10, 16, 25, 40, 60])
        spec = gen.random_spec(rng, n, p_poly=rng.choice([0, 0, 0.3, 0.6]), p_unary=rng.choice([0, 0, 0.1]),
                               shape=rng.choice([None, None, None, "caterpillar", "balanced", "star"]))
        dy = rng.random() < 0.5
        rooted = _rooting(rng)
        equal_depth = kind == "upgma" and rng.random() < 0.3
        if equal_depth:
            # every leaf equally many edges below the root but lengths that are NOT clock-like: the two values of
            # is_weighted_edge_distances give different matrices, only the edge counts are ultrametric
            spec = U.pad_to_equal_depth(spec)
            U.positive_lengths(spec, rng, dy)
        elif kind == "upgma" or (kind == "csv" and rng.random() < 0.4):
            gen.ultrametric_lengths(spec, rng, dyadic=dy)
            if rng.random() < 0.25:
                # some zero-height steps: ultrametric tree with zero-length internal edges (= polytomy)
                for nd in ref.preorder(spec):
                    if nd[3] and nd is not spec and rng.random() < 0.3:
                        for c in nd[3]:
                            c[2] = c[2] + nd[2]
                        nd[2] = 0.0 if not dy else 0
            if rng.random() < 0.25:
                # some cherries of height zero: taxa at distance exactly 0 (the smallest entry of the matrix is 0),
                # still an ultrametric tree
                for nd in ref.preorder(spec):
                    if nd is not spec and nd[3] and all(not c[3] for c in nd[3]) and rng.random() < 0.5:
                        nd[2] = nd[2] + nd[3][0][2]
                        for c in nd[3]:
                            c[2] = 0.0 if not dy else 0
                ctx.ev("workload:ultrametric-with-zero-height-cherries")
        else:
            U.positive_lengths(spec, rng, dy)
            if rng.random() < 0.3:
                U.zero_some_pendants(spec, rng)
        maybe_rescale(ctx, spec, rng)
        if kind == "csv":
            variants = rng.sample(CSV_VARIANTS, 2)
            i = case["i"]
            combos = [list(IO_COMBOS[(2 * i) % len(IO_COMBOS)]), list(IO_COMBOS[(2 * i + 1) % len(IO_COMBOS)])]
            if rng.random() < 0.6:
                spec, _ = C.relabel(spec, rng)
                ctx.ev("workload:odd-labels")
            run_tree(ctx, mon, spec, rooted, rng, rng.choice(NSCFG), False, _parts(["pdm"], variants, combos), "csv")
        else:
            tree = bridge.build_tree(spec, make_ns(sorted(ref.leaf_taxa(spec)), rng.choice(NSCFG), rng), rooted)
            try:
                pdm = tree.phylogenetic_distance_matrix()
            except core.CaseTimeout:
                raise
            except Exception:
                return            # reported by the hook
            if n >= 3:
                ctx.nontrivial((kind, ref.canon(spec), rooted))
            tag = "matrix of a random %s tree" % ("equal-depth" if equal_depth else "ultrametric" if kind == "upgma" else "positive-length")
            cluster_battery(ctx, mon, pdm, spec, rng, {"nj": True, "upgma": True}, tag, 0.3)
            if case["i"] < 2:
                ctx.sample({"kind": kind, "generating_tree": ref.to_newick(spec)})
    else:
        raise core.HarnessBug("unknown case kind %r" % kind)
