"""C14  Path distances and common ancestors are exact, and NJ / UPGMA invert them.

Runtime monitors (hooks on the real functions; every hook re-extracts a DendroPy-free spec from the raw
child lists of the live tree it is handed, so the oracle is advanced in lock-step with whatever the
library did to the tree before):

  PhylogeneticDistanceMatrix.compile_from_tree   post: every entry of the finished matrix is read back through
      the public accessors and compared with vf.ref.leaf_paths on the spec: path length (None counts 0), number
      of edges, node where the path turns; symmetry; zero self distance; set of mapped taxa; distances() lists.
  NodeDistanceMatrix.compile_from_tree           post: same three quantities for pairs of *nodes* (a node is its
      own ancestor), oracle = ancestor chains on the spec.
  Tree.mrca                                      post: the returned node must be the deepest node of the tree (as
      it is at return) whose leaves include the whole query; None when a queried taxon is not on the tree.
      Judged only when a refresh was requested (is_bipartitions_updated=False) or the pre-hook verified that
      every edge's leafset bitmask equals the taxa below it (encoding current); otherwise recorded only.
  treemeasure.patristic_distance                 post: result == path length on the spec extracted BEFORE the call.
  nj_tree / upgma_tree                           post: judged by what they must reproduce when the workload declared
      the input as the distances of a known generating tree S (additive by construction):
      (1) leaf set, (2) path matrix of the result == path matrix of S, (3) every split (UPGMA: rooted clade) of S
      with positive summed length present with that length, (4) every other split of the result has ~zero length.
      Tie- and polytomy-agnostic; zero-length internal edges of S count as contracted.
  mean_pairwise_distance / mean_nearest_taxon_distance, distance(), __call__, distances(), sum_of_distances()
      compared in the driver with the docstring formulas evaluated on the oracle entries
      (all four weighted/normalised settings, taxon filters).
  write_csv / from_csv                           round trip: the text honours the requested delimiter, the matrix read
      back has the oracle's entries, is usable (summaries, a second write) and feeds NJ / UPGMA like the original.

Soundness limits actually implemented
  * every leaf carries a distinct taxon and no internal node carries one (compile_from_tree asserts this);
  * Tree.mrca: no start_node, no duplicate labels, non-empty queries; 'never encoded + default arguments' and
    'stale + default arguments' are recorded, not judged (statement: "encoding is current or a refresh is requested");
    for unrooted trees the refresh may collapse the basal bifurcation - the answer is judged on the tree as returned;
  * NJ only from additive input (distances of S, or its edge counts = distances of S with unit lengths), no negative
    lengths; UPGMA only when S is ultrametric (all tips equidistant from the root to 1e-12); result lengths are
    compared at 1e-9 relative to the largest distance (NJ's 1/(2(n-2)) factor rounds even on dyadic input);
  * matrix entries: exact equality on integer / dyadic lengths, 1e-9 relative on float lengths;
  * normalised values: 'tree length' is the library's documented Tree.length() (all edges, root edge included),
    'number of edges' is one per node (every DendroPy node owns an edge); skipped when the tree length is 0;
  * write_csv normalises by tree length BY DEFAULT: the round trip is compared with normalisation off and, separately,
    the default output against d / tree length; CSV without any labels is not generated (write_csv emits rows in set
    order, so an unlabelled table cannot be matched to taxa by anyone); row-names-only and column-names-only are;
  * summaries with fewer than two admitted taxa are not generated (NullAssemblageException is the documented outcome);
  * path_edges (is_store_path_edges=True) is used as a workload variation; its edge lists are recorded, not judged;
  * UPGMA's size-weighted averaging cannot be observed under this property: on ultrametric input all cross-cluster
    distances are equal, so every averaging rule gives the same tree (canaries/C14-x-... documents this).

Mechanisms found on the unchanged tree (smallest witnesses are the first DIRECTED cases)
  treemeasure.patristic_distance|path-length|unrooted-basal-bifurcation-with-one-missing-length
      the refresh inside Tree.mrca collapses the basal bifurcation of an unrooted tree; Tree.collapse_basal_bifurcation
      adds the deleted edge's length inside try/except and silently drops it when the kept edge has no length.
  write_csv|requested-delimiter-not-used
      write_csv passes its **csv_writer_kwargs dict as the positional *dialect* of csv.writer: delimiter etc. are ignored.
  csv-matrix|*   (distances-list / sum_of_distances / mean_pairwise_distance / write_csv)
      compile_from_dict (from_csv) fills neither the set of distinct taxon pairs nor the zero diagonal.
"""
import io
import itertools
import os
import random
import shutil
import tempfile
import warnings

from .. import ref, gen, bridge, core
from ..mon.hooks import Hooks
from ..mon import arbor
from . import _c14_util as U

PROP = "C14"
LEVEL = "exploration"
TECHNIQUE = ("runtime monitoring: post-hooks on PhylogeneticDistanceMatrix / NodeDistanceMatrix compilation, Tree.mrca, "
             "treemeasure.patristic_distance, nj_tree, upgma_tree compare every observed result with a path / ancestor "
             "oracle on a DendroPy-free spec; NJ / UPGMA judged by reproduction of the generating tree")
LEVEL_TEXT = ("Hooks around the real distance-matrix, MRCA, NJ and UPGMA functions compare every observed result with path "
              "lengths, edge counts and common ancestors computed on DendroPy-free specs extracted from the live trees; NJ / UPGMA "
              "results are judged by whether they reproduce the generating tree. The property held on the executions listed "
              "in the evidence file, nothing more.")
LEVEL_NOTE = ("Trusted: vf/ref.py (leaf_paths, clades, split_lengths), vf/props/_c14_util.py, the comparison code of "
              "vf/props/C14.py, TaxonNamespace.taxon_bitmask (C10), CPython csv. Coverage is what the workload reached: all "
              "shapes n <= 5, random trees <= 15 (quick) / <= 80 (thorough) leaves.")
RULE = ("cases = directed witnesses | every rooted multifurcating shape n<=4 x rooting x 9 length patterns, n=5: half of the shapes "
        "x 1 pattern (quick) / every shape x rooting x 3 patterns (thorough) "
        "| random trees (polytomies, unifurcations, 9 length patterns, 3 namespace layouts) driven through a history "
        "matrix -> queries -> encode -> mutate -> refresh | additive matrices from random trees with positive dyadic / float "
        "lengths -> NJ | ultrametric trees -> UPGMA | CSV round trips.  non-trivial = tree with >= 3 leaves and >= 1 internal "
        "edge; distinct = distinct (canonical tree with lengths, rooting, namespace layout, battery)")
REACH = ["phylogeneticdistance:PhylogeneticDistanceMatrix.compile_from_tree",
         "phylogeneticdistance:PhylogeneticDistanceMatrix._mirror_lookups",
         "phylogeneticdistance:PhylogeneticDistanceMatrix.compile_from_dict",
         "phylogeneticdistance:NodeDistanceMatrix.compile_from_tree",
         "phylogeneticdistance:PhylogeneticDistanceMatrix.nj_tree",
         "phylogeneticdistance:PhylogeneticDistanceMatrix.upgma_tree",
         "phylogeneticdistance:PhylogeneticDistanceMatrix.write_csv",
         "phylogeneticdistance:PhylogeneticDistanceMatrix.from_csv",
         "phylogeneticdistance:PhylogeneticDistanceMatrix._calculate_mean_pairwise_distance",
         "phylogeneticdistance:PhylogeneticDistanceMatrix._calculate_mean_nearest_taxon_distance",
         "_tree:Tree.mrca", "_tree:Tree.encode_bipartitions", "treemeasure:patristic_distance"]
MIN_EVENTS = {"pdm-entry-judged": (100000, 5000000), "ndm-entry-judged": (100000, 1000000),
              "mrca-judged": (50000, 500000), "tm-judged": (6000, 60000),
              "summary-judged": (20000, 200000), "nj-judged": (2000, 20000), "upgma-judged": (500, 5000),
              "csv-entry-judged": (15000, 150000), "hook:Tree.mrca:return": (50000, 500000),
              "hook:PhylogeneticDistanceMatrix.compile_from_tree:return": (2000, 20000),
              "matrix-recompiled-from-another-tree": (100, 2000)}
ASSUMPTIONS = ["reference path lengths / edge counts / common ancestors come from a DendroPy-free spec read from the raw child lists "
               "(vf.bridge.extract) at the moment of each hooked call",
               "TaxonNamespace.taxon_bitmask is taken as the given taxon->bit assignment (its stability is C10)",
               "normalisation constants follow the library's documented conventions (Tree.length incl. root edge; one edge per node)",
               "float comparisons: exact on integer/dyadic lengths, 1e-9 relative otherwise; reconstruction lengths always 1e-9 relative"]
CASE_TIMEOUT = 120

PATTERNS = ("none", "unit", "ints", "zeros", "dyadic", "float", "mixed_missing", "ultrametric", "ultrametric_float")
NSCFG = ("exact", "larger", "shuffled")


# =================================================================================================
class View(object):
    """DendroPy-free spec of a live tree at one quiescent point + the way back to live objects."""

    def __init__(self, tree):
        self.spec, pairs = bridge.extract(tree, with_nodes=True)
        self.pairs = pairs
        self.live = bridge.node_map(pairs)
        self.taxon = {}
        self.problem = None
        for s, nd in pairs:
            if not s[3]:
                if nd.taxon is None:
                    self.problem = "leaf without taxon"
                elif s[0] in self.taxon:
                    self.problem = "taxon on two leaves"
                else:
                    self.taxon[s[0]] = nd.taxon
            elif nd.taxon is not None:
                self.problem = "taxon on an internal node"
        self.labels = sorted(self.taxon)
        self.exact = U.is_exact_spec(self.spec)
        self.total = ref.total_length(self.spec, include_root_edge=True)
        self.n_nodes = len(pairs)


def encoding_is_current(tree, view):
    """'the bipartition encoding is current', decided without the library: every edge's stored leafset
    bitmask equals the OR of the namespace bits of the leaf taxa below it."""
    ns = tree.taxon_namespace
    bits = {}
    for lbl, t in view.taxon.items():
        bits[lbl] = ns.taxon_bitmask(t)
    for s, c in ref.clades(view.spec):
        nd = view.live[id(s)]
        b = nd._edge._bipartition if nd._edge is not None else None
        if b is None:
            return False
        m = 0
        for x in c:
            m |= bits[x]
        if b._leafset_bitmask != m:
            return False
    return True


class Monitor(object):
    def __init__(self, ctx, rng):
        self.ctx = ctx
        self.rng = rng
        self.expect = None          # set by the driver right before nj_tree / upgma_tree
        self.pair_cap = 700 if ctx.tier == "quick" else 2500

    def install(self, hooks):
        import dendropy
        from dendropy.calculate import phylogeneticdistance as pd, treemeasure
        P = pd.PhylogeneticDistanceMatrix
        hooks.install(P, "compile_from_tree", pre=self.pre_tree, post=self.post_pdm)
        hooks.install(pd.NodeDistanceMatrix, "compile_from_tree", pre=self.pre_tree, post=self.post_ndm)
        hooks.install(dendropy.Tree, "mrca", pre=self.pre_mrca, post=self.post_mrca)
        hooks.install(treemeasure, "patristic_distance", pre=self.pre_tm, post=self.post_tm)
        hooks.install(P, "nj_tree", post=self.post_nj)
        hooks.install(P, "upgma_tree", post=self.post_upgma)
        for name in ("patristic_distance", "path_edge_count", "mrca", "distance", "distances", "sum_of_distances",
                     "mean_pairwise_distance", "mean_nearest_taxon_distance", "write_csv", "from_csv"):
            hooks.install(P, name)          # event log (calls / returns / raises)

    # ------------------------------------------------------------------ matrices
    def pre_tree(self, obj, args, kw):
        tree = args[0] if args else kw.get("tree")
        try:
            return View(tree)
        except bridge.ExtractError:
            return None

    def post_pdm(self, view, pdm, args, kw, result, exc):
        ctx = self.ctx
        if view is None or view.problem:
            ctx.note("compile_from_tree-on-inadmissible-tree-not-judged")
            return
        det = {"tree": ref.to_newick(view.spec)}
        if exc is not None:
            if not isinstance(exc, core.CaseTimeout):
                ctx.unexpected("compile_from_tree", exc, det)
            return
        judge_pdm(ctx, pdm, view, self.rng, self.pair_cap, det)

    def post_ndm(self, view, ndm, args, kw, result, exc):
        ctx = self.ctx
        if view is None:
            return
        det = {"tree": ref.to_newick(view.spec)}
        if exc is not None:
            if not isinstance(exc, core.CaseTimeout):
                ctx.unexpected("NodeDistanceMatrix.compile_from_tree", exc, det)
            return
        nodes, chain = U.node_tables(view.spec)
        allp = len(nodes) * len(nodes)
        if allp <= self.pair_cap:
            pairs = [(a, b) for a in nodes for b in nodes]
        else:
            pairs = [(self.rng.choice(nodes), self.rng.choice(nodes)) for _ in range(self.pair_cap)]
        scale = view.total
        for a, b in pairs:
            la, lb = view.live[id(a)], view.live[id(b)]
            L, E, N = U.node_pair(chain, a, b)
            ctx.ev("ndm-entry-judged")
            try:
                d = ndm.patristic_distance(la, lb)
                k = ndm.path_edge_count(la, lb)
                m = ndm.mrca(la, lb)
                d2 = ndm.distance(lb, la)
            except Exception as e:
                ctx.violation("ndm|entry-missing|%s" % type(e).__name__,
                              "NodeDistanceMatrix has no entry for a pair of nodes of its tree", det)
                return
            what = None
            if not U.same(d, L, view.exact, scale):
                what = ("ndm|path-length", "node distance %r, path on the tree %r" % (d, L))
            elif not U.same(d2, L, view.exact, scale):
                what = ("ndm|asymmetric", "distance(b,a) %r, path on the tree %r" % (d2, L))
            elif k != E or isinstance(k, bool):
                what = ("ndm|edge-count", "edge count %r, edges on the path %r" % (k, E))
            elif m is not view.live[id(N)]:
                what = ("ndm|mrca", "mrca is not the node where the path turns")
            if what:
                det2 = dict(det, a=_desc(a), b=_desc(b))
                ctx.violation(what[0], what[1], det2)
                return

    # ------------------------------------------------------------------ Tree.mrca
    def pre_mrca(self, tree, args, kw):
        if args or "start_node" in kw:
            return None
        if "leafset_bitmask" in kw:
            route = "leafset_bitmask"
        elif kw.get("taxa") is not None:
            route = "taxa"
        elif "taxon_labels" in kw:
            route = "taxon_labels"
        else:
            return None
        ns = tree.taxon_namespace
        if route == "taxa":
            q = kw["taxa"]
            if not isinstance(q, (list, tuple, set, frozenset)):
                return None
            q = list(q)
        elif route == "taxon_labels":
            labs = kw["taxon_labels"]
            if not isinstance(labs, (list, tuple)) or len(set(labs)) != len(labs):
                return None
            by = {}
            for t in ns:
                by.setdefault(t.label, []).append(t)
            if any(len(by.get(x, ())) != 1 for x in labs):
                return None
            q = [by[x][0] for x in labs]
        else:
            mask = kw["leafset_bitmask"]
            q = []
            rest = mask
            for t in ns:
                b = ns.taxon_bitmask(t)
                if mask & b:
                    q.append(t)
                    rest &= ~b
            if rest or not isinstance(mask, int):
                return None
        if not q:
            return None
        try:
            view = View(tree)
        except bridge.ExtractError:
            return None
        if view.problem:
            return None
        refresh = not kw.get("is_bipartitions_updated", True)
        if refresh:
            mode = "refresh"
        elif encoding_is_current(tree, view):
            mode = "current"
        else:
            b = tree._seed_node._edge._bipartition
            mode = "never-encoded" if (b is None or not b._leafset_bitmask) else "stale"
        return {"route": route, "q": q, "mode": mode, "before": ref.to_newick(view.spec), "rooted": tree._is_rooted}

    def post_mrca(self, snap, tree, args, kw, result, exc):
        ctx = self.ctx
        if snap is None:
            ctx.note("Tree.mrca-call-outside-judged-domain")
            return
        mode, route = snap["mode"], snap["route"]
        det = {"tree_before": snap["before"], "query": sorted(t.label for t in snap["q"]), "route": route, "mode": mode,
               "rooted_flag": snap["rooted"]}
        judged = mode in ("refresh", "current")
        if exc is not None:
            if isinstance(exc, core.CaseTimeout):
                return
            if judged:
                ctx.unexpected("Tree.mrca", exc, det)
            else:
                ctx.note("Tree.mrca-%s-default-raises" % mode)
            return
        try:
            view = View(tree)
        except bridge.ExtractError as e:
            ctx.violation("Tree.mrca|malformed-tree", str(e), det)
            return
        det["tree_at_return"] = ref.to_newick(view.spec)
        on_tree = all(view.taxon.get(t.label) is t for t in snap["q"])
        if on_tree:
            want = U.deepest_containing(view.spec, [t.label for t in snap["q"]])
            want_live = view.live[id(want)]
        else:
            want, want_live = None, None
        ok = result is want_live
        if not judged:
            ctx.note("Tree.mrca-%s-default-%s" % (mode, "agrees" if ok else "disagrees"))
            return
        ctx.ev("mrca-judged")
        ctx.ev("mrca-judged:%s:%s" % (mode, route))
        if ok:
            return
        if not on_tree:
            ctx.violation("Tree.mrca|taxon-not-on-tree-but-node-returned|%s|%s" % (route, mode),
                          "a queried taxon is on no leaf of the tree, yet a node was returned", det)
            return
        if result is None:
            got = None
        else:
            got = None
            for s, nd in view.pairs:
                if nd is result:
                    got = _desc(s)
            if got is None:
                got = "<node not in the tree>"
        det["returned"] = got
        det["deepest_common_ancestor"] = _desc(want)
        ctx.violation("Tree.mrca|not-the-deepest-common-ancestor|%s|%s" % (route, mode),
                      "returned node is not the deepest node whose leaves include the whole query", det)

    # ------------------------------------------------------------------ treemeasure.patristic_distance
    def pre_tm(self, obj, args, kw):
        if len(args) < 3:
            return None
        tree, t1, t2 = args[:3]
        try:
            view = View(tree)
        except bridge.ExtractError:
            return None
        if view.problem or view.taxon.get(t1.label) is not t1 or view.taxon.get(t2.label) is not t2:
            return None
        upd = kw.get("is_bipartitions_updated", args[3] if len(args) > 3 else False)
        if upd and not encoding_is_current(tree, view):
            return None
        want = 0 if t1 is t2 else U.pair_path(view.spec, t1.label, t2.label)[0]
        disc = "rooted" if tree._is_rooted else "unrooted"
        if not tree._is_rooted and len(view.spec[3]) == 2:
            a, b = view.spec[3]
            # which basal edge the refresh would merge into which (Tree.collapse_basal_bifurcation)
            if len(b[3]) >= 2:
                keep, dele = a, b
            elif len(a[3]) >= 2:
                keep, dele = b, a
            else:
                keep = dele = None
            if keep is not None and keep[2] is None and dele[2] is not None and not upd:
                disc = "unrooted-basal-bifurcation-with-one-missing-length"
        return {"want": want, "view": view, "disc": disc, "pair": [t1.label, t2.label], "refresh": not upd}

    def post_tm(self, snap, obj, args, kw, result, exc):
        ctx = self.ctx
        if snap is None:
            ctx.note("treemeasure.patristic_distance-call-outside-judged-domain")
            return
        view = snap["view"]
        det = {"tree": ref.to_newick(view.spec), "pair": snap["pair"], "refresh": snap["refresh"]}
        if exc is not None:
            if not isinstance(exc, core.CaseTimeout):
                ctx.unexpected("treemeasure.patristic_distance", exc, det)
            return
        ctx.ev("tm-judged")
        if not U.same(result, snap["want"], view.exact, view.total):
            try:
                det["tree_at_return"] = ref.to_newick(bridge.extract(args[0]))
            except bridge.ExtractError:
                pass
            ctx.violation("treemeasure.patristic_distance|path-length|%s" % snap["disc"],
                          "returned %r, the path between the two leaves has length %r" % (result, snap["want"]), det)

    # ------------------------------------------------------------------ NJ / UPGMA
    def _post_cluster(self, op, rooted, pdm, result, exc):
        ctx = self.ctx
        exp, self.expect = self.expect, None
        if exp is None or exp["op"] != op:
            ctx.note("%s-without-declared-generating-tree-not-judged" % op)
            return
        S = exp["S"]
        det = {"generating_tree": ref.to_newick(S), "input": exp["tag"]}
        if exc is not None:
            if not isinstance(exc, core.CaseTimeout):
                ctx.unexpected(op, exc, det)
            return
        probs = arbor.check(result, iterators=False)
        if probs:
            ctx.violation("%s|malformed-tree" % op, "; ".join(probs), det)
            return
        try:
            R = bridge.extract(result)
        except bridge.ExtractError as e:
            ctx.violation("%s|malformed-tree" % op, str(e), det)
            return
        det["result"] = ref.to_newick(R)
        ctx.ev("nj-judged" if op == "nj_tree" else "upgma-judged")
        bad = U.judge_reconstruction(S, R, rooted)
        if bad:
            ctx.violation("%s|%s" % (op, bad[0]), bad[1], det)
        if bool(result.is_rooted) != rooted:
            ctx.note("%s-result-rooting-flag-is-%s" % (op, result.is_rooted))

    def post_nj(self, snap, pdm, args, kw, result, exc):
        self._post_cluster("nj_tree", False, pdm, result, exc)

    def post_upgma(self, snap, pdm, args, kw, result, exc):
        self._post_cluster("upgma_tree", True, pdm, result, exc)


def _desc(s):
    """JSON-able description of a spec node: the leaf taxa below it (+ depth marker for unary chains)."""
    lv = sorted(n[0] for n in ref.leaves(s) if n[0] is not None)
    return {"clade": lv if len(lv) <= 12 else lv[:12] + ["..."], "outdegree": len(s[3])}


# =================================================================================================
def judge_pdm(ctx, pdm, view, rng, cap, det):
    """oracle for a finished PhylogeneticDistanceMatrix of view's tree."""
    labels = view.labels
    if len(labels) < 2:
        ctx.note("matrix-of-a-tree-with-fewer-than-2-leaves")
        return True
    paths = ref.leaf_paths(view.spec)
    leafnode = U.leaf_by_label(view.spec)
    mapped = set(pdm.taxon_iter())
    if mapped != set(view.taxon.values()) or set(pdm) != mapped:
        ctx.violation("pdm|mapped-taxa-are-not-the-leaf-taxa", "matrix maps %d taxa, tree has %d leaf taxa" % (len(mapped), len(labels)), det)
        return False
    if len(labels) ** 2 <= cap:
        pairs = [(a, b) for a in labels for b in labels]
    else:
        pairs = [(rng.choice(labels), rng.choice(labels)) for _ in range(cap)]
    scale = view.total
    for a, b in pairs:
        ta, tb = view.taxon[a], view.taxon[b]
        if a == b:
            L, E, N = 0, 0, leafnode[a]
        else:
            L, E, N = paths[(a, b)]
        ctx.ev("pdm-entry-judged")
        try:
            d, k, m = pdm.patristic_distance(ta, tb), pdm.path_edge_count(ta, tb), pdm.mrca(ta, tb)
            d2, k2, m2 = pdm.patristic_distance(tb, ta), pdm.path_edge_count(tb, ta), pdm.mrca(tb, ta)
            raw = pdm._taxon_phylogenetic_distances[ta][tb]
        except Exception as e:
            ctx.violation("pdm|entry-missing|%s" % type(e).__name__, "matrix has no entry for a pair of leaf taxa of its tree",
                          dict(det, pair=[a, b]))
            return False
        what = None
        if a == b and (d != 0 or k != 0 or raw != 0):
            what = ("pdm|self-distance-not-zero", "self distance %r / %r steps (stored %r)" % (d, k, raw))
        elif not U.same(d, L, view.exact, scale):
            what = ("pdm|path-length", "matrix says %r, the path on the tree has length %r" % (d, L))
        elif k != E or isinstance(k, bool):
            what = ("pdm|edge-count", "matrix says %r edges, the path on the tree has %r" % (k, E))
        elif m is not view.live[id(N)]:
            what = ("pdm|mrca", "matrix mrca is not the node where the path turns (%s)" % (_desc(N),))
        elif d2 != d or k2 != k or m2 is not m:
            what = ("pdm|asymmetric", "entry (a,b) = (%r, %r), entry (b,a) = (%r, %r)" % (d, k, d2, k2))
        if what:
            ctx.violation(what[0], what[1], dict(det, pair=[a, b]))
            return False
    # distances(): one value per unordered pair
    und = list(itertools.combinations(labels, 2))
    if len(und) <= 4 * cap:
        for weighted in (True, False):
            for norm in (False, True):
                fac = 1.0
                if norm:
                    fac = view.total if weighted else float(view.n_nodes)
                    if not fac:
                        ctx.note("normalisation-by-zero-tree-length-skipped")
                        continue
                want = sorted(paths[p][0 if weighted else 1] / fac for p in und)
                try:
                    got = sorted(pdm.distances(is_weighted_edge_distances=weighted, is_normalize_by_tree_size=norm))
                except Exception as e:
                    ctx.unexpected("pdm.distances", e, det)
                    return False
                ctx.ev("pdm-distances-list-judged")
                ex = view.exact and not norm
                if len(got) != len(want) or any(not U.same(x, y, ex, scale) for x, y in zip(got, want)):
                    ctx.violation("pdm|distances-list-is-not-the-entries|%s%s" % ("weighted" if weighted else "steps", "|normalized" if norm else ""),
                                  "distances() returned %d values %s..., one per unordered pair would be %d values %s..." % (
                                      len(got), got[:4], len(want), want[:4]), det)
                    return False
    return True


def oracle_tables(view, weighted, norm):
    """(entries {(a,b): value}, ok) under the given setting, from the oracle."""
    paths = ref.leaf_paths(view.spec)
    fac = 1.0
    if norm:
        fac = view.total if weighted else float(view.n_nodes)
        if not fac:
            return None
    return dict((k, v[0 if weighted else 1] / fac) for k, v in paths.items())


def mpd(entries, subset):
    vals = [entries[p] for p in itertools.combinations(sorted(subset), 2)]
    return sum(vals) / len(vals)


def mntd(entries, subset):
    subset = sorted(subset)
    vals = [min(entries[(a, b)] for b in subset if b != a) for a in subset]
    return sum(vals) / len(vals)


def judge_summaries(ctx, pdm, taxon_of, entries_for, labels, rng, exact, scale, det, prefix, settings, nfilters):
    """mean_pairwise_distance / mean_nearest_taxon_distance / sum_of_distances against the docstring formulas.
    taxon_of: label -> Taxon of *this* matrix; entries_for(weighted, norm) -> oracle entries or None."""
    if len(labels) < 2:
        return
    subsets = [None]
    for _ in range(nfilters):
        k = rng.randint(2, len(labels))
        subsets.append(frozenset(rng.sample(labels, k)))
    for weighted, norm in settings:
        entries = entries_for(weighted, norm)
        if entries is None:
            ctx.note("normalisation-by-zero-tree-length-skipped")
            continue
        tag = "%s%s" % ("weighted" if weighted else "steps", "|normalized" if norm else "")
        ex = exact and not norm
        for sub in subsets:
            members = list(labels) if sub is None else sorted(sub)
            if sub is None:
                ff = None
            else:
                adm = set(taxon_of[x] for x in sub)
                ff = (lambda t, adm=adm: t in adm)
            for name, fn in (("mean_pairwise_distance", mpd), ("mean_nearest_taxon_distance", mntd)):
                want = fn(entries, members)
                d2 = dict(det, filter=None if sub is None else members, setting=tag)
                try:
                    got = getattr(pdm, name)(filter_fn=ff, is_weighted_edge_distances=weighted, is_normalize_by_tree_size=norm)
                except core.CaseTimeout:
                    raise
                except Exception as e:
                    ctx.violation("%s|%s|raises|%s" % (prefix, name, type(e).__name__),
                                  "%s raised %s on a matrix with %d taxa" % (name, core.exc_brief(e), len(labels)), d2)
                    continue
                ctx.ev("summary-judged")
                if not U.same(got, want, ex, scale):
                    ctx.violation("%s|%s|not-the-stated-average|%s" % (prefix, name, tag),
                                  "%s returned %r, the stated average of the entries is %r" % (name, got, want), d2)
        want = sum(entries[p] for p in itertools.combinations(labels, 2))
        try:
            got = pdm.sum_of_distances(is_weighted_edge_distances=weighted, is_normalize_by_tree_size=norm)
        except core.CaseTimeout:
            raise
        except Exception as e:
            ctx.violation("%s|sum_of_distances|raises|%s" % (prefix, type(e).__name__), core.exc_brief(e), det)
            continue
        ctx.ev("summary-judged")
        if not U.same(got, want, False, scale * len(labels) ** 2):
            ctx.violation("%s|sum_of_distances|not-the-sum-of-entries|%s" % (prefix, tag),
                          "sum_of_distances returned %r, the entries sum to %r" % (got, want), det)


def judge_accessors(ctx, pdm, view, rng, det, npairs):
    """distance() / __call__ / normalised accessors on a sample of pairs (the hooks count these calls)."""
    labels = view.labels
    if len(labels) < 2:
        return
    paths = ref.leaf_paths(view.spec)
    for _ in range(npairs):
        a, b = rng.sample(labels, 2)
        ta, tb = view.taxon[a], view.taxon[b]
        L, E, N = paths[(a, b)]
        ctx.ev("accessor-judged")
        try:
            checks = [("__call__", pdm(ta, tb), L, view.exact),
                      ("distance", pdm.distance(ta, tb), L, view.exact),
                      ("distance-steps", pdm.distance(ta, tb, is_weighted_edge_distances=False), E, True),
                      ("path_edge_count-normalized", pdm.path_edge_count(ta, tb, is_normalize_by_tree_size=True), E / float(view.n_nodes), False)]
            if view.total:
                checks.append(("patristic_distance-normalized", pdm.patristic_distance(ta, tb, is_normalize_by_tree_size=True), L / view.total, False))
                checks.append(("distance-normalized", pdm.distance(ta, tb, is_normalize_by_tree_size=True), L / view.total, False))
            m = pdm.mrca(ta, tb)
        except core.CaseTimeout:
            raise
        except Exception as e:
            ctx.violation("pdm|accessor|raises|%s" % type(e).__name__, "accessor raised %s for a pair of leaf taxa of the tree" % core.exc_brief(e),
                          dict(det, pair=[a, b]))
            return
        for name, got, want, ex in checks:
            if not U.same(got, want, ex, view.total):
                ctx.violation("pdm|accessor|%s" % name, "%s returned %r, oracle %r" % (name, got, want), dict(det, pair=[a, b]))
                return
        if m is not view.live[id(N)]:
            ctx.violation("pdm|mrca", "matrix mrca is not the node where the path turns", dict(det, pair=[a, b]))
            return


# =================================================================================================
def make_ns(labels, cfg, rng):
    import dendropy
    labels = list(labels)
    if cfg == "exact":
        return dendropy.TaxonNamespace(labels)
    if cfg == "larger":
        h = len(labels) // 2
        return dendropy.TaxonNamespace(["X0"] + labels[:h] + ["X1", "X2"] + labels[h:] + ["X3"])
    if cfg == "shuffled":
        sh = labels[:]
        rng.shuffle(sh)
        return dendropy.TaxonNamespace(sh)
    raise ValueError(cfg)


def apply_pattern(spec, rng, pat):
    if pat == "ultrametric":
        gen.ultrametric_lengths(spec, rng, dyadic=True)
    elif pat == "ultrametric_float":
        gen.ultrametric_lengths(spec, rng, dyadic=False)
    else:
        gen.decorate_lengths(spec, rng, pat, root_length=(rng.random() < 0.2))
    return spec


def nj_admissible(spec):
    return len(ref.leaf_taxa(spec)) >= 2 and not U.has_negative(spec)


def upgma_admissible(spec):
    return len(ref.leaf_taxa(spec)) >= 2 and not U.has_negative(spec) and U.is_ultrametric(spec)


def do_nj(ctx, mon, pdm, S, tag, weighted=True):
    mon.expect = {"op": "nj_tree", "S": S if weighted else U.unit_copy(S), "tag": tag}
    try:
        if weighted:
            return pdm.nj_tree()
        return pdm.nj_tree(is_weighted_edge_distances=False)
    except core.CaseTimeout:
        raise
    except Exception:
        return None        # reported by the hook
    finally:
        mon.expect = None


def do_upgma(ctx, mon, pdm, S, tag):
    mon.expect = {"op": "upgma_tree", "S": S, "tag": tag}
    try:
        return pdm.upgma_tree()
    except core.CaseTimeout:
        raise
    except Exception:
        return None
    finally:
        mon.expect = None


# ------------------------------------------------------------------------------------------------- CSV
def csv_roundtrip(ctx, mon, pdm, view, rng, variant, det, cluster=True):
    """write_csv -> text -> from_csv, entries against the oracle; then the matrix read back is used."""
    import dendropy
    P = dendropy.PhylogeneticDistanceMatrix
    labels = view.labels
    if len(labels) < 2:
        return
    paths = ref.leaf_paths(view.spec)
    weighted = variant != "steps"
    norm = variant == "normalized"
    if norm and not view.total:
        ctx.note("normalisation-by-zero-tree-length-skipped")
        return
    wkw = {}
    rkw = {}
    if variant == "tab":
        wkw["delimiter"] = rkw["delimiter"] = "\t"
    elif variant == "semicolon":
        wkw["delimiter"] = rkw["delimiter"] = ";"
    elif variant == "rownames-only":
        wkw["is_first_row_column_names"] = rkw["is_first_row_column_names"] = False
    elif variant == "colnames-only":
        wkw["is_first_column_row_names"] = rkw["is_first_column_row_names"] = False
    if variant != "normalized":            # "normalized" uses write_csv's defaults
        wkw["is_normalize_by_tree_size"] = False
    if not weighted:
        wkw["is_weighted_edge_distances"] = False
    det = dict(det, csv_variant=variant)
    tmpd = None
    try:
        if variant == "path":
            tmpd = tempfile.mkdtemp(prefix="vf-c14-")
            path = os.path.join(tmpd, "m.csv")
            ok, r = core.call(ctx, "write_csv", pdm.write_csv, path, detail=det, **wkw)
            if not ok:
                return
            with open(path, newline="") as f:
                text = f.read()
        else:
            buf = io.StringIO()
            ok, r = core.call(ctx, "write_csv", pdm.write_csv, buf, detail=det, **wkw)
            if not ok:
                return
            text = buf.getvalue()
    finally:
        if tmpd:
            shutil.rmtree(tmpd, ignore_errors=True)
    # the text must be a (n+1) x (n+1) table under the requested delimiter
    import csv as _csv
    rows = [r for r in _csv.reader(io.StringIO(text), delimiter=wkw.get("delimiter", ",")) if r]
    ctx.ev("csv-text-judged")
    nrows = len(labels) + (1 if wkw.get("is_first_row_column_names", True) else 0)
    ncols = len(labels) + (1 if wkw.get("is_first_column_row_names", True) else 0)
    if len(rows) != nrows or any(len(r) != ncols for r in rows):
        if "delimiter" in wkw and all(len(r) == 1 for r in rows):
            ctx.violation("write_csv|requested-delimiter-not-used",
                          "write_csv(delimiter=%r) wrote %r..." % (wkw["delimiter"], text[:40]), det)
        else:
            ctx.violation("write_csv|text-is-not-a-square-table", "%d rows of lengths %s for %d taxa" % (
                len(rows), sorted(set(len(r) for r in rows)), len(labels)), det)
        return
    same_ns = rng.random() < 0.5
    kw = dict(rkw)
    if same_ns:
        kw["taxon_namespace"] = pdm.taxon_namespace
    ok, p2 = core.call(ctx, "from_csv", P.from_csv, io.StringIO(text), detail=det, **kw)
    if not ok:
        return
    tx2 = dict((t.label, t) for t in p2.taxon_iter())
    if sorted(tx2) != labels or (same_ns and any(tx2[x] is not view.taxon[x] for x in labels)):
        ctx.violation("from_csv|taxa-differ", "matrix read back maps %s" % sorted(tx2)[:10], det)
        return
    fac = (view.total if weighted else float(view.n_nodes)) if norm else 1.0
    want = dict((k, v[0 if weighted else 1] / fac) for k, v in paths.items())
    ex = view.exact and not norm
    for a in labels:
        for b in labels:
            ctx.ev("csv-entry-judged")
            try:
                got = p2.patristic_distance(tx2[a], tx2[b])
            except Exception as e:
                ctx.violation("from_csv|entry-missing|%s" % type(e).__name__, "no entry for a pair of taxa of the table", dict(det, pair=[a, b]))
                return
            w = 0 if a == b else want[(a, b)]
            if not U.same(got, w, ex, view.total):
                ctx.violation("csv|roundtrip-entry-differs|%s" % variant,
                              "entry read back %r, oracle %r" % (got, w), dict(det, pair=[a, b]))
                return
    # the matrix read back must be usable like the original: summaries over its entries, a second write
    judge_summaries(ctx, p2, tx2, lambda wgt, nrm: want, labels, rng, ex, view.total, det, "csv-matrix",
                    [(True, False)], 1)
    try:
        got = sorted(p2.distances())
    except Exception as e:
        ctx.unexpected("csv-matrix.distances", e, det)
        got = None
    if got is not None:
        ws = sorted(want[p] for p in itertools.combinations(labels, 2))
        ctx.ev("summary-judged")
        if len(got) != len(ws) or any(not U.same(x, y, ex, view.total) for x, y in zip(got, ws)):
            ctx.violation("csv-matrix|distances-list-is-not-the-entries",
                          "distances() of the matrix read back returned %d values, it has %d distinct pairs" % (len(got), len(ws)), det)
    buf2 = io.StringIO()
    try:
        p2.write_csv(buf2, is_normalize_by_tree_size=False)
        text2 = buf2.getvalue()
    except core.CaseTimeout:
        raise
    except Exception as e:
        ctx.violation("csv-matrix|write_csv|raises|%s" % type(e).__name__,
                      "a matrix read from CSV cannot be written again: %s" % core.exc_brief(e), det)
        text2 = None
    if text2 is not None:
        ok, p3 = core.call(ctx, "from_csv", P.from_csv, io.StringIO(text2), detail=det)
        if ok:
            tx3 = dict((t.label, t) for t in p3.taxon_iter())
            ctx.ev("csv-second-generation-judged")
            for a, b in itertools.combinations(labels, 2):
                if sorted(tx3) != labels or not U.same(p3.patristic_distance(tx3[a], tx3[b]), want[(a, b)], ex, view.total):
                    ctx.violation("csv|second-generation-entry-differs", "entry differs after two round trips", dict(det, pair=[a, b]))
                    break
    if cluster and variant not in ("normalized", "steps"):
        if nj_admissible(view.spec):
            do_nj(ctx, mon, p2, view.spec, "matrix read back from CSV (%s)" % variant)
        if upgma_admissible(view.spec):
            do_upgma(ctx, mon, p2, view.spec, "matrix read back from CSV (%s)" % variant)


# ------------------------------------------------------------------------------------------------- mrca workload
def subsets_for(view, rng, exhaustive, k):
    labels = view.labels
    if exhaustive and len(labels) <= 5:
        out = []
        for r in range(1, len(labels) + 1):
            out.extend(itertools.combinations(labels, r))
        return [list(x) for x in out]
    out = [list(labels), [rng.choice(labels)]]
    clades = [sorted(c) for _, c in ref.clades(view.spec) if len(c) >= 2]
    for _ in range(k):
        mode = rng.random()
        if mode < 0.35 and len(labels) >= 2:
            out.append(rng.sample(labels, 2))
        elif mode < 0.7 and clades:
            c = rng.choice(clades)
            out.append(rng.sample(c, rng.randint(2, len(c))))
        else:
            out.append(rng.sample(labels, rng.randint(1, len(labels))))
    return out


def mrca_queries(ctx, tree, view, rng, exhaustive, k, refresh, absent=True):
    """issue Tree.mrca through the three routes; the hook judges."""
    ns = tree.taxon_namespace
    kw = {"is_bipartitions_updated": False} if refresh else {}
    if refresh == "explicit-true":
        kw = {"is_bipartitions_updated": True}
    for q in subsets_for(view, rng, exhaustive, k):
        rng.shuffle(q)
        taxa = [view.taxon[x] for x in q]
        routes = ("taxa", "taxon_labels", "leafset_bitmask") if exhaustive else (rng.choice(("taxa", "taxon_labels", "leafset_bitmask")),)
        for route in routes:
            try:
                if route == "taxa":
                    tree.mrca(taxa=rng.choice((list, tuple, set))(taxa), **kw)
                elif route == "taxon_labels":
                    tree.mrca(taxon_labels=list(q), **kw)
                else:
                    m = 0
                    for t in taxa:
                        m |= ns.taxon_bitmask(t)
                    tree.mrca(leafset_bitmask=m, **kw)
            except core.CaseTimeout:
                raise
            except Exception:
                pass      # reported by the hook
    if absent:
        extra = [t for t in ns if t.label not in view.taxon]
        if extra:
            x = rng.choice(extra)
            q = [view.taxon[l] for l in rng.sample(view.labels, min(len(view.labels), rng.randint(0, 2)))] + [x]
            try:
                if rng.random() < 0.5:
                    tree.mrca(taxa=q, **kw)
                else:
                    tree.mrca(taxon_labels=[t.label for t in q], **kw)
            except core.CaseTimeout:
                raise
            except Exception:
                pass


def live_spr(tree, rng):
    """prune-and-regraft on the live tree through the node API, leaving any bipartition encoding stale."""
    spec, pairs = bridge.extract(tree, with_nodes=True)
    nodes = [nd for s, nd in pairs]
    if len(nodes) < 4:
        return False
    for _ in range(20):
        x = rng.choice(nodes[1:])
        p = x._parent_node
        if len(p._child_nodes) < 2:
            continue
        below = set()
        stack = [x]
        while stack:
            n = stack.pop()
            below.add(id(n))
            stack.extend(n._child_nodes)
        targets = [n for n in nodes if id(n) not in below and n is not p and n._child_nodes]
        if not targets:
            continue
        p.remove_child(x)
        rng.choice(targets).add_child(x)
        return True
    return False


# ------------------------------------------------------------------------------------------------- one tree, full battery
def run_tree(ctx, mon, spec, rooted, rng, nscfg, exhaustive, parts, label):
    import dendropy
    from dendropy.calculate import treemeasure
    labels = sorted(ref.leaf_taxa(spec))
    n = len(labels)
    det = {"tree": ref.to_newick(spec), "rooted_flag": rooted, "namespace": nscfg}
    if n >= 3 and any(nd[3] and nd is not spec for nd in ref.preorder(spec)):
        ctx.nontrivial((label, ref.canon(spec), rooted, nscfg, sorted(parts)))

    def fresh():
        return bridge.build_tree(spec, make_ns(labels, nscfg, random.Random(7)), rooted)

    tree = fresh()
    view = View(tree)
    # ---- 1. the matrix (hook judges every entry) + accessors + summaries
    if "pdm" in parts:
        try:
            if rng.random() < 0.25:
                pdm = tree.phylogenetic_distance_matrix(is_store_path_edges=True)
                note_path_edges(ctx, pdm, view, rng)
            elif rng.random() < 0.3:
                pdm = dendropy.PhylogeneticDistanceMatrix.from_tree(tree)
            elif rng.random() < 0.1:
                pdm = treemeasure.PatristicDistanceMatrix(tree)       # deprecated alias, same compile_from_tree
            else:
                pdm = tree.phylogenetic_distance_matrix()
        except core.CaseTimeout:
            raise
        except Exception:
            pdm = None        # reported by the hook
        if pdm is not None and n >= 2:
            judge_accessors(ctx, pdm, view, rng, det, 6 if exhaustive else 10)
            judge_summaries(ctx, pdm, view.taxon, lambda w, nm: oracle_tables(view, w, nm), view.labels, rng, view.exact,
                            view.total, det, "pdm", [(True, False), (False, False), (True, True), (False, True)],
                            3 if exhaustive else 2)
            if "nj" in parts and nj_admissible(spec):
                do_nj(ctx, mon, pdm, spec, "matrix of the tree")
                if rng.random() < (1.0 if exhaustive else 0.3):
                    do_nj(ctx, mon, pdm, spec, "edge counts of the tree", weighted=False)
            if "upgma" in parts and upgma_admissible(spec):
                do_upgma(ctx, mon, pdm, spec, "matrix of the tree")
            if "csv" in parts:
                for variant in parts["csv"]:
                    csv_roundtrip(ctx, mon, pdm, view, rng, variant, det)
            if n >= 3 and rng.random() < (0.5 if exhaustive else 0.3):
                # re-compile the SAME matrix object from another tree over the same namespace: nothing of the
                # first tree may survive (the hook judges the mapped taxa and every entry against the new tree)
                keep = rng.sample(labels, rng.randint(2, n - 1))
                t2 = bridge.build_tree(ref.induced(spec, keep, suppress=rng.random() < 0.5), tree.taxon_namespace, rooted)
                try:
                    pdm.compile_from_tree(t2)
                    ctx.ev("matrix-recompiled-from-another-tree")
                except core.CaseTimeout:
                    raise
                except Exception:
                    pass
    # ---- 2. node distance matrix
    if "ndm" in parts:
        try:
            tree.node_distance_matrix()
        except core.CaseTimeout:
            raise
        except Exception:
            pass
    # ---- 3. common ancestors: refresh on a never-encoded tree, then current encodings, then stale + refresh
    if "mrca" in parts and n >= 1:
        k = 8 if ctx.tier == "quick" else 14
        t = fresh()
        mrca_queries(ctx, t, View(t), rng, exhaustive, k, refresh=True)
        t = fresh()
        mrca_queries(ctx, t, View(t), rng, False, 2, refresh=False, absent=False)     # never encoded, default: recorded only
        for flags in ({}, {"suppress_unifurcations": False, "collapse_unrooted_basal_bifurcation": False},
                      {"suppress_unifurcations": False}):
            if not exhaustive and rng.random() < 0.5:
                continue
            t = fresh()
            try:
                t.encode_bipartitions(**flags)
            except core.CaseTimeout:
                raise
            except Exception as e:
                ctx.note("encode_bipartitions-raised-%s" % type(e).__name__)
                continue
            mrca_queries(ctx, t, View(t), rng, exhaustive, k, refresh=rng.choice([False, False, "explicit-true"]))
            if live_spr(t, rng):
                v2 = View(t)
                mrca_queries(ctx, t, v2, rng, False, 2, refresh=False, absent=False)  # stale, default: recorded only
                mrca_queries(ctx, t, v2, rng, False, k, refresh=True)
                # the matrix of the mutated tree (hook re-extracts): hidden state must not leak into it
                if rng.random() < 0.5:
                    try:
                        t.phylogenetic_distance_matrix()
                    except core.CaseTimeout:
                        raise
                    except Exception:
                        pass
    # ---- 4. treemeasure.patristic_distance (mutates unrooted trees: fresh tree per group of calls)
    if "tm" in parts and n >= 1:
        t = fresh()
        v = View(t)
        prs = list(itertools.combinations(labels, 2))
        if not exhaustive and len(prs) > 6:
            prs = rng.sample(prs, 6)
        prs.append((labels[0], labels[0]))
        for i, (a, b) in enumerate(prs):
            if exhaustive and i and not rooted:
                t = fresh()             # the refresh restructures unrooted trees; every pair also sees the original
                v = View(t)
            try:
                treemeasure.patristic_distance(t, v.taxon[a], v.taxon[b])
            except core.CaseTimeout:
                raise
            except Exception:
                pass
        t = fresh()
        try:
            t.encode_bipartitions(suppress_unifurcations=False)
        except core.CaseTimeout:
            raise
        except Exception:
            t = None
        if t is not None:
            v = View(t)
            for a, b in prs[:4]:
                if a in v.taxon and b in v.taxon:
                    try:
                        treemeasure.patristic_distance(t, v.taxon[a], v.taxon[b], is_bipartitions_updated=True)
                    except core.CaseTimeout:
                        raise
                    except Exception:
                        pass


def note_path_edges(ctx, pdm, view, rng):
    """recorded, not judged: stored path edges add up to the distance."""
    if len(view.labels) < 2:
        return
    a, b = rng.sample(view.labels, 2)
    try:
        es = pdm.path_edges(view.taxon[a], view.taxon[b])
        L, E, N = ref.leaf_paths(view.spec)[(a, b)]
        ok = len(es) == E and U.close(sum((e.length or 0) for e in es), L, view.total)
        ctx.note("path_edges-%s" % ("consistent" if ok else "inconsistent"))
    except Exception as e:
        ctx.note("path_edges-raised-%s" % type(e).__name__)


# =================================================================================================
def _lf(taxon, length=None):
    return [taxon, None, length, []]


def _nd(children, length=None):
    return [None, None, length, children]


DIRECTED = [
    # smallest witnesses of the mechanisms found on the unchanged tree (always first)
    {"kind": "spec", "name": "tm-unrooted-basal-bifurcation-missing-length",
     "spec": _nd([_nd([_lf("a", 1), _lf("b", 1)], None), _nd([_lf("c", 1), _lf("d", 1)], 3)]), "rooted": False, "parts": ["tm", "pdm", "mrca"]},
    {"kind": "spec", "name": "csv-delimiter", "spec": _nd([_lf("a", 1), _lf("b", 2), _lf("c", 4)]), "rooted": True,
     "parts": ["pdm"], "csv": ["tab", "semicolon"]},
    {"kind": "spec", "name": "csv-matrix-usable", "spec": _nd([_nd([_lf("a", 1), _lf("b", 1)], 2), _nd([_lf("c", 1), _lf("d", 1)], 2)]),
     "rooted": True, "parts": ["pdm", "nj", "upgma"], "csv": ["plain", "path"]},
    # sanity anchors
    {"kind": "spec", "name": "quartet-nj", "spec": _nd([_nd([_lf("a", 1), _lf("b", 2)], 3), _lf("c", 4), _lf("d", 5)]), "rooted": False,
     "parts": ["pdm", "nj", "ndm", "mrca", "tm"], "csv": ["plain", "normalized", "steps"]},
    {"kind": "spec", "name": "unary-chain", "spec": _nd([_nd([_nd([_lf("a", 1)], 2), _lf("b", 2)], 1), _nd([_lf("c", 4)], None)]), "rooted": True,
     "parts": ["pdm", "nj", "ndm", "mrca", "tm"], "csv": ["plain"]},
]


def cases(tier, seed):
    for d in DIRECTED:
        yield dict(d, seed=seed)
    nmax = 4 if tier == "quick" else 5
    for n in range(1, nmax + 1):
        shapes = gen.all_shapes(n)
        for idx in range(len(shapes)):
            for rooted in (True, False):
                for pi, pat in enumerate(PATTERNS):
                    if n == 5 and (idx + pi + seed) % 3 != 0:
                        continue
                    yield {"kind": "shape", "n": n, "idx": idx, "rooted": rooted, "pat": pat, "seed": seed}
    if tier == "quick":
        shapes = gen.all_shapes(5)
        for idx in range(len(shapes)):
            if (idx + seed) % 2 == 0:
                yield {"kind": "shape", "n": 5, "idx": idx, "rooted": bool(idx % 2), "pat": PATTERNS[(idx // 5) % len(PATTERNS)], "seed": seed}
    nrand, nnj, nup, ncsv = (5000, 4000, 2000, 1000) if tier == "quick" else (16000, 16000, 7000, 4000)
    rest = []
    for kind, k in (("random", nrand), ("nj", nnj), ("upgma", nup), ("csv", ncsv)):
        rest.extend({"kind": kind, "i": i, "seed": seed} for i in range(k))
    # deterministic shuffle: every shard (i % nshards) sees every kind in proportion, whatever the shard count
    random.Random("C14-order/%s/%s" % (tier, seed)).shuffle(rest)
    for c in rest:
        yield c


def _listify(x):
    return [_listify(y) if isinstance(y, (list, tuple)) else y for y in x] if isinstance(x, (list, tuple)) else x


def run_case(case, ctx):
    rng = random.Random("%s/%s" % (case["seed"], sorted((k, str(v)) for k, v in case.items())))
    with warnings.catch_warnings():
        warnings.simplefilter("ignore")
        from dendropy.utility import deprecate
        deprecate.configure_deprecation_warning_behavior("ignore")   # the deprecated PatristicDistanceMatrix alias is one route
        with Hooks(ctx) as hooks:
            mon = Monitor(ctx, rng)
            mon.install(hooks)
            _run(case, ctx, mon, rng)


def _parts(names, csv=None):
    p = dict((k, True) for k in names)
    if csv:
        p["csv"] = list(csv)
    return p


def _run(case, ctx, mon, rng):
    kind = case["kind"]
    quick = ctx.tier == "quick"
    if kind == "spec":
        spec = ref.copy(_listify(case["spec"]))
        run_tree(ctx, mon, spec, case["rooted"], rng, "exact", True, _parts(case["parts"], case.get("csv")), case["name"])
        ctx.sample({"kind": "directed", "name": case["name"], "tree": ref.to_newick(spec), "rooted": case["rooted"]})
    elif kind == "shape":
        spec = gen.shape_to_spec(gen.all_shapes(case["n"])[case["idx"]])
        if rng.random() < 0.3:
            spec = gen.insert_unary(spec, rng, 0.3)
        apply_pattern(spec, rng, case["pat"])
        csvv = [rng.choice(("plain", "normalized", "steps", "path"))] if rng.random() < 0.5 else None
        run_tree(ctx, mon, spec, case["rooted"], rng, rng.choice(NSCFG), True,
                 _parts(["pdm", "ndm", "mrca", "tm", "nj", "upgma"], csvv), "shape")
        if case["idx"] == 1 and case["pat"] == "ints" and case["n"] == 4:
            ctx.sample({"kind": "shape", "tree": ref.to_newick(spec), "rooted": case["rooted"],
                        "battery": "matrix (all entries), summaries, NDM, mrca (all subsets x 3 routes x modes), patristic_distance (all pairs), NJ, UPGMA if ultrametric"})
    elif kind == "random":
        n = rng.choice([2, 3, 5, 8, 12, 15]) if quick else rng.choice([2, 3, 6, 10, 20, 40, 60, 80])
        spec = gen.random_spec(rng, n, p_poly=rng.choice([0, 0.3, 0.6]), p_unary=rng.choice([0, 0, 0.15]),
                               shape=rng.choice([None, None, None, "caterpillar", "star", "balanced"]))
        apply_pattern(spec, rng, rng.choice(PATTERNS))
        rooted = rng.random() < 0.5
        names = ["pdm", "mrca", "tm", "nj", "upgma"]
        if n <= 30:
            names.append("ndm")
        csvv = [rng.choice(("plain", "normalized", "steps"))] if (n <= 20 and rng.random() < 0.3) else None
        run_tree(ctx, mon, spec, rooted, rng, rng.choice(NSCFG), False, _parts(names, csvv), "random")
        if case["i"] < 2:
            ctx.sample({"kind": "random", "tree": ref.to_newick(spec), "rooted": rooted})
    elif kind in ("nj", "upgma", "csv"):
        if kind == "csv":
            n = rng.choice([2, 3, 4, 6, 9])
        else:
            n = rng.choice([2, 3, 4, 5, 7, 10, 15]) if quick else rng.choice([3, 4, 6, 10, 16, 25, 40, 60])
        spec = gen.random_spec(rng, n, p_poly=rng.choice([0, 0, 0.3, 0.6]), p_unary=rng.choice([0, 0, 0.1]),
                               shape=rng.choice([None, None, None, "caterpillar", "balanced", "star"]))
        dy = rng.random() < 0.5
        rooted = rng.random() < 0.5
        if kind == "upgma" or (kind == "csv" and rng.random() < 0.4):
            gen.ultrametric_lengths(spec, rng, dyadic=dy)
            if rng.random() < 0.25:
                # some zero-height steps: ultrametric tree with zero-length internal edges (= polytomy)
                for nd in ref.preorder(spec):
                    if nd[3] and nd is not spec and rng.random() < 0.3:
                        for c in nd[3]:
                            c[2] = c[2] + nd[2]
                        nd[2] = 0.0 if not dy else 0
        else:
            U.positive_lengths(spec, rng, dy)
            if rng.random() < 0.3:
                U.zero_some_pendants(spec, rng)
        if kind == "csv":
            variants = rng.sample(["plain", "normalized", "steps", "tab", "semicolon", "path", "rownames-only", "colnames-only"], 2)
            run_tree(ctx, mon, spec, rooted, rng, rng.choice(NSCFG), False, _parts(["pdm"], variants), "csv")
        else:
            import dendropy
            tree = bridge.build_tree(spec, make_ns(sorted(ref.leaf_taxa(spec)), rng.choice(NSCFG), rng), rooted)
            try:
                pdm = tree.phylogenetic_distance_matrix()
            except core.CaseTimeout:
                raise
            except Exception:
                return
            if n >= 3:
                ctx.nontrivial((kind, ref.canon(spec), rooted))
            if kind == "nj":
                do_nj(ctx, mon, pdm, spec, "matrix of a random tree with positive lengths")
                if rng.random() < 0.3:
                    do_nj(ctx, mon, pdm, spec, "edge counts of the tree", weighted=False)
                if U.is_ultrametric(spec):
                    do_upgma(ctx, mon, pdm, spec, "matrix of the tree")
            else:
                do_upgma(ctx, mon, pdm, spec, "matrix of a random ultrametric tree")
                do_nj(ctx, mon, pdm, spec, "matrix of a random ultrametric tree")
            if case["i"] < 2:
                ctx.sample({"kind": kind, "generating_tree": ref.to_newick(spec)})
    else:
        raise core.HarnessBug("unknown case kind %r" % kind)
