"""setup_cmd: nothing to build or install (standard library only); verify that the
framework imports and that the code under test is the working tree of /repo."""
import importlib
import os
import sys

from . import core


def main():
    dp = core.ensure_repo_on_path()
    import vf.ref, vf.gen, vf.bridge, vf.findings, vf.evidence, vf.run, vf.shard  # noqa
    import vf.mon.arbor, vf.mon.budget, vf.mon.hooks, vf.mon.reach  # noqa
    import json
    n = 0
    with open(os.path.join(core.VERIF, "MANIFEST.json")) as f:
        man = json.load(f)
    for c in man["checks"]:
        importlib.import_module("vf.props.%s" % c["property_id"])
        n += 1
    assert sys.version_info >= (3, 12), "sys.monitoring needs Python 3.12"
    print("vf selfcheck ok: dendropy %s from %s; %d property modules" % (dp.__version__, dp.__file__, n))


if __name__ == "__main__":
    main()
