"""Seeded workload generators (specs only; no library objects are made here)."""
import itertools
import random

from . import ref


def set_partitions(items):
    items = list(items)
    if not items:
        yield []
        return
    first, rest = items[0], items[1:]
    for part in set_partitions(rest):
        for i in range(len(part)):
            yield part[:i] + [[first] + part[i]] + part[i + 1:]
        yield [[first]] + part


def _shapes_on(items, memo):
    key = tuple(items)
    if key in memo:
        return memo[key]
    if len(items) == 1:
        res = [items[0]]
    else:
        res = []
        for part in set_partitions(items):
            if len(part) < 2:
                continue
            part = sorted(part, key=lambda b: b[0])
            for combo in itertools.product(*[_shapes_on(tuple(sorted(b)), memo) for b in part]):
                res.append(tuple(combo))
    memo[key] = res
    return res


def all_shapes(n):
    """All rooted multifurcating shapes on leaves 0..n-1 without unary nodes,
    as nested tuples of ints (1, 1, 4, 26, 236, 2752 for n = 1..6)."""
    return _shapes_on(tuple(range(n)), {})


def shape_to_spec(shape, names=None):
    if isinstance(shape, int):
        return ref.S(names[shape] if names else "T%d" % shape)
    return ref.S(None, [shape_to_spec(c, names) for c in shape])


def tname(i):
    return "T%d" % i


def random_spec(rng, n, p_poly=0.25, p_unary=0.0, names=None, shape=None):
    """random rooted spec with n leaves.  shape in {None,'caterpillar','star','balanced'}"""
    names = names or [tname(i) for i in range(n)]
    idx = list(range(n))
    rng.shuffle(idx)

    def build(ix):
        if len(ix) == 1:
            node = ref.S(names[ix[0]])
        else:
            if shape == "star":
                k = len(ix)
            elif shape == "caterpillar":
                k = 2
            elif rng.random() < p_poly and len(ix) > 2:
                k = rng.randint(3, min(len(ix), 6))
            else:
                k = 2
            if shape == "caterpillar":
                parts = [ix[:1], ix[1:]]
            elif shape == "balanced":
                h = len(ix) // 2
                parts = [ix[:h], ix[h:]]
            else:
                cuts = sorted(rng.sample(range(1, len(ix)), k - 1))
                parts = [ix[a:b] for a, b in zip([0] + cuts, cuts + [len(ix)])]
            node = ref.S(None, [build(p) for p in parts])
        while p_unary and rng.random() < p_unary:
            node = ref.S(None, [node])
        return node
    return build(idx)


LENGTH_PATTERNS = ("none", "unit", "ints", "zeros", "dyadic", "float", "mixed_missing")


def decorate_lengths(spec, rng, pattern, root_length=False):
    for n in ref.preorder(spec):
        if n is spec and not root_length:
            n[2] = None
            continue
        if pattern == "none":
            n[2] = None
        elif pattern == "unit":
            n[2] = 1
        elif pattern == "ints":
            n[2] = rng.randint(1, 5)
        elif pattern == "zeros":
            n[2] = rng.choice([0, 0, 1, 2])
        elif pattern == "dyadic":
            n[2] = rng.randint(1, 64) / 8.0
        elif pattern == "float":
            n[2] = rng.uniform(0.001, 3.0)
        elif pattern == "mixed_missing":
            n[2] = rng.choice([None, 1.5, rng.randint(1, 4) / 2.0])
        else:
            raise ValueError(pattern)
    return spec


def ultrametric_lengths(spec, rng, dyadic=True):
    """assign node heights top-down so that all tips are at the same root distance."""
    # height of each node: leaves 0; internal > max(children)
    memo = {}
    for n in ref.postorder(spec):
        if not n[3]:
            memo[id(n)] = 0.0
        else:
            step = (rng.randint(1, 16) / 8.0) if dyadic else rng.uniform(0.05, 2.0)
            memo[id(n)] = max(memo[id(c)] for c in n[3]) + step
    for n in ref.preorder(spec):
        for c in n[3]:
            c[2] = memo[id(n)] - memo[id(c)]
    spec[2] = None
    return spec


def shuffle_children(spec, rng):
    s = ref.copy(spec)
    for n in ref.preorder(s):
        rng.shuffle(n[3])
    return s


def insert_unary(spec, rng, p=0.3, split_lengths=True):
    """re-drawing: wrap random nodes in outdegree-1 parents (length split in two)."""
    s = ref.copy(spec)

    def rec(n, is_root):
        n[3] = [rec(c, False) for c in n[3]]
        if rng.random() < p:
            if n[2] is not None and not is_root and split_lengths:
                if isinstance(n[2], int):
                    a = n[2] // 2
                else:
                    a = n[2] / 2.0
                b = n[2] - a
                n[2] = a
                return ref.S(None, [n], b)
            if n[2] is None:
                return ref.S(None, [n], None)
        return n
    return rec(s, True)


def nni(spec, rng):
    """random nearest-neighbour interchange on a copy (topology change when it
    finds an internal edge between two nodes of degree >= 2); returns new spec."""
    s = ref.copy(spec)
    cands = [(p, c) for p in ref.preorder(s) for c in p[3] if len(c[3]) >= 2 and len(p[3]) >= 2]
    if not cands:
        return s
    p, c = rng.choice(cands)
    sib = rng.choice([x for x in p[3] if x is not c])
    gc = rng.choice(c[3])
    i, j = p[3].index(sib), c[3].index(gc)
    p[3][i], c[3][j] = gc, sib
    return s


def spr(spec, rng):
    s = ref.copy(spec)
    nodes = list(ref.preorder(s))
    if len(nodes) < 5:
        return s
    pm = ref.parent_map(s)
    for _ in range(20):
        x = rng.choice(nodes[1:])
        px = pm[id(x)]
        below = set(id(n) for n in ref.preorder(x))
        targets = [n for n in nodes if id(n) not in below and n is not px and n[3]]
        if not targets or len(px[3]) < 3:
            continue
        px[3].remove(x)
        rng.choice(targets)[3].append(x)
        return s
    return s


SPECIAL_CHARS = "()[]{}\\/,;:=*'\"`+-<>#&%_ \t!?@^|~.$"


def random_label(rng, alphabet=None, maxlen=8):
    alphabet = alphabet or ("abcXYZ019" + SPECIAL_CHARS + "éßα")
    while True:
        k = rng.randint(1, maxlen)
        s = "".join(rng.choice(alphabet) for _ in range(k))
        if s.strip() == s and s:
            return s
