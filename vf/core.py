"""Core of the runtime-monitoring framework: per-run context, verdict bookkeeping,
exception classification, per-case watchdog.  Standard library only."""
import collections
import hashlib
import json
import os
import signal
import sys
import traceback

REPO_SRC = os.environ.get("VF_REPO_SRC", "/repo/src")
VERIF = os.path.dirname(os.path.dirname(os.path.abspath(__file__)))


def ensure_repo_on_path():
    """Import dendropy from the *current working tree* of /repo (or VF_REPO_SRC)."""
    src = os.path.abspath(REPO_SRC)
    if sys.path[0] != src:
        sys.path.insert(0, src)
    import dendropy  # noqa
    f = os.path.abspath(dendropy.__file__)
    if not f.startswith(src + os.sep):
        raise RuntimeError("dendropy imported from %s, expected under %s" % (f, src))
    return dendropy


class CaseTimeout(BaseException):
    """Wall-clock watchdog fired: the case is INCONCLUSIVE, never a verdict."""


class HarnessBug(Exception):
    pass


def short_hash(obj):
    if not isinstance(obj, (str, bytes)):
        obj = json.dumps(obj, sort_keys=True, default=repr)
    if isinstance(obj, str):
        obj = obj.encode("utf-8", "backslashreplace")
    return hashlib.md5(obj).hexdigest()[:16]


def _is_repo_file(fn):
    return fn.startswith(os.path.abspath(REPO_SRC) + os.sep)


def innermost_repo_frame(exc):
    """(function-qualname, file-basename) of the innermost frame of the traceback
    that lies inside the code under test, or None."""
    tb = exc.__traceback__
    found = None
    while tb is not None:
        code = tb.tb_frame.f_code
        if _is_repo_file(code.co_filename):
            found = (getattr(code, "co_qualname", code.co_name),
                     os.path.basename(code.co_filename))
        tb = tb.tb_next
    return found


def raised_in_repo(exc):
    """True when the innermost frame of the traceback is library code (as opposed
    to the harness, e.g. a callback of ours called by the library)."""
    tb = exc.__traceback__
    last = None
    while tb is not None:
        last = tb.tb_frame.f_code.co_filename
        tb = tb.tb_next
    return last is not None and _is_repo_file(last)


def exc_key(exc):
    fr = innermost_repo_frame(exc)
    return "%s|%s" % (type(exc).__name__, fr[0] if fr else "<outside-library>")


def exc_brief(exc):
    s = "%s: %s" % (type(exc).__name__, exc)
    return s if len(s) < 300 else s[:300] + "..."


class Watchdog(object):
    """Per-case wall clock limit.  Fires CaseTimeout repeatedly (the library has
    bare ``except:`` clauses) until disarmed by the harness."""

    def __init__(self):
        self.armed = False

    def _handler(self, signum, frame):
        if self.armed:
            signal.setitimer(signal.ITIMER_REAL, 0.05)
            raise CaseTimeout()

    def arm(self, seconds):
        self.armed = True
        signal.signal(signal.SIGALRM, self._handler)
        signal.setitimer(signal.ITIMER_REAL, seconds)

    def disarm(self):
        self.armed = False
        signal.setitimer(signal.ITIMER_REAL, 0)


MAX_WITNESSES_PER_KEY = 3
MAX_SAMPLES = 12


class Ctx(object):
    """What the monitors of one shard observed."""

    def __init__(self, prop, tier, seed):
        self.prop = prop
        self.tier = tier
        self.seed = seed
        self.events = collections.Counter()
        self.violations = {}      # key -> {"count": n, "what": str, "witnesses": [...]}
        self.sigs = set()
        self.samples = []
        self.inconclusive = []
        self.evaluations = 0
        self.states = set()
        self.transitions = set()
        self.notes = collections.Counter()   # recorded-not-judged observations
        self.case = None

    # -- monitors call these ---------------------------------------------------
    def ev(self, name, n=1):
        self.events[name] += n

    def note(self, name, n=1):
        self.notes[name] += n

    def nontrivial(self, sig):
        self.sigs.add(short_hash(sig))

    def state(self, sig):
        self.states.add(short_hash(sig))

    def transition(self, sig):
        self.transitions.add(short_hash(sig))

    def sample(self, obj):
        if len(self.samples) < MAX_SAMPLES:
            self.samples.append(obj)

    def violation(self, key, what, detail=None):
        v = self.violations.setdefault(key, {"count": 0, "what": what, "witnesses": []})
        v["count"] += 1
        if len(v["witnesses"]) < MAX_WITNESSES_PER_KEY:
            v["witnesses"].append({"case": self.case, "what": what, "detail": detail})

    def unexpected(self, op, exc, detail=None):
        """An exception outside the operation's documented set."""
        if isinstance(exc, CaseTimeout):
            raise exc
        self.violation("%s|unexpected-exception|%s" % (op, exc_key(exc)),
                       "%s raised %s" % (op, exc_brief(exc)), detail)

    def mark_inconclusive(self, reason):
        if len(self.inconclusive) < 50:
            self.inconclusive.append({"case": self.case, "reason": reason})
        self.events["inconclusive"] += 1

    # -- (de)serialisation between shard and parent ------------------------------
    def dump(self):
        return {
            "events": dict(self.events), "violations": self.violations,
            "sigs": sorted(self.sigs), "samples": self.samples,
            "inconclusive": self.inconclusive, "evaluations": self.evaluations,
            "states": sorted(self.states), "transitions": sorted(self.transitions),
            "notes": dict(self.notes),
        }

    def absorb(self, d):
        self.events.update(d["events"])
        self.notes.update(d.get("notes", {}))
        for k, v in d["violations"].items():
            mine = self.violations.setdefault(k, {"count": 0, "what": v["what"], "witnesses": []})
            mine["count"] += v["count"]
            for w in v["witnesses"]:
                if len(mine["witnesses"]) < MAX_WITNESSES_PER_KEY:
                    mine["witnesses"].append(w)
        self.sigs.update(d["sigs"])
        for s in d["samples"]:
            self.sample(s)
        self.inconclusive.extend(d["inconclusive"])
        self.evaluations += d["evaluations"]
        self.states.update(d["states"])
        self.transitions.update(d["transitions"])


def run_cases(mod, ctx, cases, case_timeout):
    """Run an iterable of case descriptors in this process."""
    wd = Watchdog()
    timeouts = 0
    for case in cases:
        ctx.case = case
        ctx.evaluations += 1
        try:
            wd.arm(case_timeout)
            try:
                mod.run_case(case, ctx)
            finally:
                wd.disarm()
        except CaseTimeout:
            ctx.mark_inconclusive("wall-clock watchdog (%ss) fired" % case_timeout)
            timeouts += 1
            if timeouts >= 3:
                # something hangs systematically: stop this shard and report what was observed so far
                ctx.mark_inconclusive("3 cases hit the wall-clock watchdog; shard stopped early")
                ctx.events["shard-stopped-early"] += 1
                break
        except KeyboardInterrupt:
            raise
        except BaseException as e:  # uncaught: library crash the monitors did not anticipate
            fr = innermost_repo_frame(e)
            tbtxt = "".join(traceback.format_exception(type(e), e, e.__traceback__))[-1500:]
            if fr is None:
                ctx.violation("harness|uncaught|%s" % type(e).__name__,
                              "harness error outside library: %s" % exc_brief(e), tbtxt)
            else:
                ctx.violation("uncaught|%s" % exc_key(e),
                              "uncaught %s" % exc_brief(e), tbtxt)
    ctx.case = None


def call(ctx, op, fn, *args, allowed=(), detail=None, **kw):
    """Call library code.  Returns (True, result); (False, exc) when exc is one of
    the operation's *documented* errors (``allowed``); any other exception is
    reported through ctx.unexpected and also returned as (False, exc)."""
    try:
        return True, fn(*args, **kw)
    except CaseTimeout:
        raise
    except Exception as e:
        if allowed and isinstance(e, allowed):
            ctx.ev("documented-error:%s:%s" % (op, type(e).__name__))
            return False, e
        ctx.unexpected(op, e, detail)
        return False, e
