"""Between specs and live library objects.  Trees are *constructed* through the
node API (not through a parser) so that reader bugs cannot contaminate oracles,
and *extracted* by reading the raw linked structure."""
from . import ref


class ExtractError(Exception):
    pass


def make_namespace(labels, dendropy=None, **kw):
    import dendropy as dp
    return dp.TaxonNamespace(list(labels), **kw)


def build_tree(spec, ns, rooted=None, taxa_by_label=None, label=None):
    """build a dendropy.Tree with the structure of spec over namespace ns
    (taxa looked up by label, created when missing)."""
    import dendropy as dp
    if taxa_by_label is None:
        taxa_by_label = {}
        for t in ns:
            taxa_by_label.setdefault(t.label, t)
    tree = dp.Tree(taxon_namespace=ns, label=label)
    if rooted is not None:
        tree.is_rooted = rooted

    def taxon_for(lbl):
        if lbl is None:
            return None
        t = taxa_by_label.get(lbl)
        if t is None:
            t = ns.new_taxon(label=lbl)
            taxa_by_label[lbl] = t
        return t
    seed = tree.seed_node
    seed.taxon = taxon_for(spec[0])
    seed.label = spec[1]
    seed.edge.length = spec[2]
    stack = [(seed, spec)]
    while stack:
        nd, s = stack.pop()
        for cs in s[3]:
            ch = dp.Node(taxon=taxon_for(cs[0]), label=cs[1], edge_length=cs[2])
            nd.add_child(ch)
            stack.append((ch, cs))
    return tree


def extract(tree_or_node, with_nodes=False, limit=2000000):
    """spec of a live tree, reading _child_nodes directly; guards against cycles
    and shared nodes (raises ExtractError)."""
    seed = getattr(tree_or_node, "_seed_node", None)
    if seed is None:
        seed = tree_or_node
    seen = set()
    nodes = []

    def mk(nd):
        if id(nd) in seen:
            raise ExtractError("node reached twice while walking child lists")
        seen.add(id(nd))
        if len(seen) > limit:
            raise ExtractError("more than %d nodes" % limit)
        tx = nd.taxon.label if getattr(nd, "taxon", None) is not None else None
        e = nd._edge
        s = [tx, nd.label, e.length if e is not None else None, []]
        nodes.append((s, nd))
        return s
    # true pre-order: a node is materialised when it is popped, its spec is then hooked into its parent's child list
    root = None
    stack = [(seed, None)]
    while stack:
        nd, parent_spec = stack.pop()
        s = mk(nd)
        if parent_spec is None:
            root = s
        else:
            parent_spec[3].append(s)
        for ch in reversed(nd._child_nodes):
            stack.append((ch, s))
    if with_nodes:
        return root, nodes
    return root


def node_map(nodes):
    """id(spec node) -> live node, from extract(..., with_nodes=True)."""
    return dict((id(s), nd) for s, nd in nodes)
