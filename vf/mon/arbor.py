"""Arborescence walker: structural invariant of a live tree, read from the raw
fields only (_seed_node, _child_nodes, _parent_node, _edge, _head_node)."""


def check(tree, iterators=True):
    """returns a list of problem strings (empty = well formed)."""
    probs = []
    seed = tree._seed_node
    if seed is None:
        return ["tree has no seed node"]
    if seed._parent_node is not None:
        probs.append("seed node has a parent")
    seen_nodes = {}
    seen_edges = {}
    order = []
    stack = [(seed, None)]
    while stack:
        nd, parent = stack.pop()
        if id(nd) in seen_nodes:
            probs.append("node reachable twice (shared or cyclic)")
            continue
        seen_nodes[id(nd)] = nd
        order.append(nd)
        if len(seen_nodes) > 5000000:
            probs.append("walk did not finish")
            break
        if parent is not None and nd._parent_node is not parent:
            probs.append("child's _parent_node is not the node whose child list holds it")
        e = nd._edge
        if e is None:
            probs.append("node without edge")
        else:
            if id(e) in seen_edges:
                probs.append("edge shared by two nodes")
            seen_edges[id(e)] = e
            if e._head_node is not nd:
                probs.append("edge._head_node is not the edge's node")
            try:
                tail = e.tail_node
            except Exception as ex:  # pragma: no cover
                tail = ex
            if tail is not nd._parent_node:
                probs.append("edge.tail_node is not the node's parent")
        kids = nd._child_nodes
        if len(set(map(id, kids))) != len(kids):
            probs.append("a node occurs twice in one child list")
        for ch in reversed(kids):
            stack.append((ch, nd))
    if probs or not iterators:
        return _dedupe(probs)
    ids = set(seen_nodes)
    nleaves = sum(1 for n in order if not n._child_nodes)
    for name in ("preorder_node_iter", "postorder_node_iter", "levelorder_node_iter"):
        try:
            got = [id(n) for n in getattr(tree, name)()]
        except Exception as ex:
            probs.append("%s raised %s" % (name, type(ex).__name__))
            continue
        if len(got) != len(ids) or set(got) != ids:
            probs.append("%s visits a different node set than is reachable" % name)
    try:
        got = [id(n) for n in tree.leaf_node_iter()]
        want = set(id(n) for n in order if not n._child_nodes)
        if len(got) != nleaves or set(got) != want:
            probs.append("leaf_node_iter visits a different leaf set than is reachable")
    except Exception as ex:
        probs.append("leaf_node_iter raised %s" % type(ex).__name__)
    return _dedupe(probs)


def _dedupe(probs):
    out = []
    for p in probs:
        if p not in out:
            out.append(p)
    return out


def second_opinion(tree):
    """library's own self check; returns None if it passes, else a string."""
    try:
        tree._debug_tree_is_valid(check_bipartitions=False)
    except Exception as ex:
        return "%s: %s" % (type(ex).__name__, str(ex)[:200])
    return None
