"""Logical step budget: counts backward/forward JUMP + BRANCH-free loop progress via
sys.monitoring JUMP events inside library code only.  Overflow raises
StepBudgetExceeded (a BaseException) from the callback on *every* further event
until the harness leaves the ``with`` block, so a bare ``except:`` inside the
library cannot swallow the verdict."""
import os
import sys

from ..core import REPO_SRC

_TOOL = 4
_prefix = os.path.abspath(REPO_SRC) + os.sep


class StepBudgetExceeded(BaseException):
    def __init__(self, steps, where):
        BaseException.__init__(self, "step budget exceeded after %d jumps at %s" % (steps, where))
        self.steps = steps
        self.where = where


class budget(object):
    """with budget(limit) as b: ... ; b.steps afterwards."""

    def __init__(self, limit):
        self.limit = limit
        self.steps = 0
        self.tripped = None
        self._known = {}

    def _cb(self, code, src, dst):
        k = self._known.get(code)
        if k is None:
            k = self._known[code] = code.co_filename.startswith(_prefix)
        if not k:
            return sys.monitoring.DISABLE
        self.steps += 1
        if self.steps > self.limit:
            if self.tripped is None:
                ln = "?"
                try:
                    for start, end, line in code.co_lines():
                        if start <= src < end:
                            ln = line
                            break
                except Exception:
                    pass
                self.tripped = "%s:%s:%s" % (os.path.basename(code.co_filename), code.co_qualname, ln)
            raise StepBudgetExceeded(self.steps, self.tripped)

    def __enter__(self):
        m = sys.monitoring
        m.use_tool_id(_TOOL, "vf-budget")
        m.register_callback(_TOOL, m.events.JUMP, self._cb)
        m.set_events(_TOOL, m.events.JUMP)
        m.restart_events()
        return self

    def __exit__(self, et, ev, tb):
        m = sys.monitoring
        m.set_events(_TOOL, 0)
        m.register_callback(_TOOL, m.events.JUMP, None)
        m.free_tool_id(_TOOL)
        return False
