"""Logical step budget: counts JUMP events (loop back-edges etc.) of sys.monitoring
inside library code only.  Overflow raises StepBudgetExceeded (a BaseException) from
the callback on *every* further event until the harness leaves the ``with`` block, so
a bare ``except:`` inside the library cannot swallow the verdict.

The tool is registered once per process; arming/disarming only toggles the event set
(cheap enough to wrap every single operation of a long history)."""
import os
import sys

from ..core import REPO_SRC

_TOOL = 4
_prefix = os.path.abspath(REPO_SRC) + os.sep


class StepBudgetExceeded(BaseException):
    def __init__(self, steps, where):
        BaseException.__init__(self, "step budget exceeded after %d jumps at %s" % (steps, where))
        self.steps = steps
        self.where = where


class _State(object):
    registered = False
    limit = 0
    steps = 0
    tripped = None
    known = {}
    depth = 0


_S = _State()


def _cb(code, src, dst):
    k = _S.known.get(code)
    if k is None:
        k = _S.known[code] = code.co_filename.startswith(_prefix)
    if not k:
        return sys.monitoring.DISABLE
    _S.steps += 1
    if _S.steps > _S.limit:
        if _S.tripped is None:
            ln = "?"
            try:
                for start, end, line in code.co_lines():
                    if start <= src < end:
                        ln = line
                        break
            except Exception:
                pass
            _S.tripped = "%s:%s:%s" % (os.path.basename(code.co_filename), code.co_qualname, ln)
        raise StepBudgetExceeded(_S.steps, _S.tripped)


class budget(object):
    """with budget(limit) as b: ... ; b.steps afterwards.  Not re-entrant (inner use is a no-op)."""

    def __init__(self, limit):
        self.limit = limit
        self.steps = 0
        self.tripped = None
        self._outer = False

    def __enter__(self):
        m = sys.monitoring
        if not _S.registered:
            m.use_tool_id(_TOOL, "vf-budget")
            m.register_callback(_TOOL, m.events.JUMP, _cb)
            _S.registered = True
        _S.depth += 1
        if _S.depth == 1:
            self._outer = True
            _S.limit = self.limit
            _S.steps = 0
            _S.tripped = None
            m.set_events(_TOOL, m.events.JUMP)
        return self

    def __exit__(self, et, ev, tb):
        _S.depth -= 1
        if self._outer:
            sys.monitoring.set_events(_TOOL, 0)
            self.steps = _S.steps
            self.tripped = _S.tripped
        return False


# ---------------------------------------------------------------------------------------------------
# Virtual-time budget.  The JUMP budget only sees Python-level loops; a loop inside a C extension that
# the library calls (catastrophic backtracking in ``re`` is the realistic case) makes no jumps.  For
# those the verdict is taken on *process CPU time in user mode* (ITIMER_VIRTUAL), which - unlike wall
# clock - does not advance while the machine is busy with other work.  Limits are thousands of times
# the CPU cost of any valid input of the same size.
import signal


class CpuBudgetExceeded(BaseException):
    def __init__(self, seconds, where):
        BaseException.__init__(self, "CPU-time budget of %.1f s exceeded in %s" % (seconds, where))
        self.seconds = seconds
        self.where = where


class cpu_budget(object):
    """with cpu_budget(seconds): ...   raises CpuBudgetExceeded (repeatedly, every 50 ms of further CPU time,
    so that a bare ``except:`` in the library cannot swallow it) until the block is left."""

    def __init__(self, seconds):
        self.seconds = seconds
        self.armed = False

    def _handler(self, signum, frame):
        if not self.armed:
            return
        where = "?"
        f = frame
        while f is not None:
            fn = f.f_code.co_filename
            if fn.startswith(_prefix):
                where = "%s:%s" % (os.path.basename(fn), f.f_code.co_qualname)
                break
            f = f.f_back
        signal.setitimer(signal.ITIMER_VIRTUAL, 0.05)
        raise CpuBudgetExceeded(self.seconds, where)

    def __enter__(self):
        self.armed = True
        self._old = signal.signal(signal.SIGVTALRM, self._handler)
        signal.setitimer(signal.ITIMER_VIRTUAL, self.seconds)
        return self

    def __exit__(self, et, ev, tb):
        self.armed = False
        signal.setitimer(signal.ITIMER_VIRTUAL, 0)
        signal.signal(signal.SIGVTALRM, self._old if self._old is not None else signal.SIG_DFL)
        return False
