"""Which library functions were actually entered while the monitors were watching.
sys.monitoring PY_START with DISABLE: each code object reports once (cost ~ nil)."""
import os
import sys

from ..core import REPO_SRC

_TOOL = 3
_seen = set()
_on = False


def _cb(code, offset):
    fn = code.co_filename
    if fn.startswith(_prefix):
        _seen.add("%s:%s" % (os.path.basename(fn)[:-3], code.co_qualname))
    return sys.monitoring.DISABLE


_prefix = os.path.abspath(REPO_SRC) + os.sep


def start():
    global _on
    if _on:
        return
    m = sys.monitoring
    m.use_tool_id(_TOOL, "vf-reach")
    m.register_callback(_TOOL, m.events.PY_START, _cb)
    m.set_events(_TOOL, m.events.PY_START)
    _on = True


def stop():
    global _on
    if not _on:
        return
    m = sys.monitoring
    m.set_events(_TOOL, 0)
    m.register_callback(_TOOL, m.events.PY_START, None)
    m.free_tool_id(_TOOL)
    _on = False


def seen():
    return set(_seen)
