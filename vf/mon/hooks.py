"""Hook layer: wraps real library callables from the harness (no edits to /repo).

    h = Hooks(ctx)
    h.install(Tree, "encode_bipartitions", pre=fn, post=fn)
    ...
    h.uninstall()

pre(obj, args, kwargs) -> snapshot            (obj is None for module functions)
post(snapshot, obj, args, kwargs, result, exc) -> None
Every wrapper counts calls/returns/raises in ctx.events under "hook:<name>:..."
A reference bound before install bypasses the wrapper; hence zero calls must be
treated as inconclusive by the property module (MIN_EVENTS)."""
import functools
import inspect


class Hooks(object):
    def __init__(self, ctx=None):
        self.ctx = ctx
        self._undo = []
        self.depth = 0  # re-entrancy: only outermost hooked call is judged

    def install(self, owner, name, pre=None, post=None, tag=None, outermost_only=True):
        raw = inspect.getattr_static(owner, name)
        kind = "plain"
        fn = raw
        if isinstance(raw, classmethod):
            kind, fn = "class", raw.__func__
        elif isinstance(raw, staticmethod):
            kind, fn = "static", raw.__func__
        elif isinstance(raw, property):
            raise TypeError("use install_property for %s" % name)
        is_module = inspect.ismodule(owner)
        tag = tag or ("%s.%s" % (getattr(owner, "__name__", str(owner)).split(".")[-1], name))
        hooks = self

        @functools.wraps(fn)
        def wrapper(*args, **kwargs):
            ctx = hooks.ctx
            if outermost_only and hooks.depth > 0:
                return fn(*args, **kwargs)
            hooks.depth += 1
            try:
                if is_module or kind == "static":
                    obj, rest = None, args
                else:
                    obj, rest = args[0], args[1:]
                if ctx is not None:
                    ctx.ev("hook:%s:call" % tag)
                snap = pre(obj, rest, kwargs) if pre else None
                try:
                    result = fn(*args, **kwargs)
                except Exception as exc:
                    if ctx is not None:
                        ctx.ev("hook:%s:raise" % tag)
                    if post:
                        post(snap, obj, rest, kwargs, None, exc)
                    raise
                if ctx is not None:
                    ctx.ev("hook:%s:return" % tag)
                if post:
                    post(snap, obj, rest, kwargs, result, None)
                return result
            finally:
                hooks.depth -= 1
        if kind == "class":
            new = classmethod(wrapper)
        elif kind == "static":
            new = staticmethod(wrapper)
        else:
            new = wrapper
        setattr(owner, name, new)
        self._undo.append((owner, name, raw))
        return wrapper

    def uninstall(self):
        while self._undo:
            owner, name, raw = self._undo.pop()
            setattr(owner, name, raw)

    def __enter__(self):
        return self

    def __exit__(self, *a):
        self.uninstall()
        return False
